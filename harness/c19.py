"""C19 — comparison helpers: correspondence (Lean model vs qcelemental.testing) + property oracle.

A *case* is one protocol line (see lean/QcelVerif/Driver/C19.lean); it fully determines the Python
objects handed to the implementation (`build`), so a replay is the line itself.

Numbers are carried as exact rationals of IEEE doubles.  A numeric case is only generated when, for
every element pair, the float evaluation of |c-e| and atol+rtol*|e| is either exact or decided by a
relative margin > 2^-40 (`elem_safe`), so exact arithmetic (oracle, model) and numpy must agree.
"""
from __future__ import annotations

import copy
import enum
import itertools
import logging
import math
import warnings
from fractions import Fraction as Fr

import numpy as np

import c19_src
from common import Ctx, Finding, Outcome

PROPERTY = "C19"
LEAN_TARGETS = ["QcelVerif.Props.C19", "QcelVerif.Lemmas.CompareSqrt", "QcelVerif.Model.CompareWide", "QcelVerif.Props.C19Wide", "QcelVerif.Driver.C19",
                "QcelVerif.Model.CompareAst", "QcelVerif.Gen.CompareSrc", "QcelVerif.Props.C19Src"]
DRIVER = "QcelVerif/Driver/C19.lean"
TRANSLATORS = [c19_src.gen_compare_src]  # lean/QcelVerif/Gen/CompareSrc.lean <- qcelemental/testing.py (decision skeletons, by `ast`)
THEOREMS = [
    ("QcelVerif.Compare.closeR_fin_iff", "finite reals: the isclose model is true <-> |c-e| <= atol + rtol*|e| (or c = e)"),
    ("QcelVerif.Compare.sqrtLe_iff", "complex data: the rational decision L<=0 or L^2<=4A^2R^2m2 used for moduli is equivalent over the reals to sqrt(d2) <= A + R*sqrt(m2) (A,R>=0)"),
    ("QcelVerif.Compare.nan_only_on_request", "real data: a NaN on either side never passes without equal_nan; NaN~NaN passes with it"),
    ("QcelVerif.Compare.phase_only_on_request", "without equal_phase the verdict is the plain all-close (the sign flip is only a retry on request)"),
    ("QcelVerif.Compare.all2_iff", "all2 f cs es <-> equal length and f holds at every index"),
    ("QcelVerif.Compare.compareValues_true_iff", "compare_values model returns True exactly when (passnone and both None) or both inputs cast to the common dtype (complex iff expected or computed is complex), shapes are equal and every element is close, or (equal_phase) every element of -computed is close; any shape/size"),
    ("QcelVerif.Compare.compareValues_never_raises", "compare_values model never raises (0 < atol)"),
    ("QcelVerif.Compare.compareExact_true_iff", "compare model returns True exactly when same shape and all elements equal, or (equal_phase and a negatable dtype) all equal to the negated computed elements"),
    ("QcelVerif.Compare.compareExact_never_raises", "compare model never raises"),
    ("QcelVerif.Compare.verdict_independent_of_reporting", "quiet / return_message / return_handler do not enter the verdict"),
    ("QcelVerif.Compare.recErrs_agree", "the recursion's error list is empty exactly when the declarative relation Agree holds (same key sets, same lengths, every leaf by the rule of its expected type) - both directions, all trees, mutual induction"),
    ("QcelVerif.Compare.agreeDict_iff", "the dictionary clause of Agree in membership form (every shared key agrees)"),
    ("QcelVerif.Compare.removeLoop_perm", "the forgive/phase filtering loop, iterated over any permutation of the error list (sorted copy), never raises and keeps exactly the entries no prefix matches (also with repeated entries)"),
    ("QcelVerif.Compare.errAt_iff", "the names in the recursion's error list are exactly the mismatching dotted paths ErrAt (declarative: key set / length / leaf rule fails at that path) - all trees, mutual induction"),
    ("QcelVerif.Compare.compare_recursive_iff", "FULL: compare_recursive (any forgive, any equal_phase) returns True <-> atol < 1 and every mismatching path is forgiven (at/below a forgive path, whole segments) or open to the phase retry (True, or at/below a listed path) and not mismatching under the sign-tolerant rules"),
    ("QcelVerif.Compare.compare_recursive_total", "with atol < 1 compare_recursive always returns a verdict (no exception) on modelled inputs"),
    ("QcelVerif.Compare.agree_iff_no_errAt", "Agree <-> no path mismatches (coherence of the two declarative descriptions)"),
    ("QcelVerif.Compare.compareRecursive_default_iff", "default forgive/equal_phase: True <-> atol < 1 and Agree"),
    ("QcelVerif.Compare.compareRecursive_atol_ge_one", "atol >= 1 raises ValueError (the documented refusal)"),
    # ---- extension (Model/CompareWide.lean, Props/C19Wide.lean) ----
    ("QcelVerif.Compare.compare_recursiveW_iff", "wide compare_recursive (expected list vs str/dict = one entry, vs ndarray = its rows; exact leaf vs ndarray; ragged computed; any key text) returns True <-> atol < 1 and every error entry of the recursion is phase-excused (listed and absent from the sign-tolerant recursion) or forgiven [restated after 91c6178: no ValueError clause]"),
    ("QcelVerif.Compare.compare_recursiveW_raises_iff", "wide compare_recursive raises ValueError <-> atol >= 1 [restated after 91c6178: nothing else raises]"),
    ("QcelVerif.Compare.compare_recursiveW_total", "the wide model never answers 'unmodelled' when its recursion met no unmodelled pair"),
    ("QcelVerif.Compare.recErrsW_conservative", "on every pair the narrow recursion answers, the wide recursion yields the same entries (mutual induction)"),
    ("QcelVerif.Compare.compareRecursiveW_conservative", "conservative extension: inside the scope of compare_recursive_iff the wide and the narrow compare_recursive models are equal"),
    ("QcelVerif.Compare.protoCompare_eq", "ProtoModel.compare(other, **kw) = compare_recursive on the two .dict() trees with compare_recursive's defaults for absent keywords"),
    ("QcelVerif.Compare.protoCompare_default_iff", "a.compare(b) without keywords is True <-> the recursion at atol = double(1e-6), rtol = double(1e-16) has no error entry [restated: no ValueError clause]"),
    ("QcelVerif.Compare.mapKey_keys", "massage_dicts' in-place update keeps the key list"),
    ("QcelVerif.Compare.mapKey_lookup_self", "the updated key holds f(old value) (absent stays absent)"),
    ("QcelVerif.Compare.mapKey_lookup_other", "every other key keeps its value"),
    ("QcelVerif.Compare.massage_keys", "compare_molrecs' normalisation returns a dict with the same keys in the same order"),
    ("QcelVerif.Compare.massage_field", "the normalised record holds under every key exactly fieldNorm(key)(raw value): fragment_files as text, fragment_separators as None/int (truncation), provenance minus 'version', connectivity as (min,max,order) stably sorted by the whole tuple; every other field (geom, units, mass, charges ...) unchanged"),
    ("QcelVerif.Compare.sortBonds_perm", "the connectivity sort returns a permutation of the bonds"),
    ("QcelVerif.Compare.lexLe_trans", "the tuple order on (low, high, order) is transitive"),
    ("QcelVerif.Compare.lexLe_total", "... and total"),
    ("QcelVerif.Compare.sortBonds_sorted", "... in lexicographic (low atom, high atom, bond order) order - Python's tuple order; so the result does not depend on the listing order of distinct bonds [restated after ef204ac]"),
    ("QcelVerif.Compare.compare_molrecs_iff", "compare_molrecs (relative_geoms != 'align') is True <-> both raw records normalise without exception and the normalised records pass wide compare_recursive with the same atol/rtol/forgive and no sign retry"),
    ("QcelVerif.Compare.recErrsW_list_strdict", "a str or dict where a list is expected is exactly one error entry at that node [new, 8b4dd2e]"),
    ("QcelVerif.Compare.recErrsW_list_seq", "an ndarray (ndim >= 1) where a list is expected is compared exactly as the list of its rows [restated: str/dict no longer zipped]"),
    ("QcelVerif.Compare.recErrsW_list_nolen", "a non-text scalar or 0-d array where a list is expected gives the single entry 'Expected computed to have a __len__()'"),
    ("QcelVerif.Compare.exactLeafW_arr", "exact leaf vs ndarray: no entry <-> the array has exactly one element equal to the leaf; otherwise exactly the mismatch entry (never an exception, never unmodelled) [restated after 91c6178]"),
    ("QcelVerif.Compare.compareValuesW_ragged", "ragged computed under a numeric leaf: verdict False (np.array raises inside the helper's try)"),
    ("QcelVerif.Compare.compare_molrecs_raises_iff", "compare_molrecs raises x <-> massage_dicts raises x on expected, or on computed after expected normalised, or x = ValueError from compare_recursive"),
    # ---- source tie (Model/CompareAst.lean, Gen/CompareSrc.lean regenerated from testing.py, Props/C19Src.lean) ----
    ("QcelVerif.CompareAst.handleReturnSrc_passes_verdict", "[source-derived] _handle_return as translated returns the boolean it was given - alone, or first in a pair when return_message is set"),
    ("QcelVerif.CompareAst.compareValuesSrc_eq_model", "[source-derived] for ALL inputs, options and reporting options (0 < atol) the evaluator of compare_values' translated skeleton (handler default, passnone return, dtype rule, cast, shape test, log10(atol), np.isclose(cptd, xptd, rtol=rtol, atol=atol, equal_nan=equal_nan) + np.all, the equal_phase retry on -cptd, final return) answers what the hand model compareValues answers"),
    ("QcelVerif.CompareAst.compareSrc_eq_model", "[source-derived] for ALL inputs and reporting options the evaluator of compare's translated skeleton (cast, shape test, xptd == cptd + .all(), retry on xptd == -cptd under try/except TypeError) answers what the hand model compareExact answers"),
    ("QcelVerif.CompareAst.compareValuesSrc_true_iff", "[source-derived] headline: translated compare_values returns True <-> passnone applies, or both inputs cast to the common dtype, shapes are equal and every element of computed is close to expected's (or, with equal_phase only, every element of -computed)"),
    ("QcelVerif.CompareAst.compareValuesSrc_real_iff", "[source-derived] finite real scalars, no options: translated compare_values is True <-> |computed - expected| <= atol + rtol*|expected| (or equal) - the tolerance scales with EXPECTED"),
    ("QcelVerif.CompareAst.compareValuesSrc_array_iff", "[source-derived] headline on arrays: float arrays of finite values of any shape and size, no options: translated compare_values is True <-> equal shapes, equal sizes and every element has |computed_i - expected_i| <= atol + rtol*|expected_i| (or is equal)"),
    ("QcelVerif.CompareAst.compareValuesSrc_nan_only_on_request", "[source-derived] a NaN on either side fails without equal_nan (also under the sign retry); NaN ~ NaN passes with it"),
    ("QcelVerif.CompareAst.compareValuesSrc_phase_only_on_request", "[source-derived] with equal_phase=False the verdict is the plain all-close characterisation; turning the option on never turns a pass into a failure"),
    ("QcelVerif.CompareAst.compareSrc_true_iff", "[source-derived] headline: translated compare returns True <-> same shape and all elements equal, or (equal_phase and a negatable dtype) all equal to the negated computed elements"),
    ("QcelVerif.CompareAst.src_verdict_independent_of_reporting", "[source-derived] quiet / return_message / return_handler do not change the boolean either translated helper hands back"),
    ("QcelVerif.CompareAst.recSrc_eq_model", "[source-derived] for ALL trees (mutual induction): the translated isinstance chain of _compare_recursive in source order (exact != with except ValueError, list vs str/bytes/dict entry, list walk with len != len and the zipped items' roles, dict vs non-dict entry, dict walk with both key-set differences and the intersection, float/np.number -> compare_values, ndarray -> floating? compare_values : compare, None identity, fall-through) yields exactly the wide model's error entries"),
    ("QcelVerif.CompareAst.compareRecursiveSrc_eq_model", "[source-derived] for ALL inputs: compare_recursive's translated stages (atol >= 1 refusal; recursion; equal_phase stage: second recursion with equal_phase=True, prefixes [] / the entries' own names / the 'root.'-rootified list, removal guarded by `not in n_errors`; then the forgive stage: rootified list; each loop over sorted(errors) with _path_under(nomatch[0], prefix), errors.remove, break; _path_under = equality or startswith(prefix + '.')) over the translated per-node chain answer what the wide model compareRecursiveW answers"),
    ("QcelVerif.CompareAst.compareRecursiveSrc_iff", "[source-derived] headline: translated compare_recursive returns True <-> atol < 1 and every error entry of the translated chain is phase-excused (listed and absent from the sign-tolerant recursion) or forgiven (at / below a forgive path, whole segments)"),
]
TRUSTED_BASE = [
    "Lean 4.33 kernel; axioms per theorem audited on every run (subset of propext, Classical.choice, Quot.sound)",
    "hand-written model Model/Compare.lean of testing.py (written against ca03624; its scope - no list-vs-str/dict/ndarray, no exact-leaf-vs-array pairs - is untouched by the later repairs up to HEAD 5bfcfbf), tied by differential correspondence on the generated stream; since the source tie (below) the CONTROL SKELETON of compareValues / compareExact / the per-node dispatch of recErrsW is no longer trusted: it is proved equal to the evaluator of terms regenerated from testing.py on every run",
    "source tie: harness/c19_src.py (reads _handle_return, compare_values, compare, _compare_recursive of the working tree by `ast`, emits Gen/CompareSrc.lean; any unrecognised shape raises) and the evaluator of Model/CompareAst.lean (what a translated term MEANS: sequential statements, short-circuit conditions, which list goes into which position of closeR / closeC / scEq, try/except TypeError around the negated ==, the handler call; first matching isinstance guard, key-set differences, len test, zip truncation). Trusted there: the translator's reading of Python syntax, the evaluator, the isinstance table instOf (bool is an int, np.float64 a float and np.number, np.complex128 a complex and np.number, np.int64 only np.number, np.bool_ none of these; list and tuple are one Tree.list), the message -> tag table, and that statements which only build message text (string formatting, diff arrays, logging; checked syntactically to bind no recorded name, to contain no return / raise and to only read the arrays) neither raise nor change the verdict - the last point is differential only",
    "numpy is still a parameter of BOTH sides of the source tie: the translated skeleton is evaluated over the same flatten / Flat.kind / castF / castC / closeR / closeC / scEq / Sc.negate / asSeq as the hand model (so np.isclose's own formula, casting and broadcasting are not tied by it)",
    "compare_recursive's top-level stages and _path_under are translated too (TopProg: refusal operator and bound, first / second recursion arguments, stage order, prefix lists, loop shape) and proved equal to phaseStage / forgiveStage / pathUnder; trusted there: the evaluator's reading of the nested loop (list.remove on a missing element raises, break ends the inner loop, iteration over the sorted COPY), that `len('\\n'.join(message)) == 0` means no entry is left (two non-empty lines per entry: read by the translator, which accepts only that exact message code), Python's `errors and equal_phase` truthiness as PhaseOpt.truthy. compare_molrecs / massage_dicts and ProtoModel.compare stay hand models (ConstTie ties their keys / defaults / forwarding)",
    "hand-written extension Model/CompareWide.lean of /repo HEAD 5bfcfbf (incl. the repairs 91c6178, 8b4dd2e, ef204ac): wide recursion (testing.py:314-396 on list-vs-str/dict/ndarray, exact-leaf-vs-array, ragged computed), massage_dicts + compare_molrecs (testing.py:518-617) on the RAW records, ProtoModel.compare (basemodels.py:181-198) with the keyword defaults; tied by the W / M / P protocol lines (raw dictionaries and real model instances go through the line protocol); every R line is also run through the wide model inside the driver ('inconsistent' if the two models differ)",
    "numpy behaviour taken as parameter and folded into the model: np.array(dtype=float|complex) casting, shape inference, np.isclose, ==, unary minus; truth value of an element-wise != (size 1: the element, otherwise ValueError, which the code catches and counts as a mismatch); iteration over an ndarray (rows / numpy scalars); np.array on ragged input raises; IEEE evaluation is only relied on where exact or decided by a 2^-40 relative margin",
    "Python semantics folded into the model: min/max return the first argument on ties, list.sort is stable and tuples order lexicographically, int() truncates toward zero, dict.pop raises KeyError, tuple unpacking of a wrong-length tuple raises ValueError",
    "pydantic .dict() (models enter the model as dict trees built by the harness from .dict(); str-Enum members as their values)",
    "harness/c19.py generators, exactness filter and the Python oracles (dotted-name oracle for the old scope, segment-sequence oracle for the wide scope; both are run on every R line and must agree)",
]
ASSUMPTIONS = [
    "0 < atol, 0 <= rtol (atol <= 0 makes log10 raise; outside the quantifier); |ints| < 2^53",
    "strings are non-numeric ASCII text (any characters incl. blanks and dots; hex-escaped on the wire); dict keys are text (int keys would collide with their str() in the dotted names); one side never mixes text and numbers inside one array-like",
    "R / V / E lines (old scope): dict keys [a-z_]+, no list-vs-str/dict/ndarray pairs, no ragged lists, exact Python scalars not compared with ndarrays - the narrow model answers 'unmodelled' there; the W lines lift these",
    "still outside the wide model ('unmodelled', never generated): exact (non-float) array comparison against data mixing text and numbers, a numpy exact scalar vs a list holding a dict, ragged or dict-holding `expected` handed directly to compare_values / compare (compare_values raises ValueError there in NumPy >= 1.24: the statement's quantifier is scalars/arrays)",
    "infinities, None without passnone, text given to compare_values, and leaves the statement leaves open (complex / np.int64 / int-vs-float leaves that differ within tolerance, sign flips of exact Python scalars, an exact leaf against a ONE-element ndarray / list holding the same value) are checked differentially only: the oracle demands nothing there",
    "forgive / equal_phase entries: the oracle reads an entry as naming the node(s) whose key sequence joins to it (with or without the 'root.' prefix) and everything below; with a top-level key 'root…' an entry 'root.x' is ambiguous (top-level x, the code's reading, or root -> x): nothing is demanded where the two readings differ; entries are non-empty",
    "compare_molrecs: relative_geoms='align' (B787 alignment branch, testing.py:567-605) is NOT modelled and not generated; every other value takes the 'exact' path; fragment_files entries are text (str() of other objects not modelled); bond orders are numbers (they take part in the tuple sort); records are dicts; the exceptions massage_dicts raises on malformed records (KeyError without provenance.version, ValueError/TypeError/OverflowError on malformed separators / bonds) are tied model-vs-code only, the oracle demands nothing there",
    "ProtoModel.compare: models that inherit it (AtomicInput, AtomicResult, Provenance, locally defined models ...); Molecule overrides .compare with a deprecated hash-based == and is therefore only covered as a nested field",
]
RULE = (
    "one case = one protocol line (helper, tolerances/flags, expected tree, computed tree). V: scalars/arrays of shape 0-3d "
    "(equal or mismatched), dtypes float/int/bool/complex(/str) (plus an oracle-only stream of float32 / float16 / int32 / int16 / int8 / uint8 arrays with one element 2^-9 or 2^-5 (resp. 1) off against atol = 1e-2, directly and as leaves of dicts / lists), computed = reference + per-element perturbation drawn from "
    "{same, exactly at, one ulp below, one ulp above, (1-+2^-30)x, half, double, far, NaN, inf, sign-flipped variants} of "
    "atol+rtol*|e|, atol in 1e-12..1e-1 (decimal and dyadic), rtol in {1e-16, 1e-8..1e-2, dyadic}, flags equal_nan/equal_phase/passnone; "
    "E: exact comparison over int/bool/str/float/complex with one-element changes, sign flips, kind and shape mismatches; "
    "R: random trees of depth <= 4 (dict/list/Python and numpy scalars/ndarrays/None/models) with 0-3 mutations (leaf perturbed "
    "within/at/beyond tolerance, exact leaf changed, key dropped/added, length changed, dict or list replaced by a scalar), forgive lists "
    "(paths of mutated nodes, parents, unrelated, overlapping, string-prefix siblings; with and without 'root.'), equal_phase False/True/list, "
    "atol >= 1; plus ProtoModel.compare and compare_molrecs streams. "
    "W (extension): the same call on pairs outside the old scope, each embedded 0-3 levels deep with forgive / equal_phase entries on and around it: "
    "list vs str (same / one char off / longer / multi-char item), list vs dict (keys same / permuted / changed / extra), list vs 1-d and 2-d ndarray "
    "(same / tolerance-edge / changed / length / 0-d), exact leaf vs ndarray of size 0/1/2/3 and shapes () (1,) (1,1) (2,) (0,) (2,1), numpy exact scalar "
    "vs list of size 0/1/2 / nested / ragged, ragged nested lists under float / int / str leaves and arrays; the R stream with keys renamed to dotted / "
    "'root' / blank-holding keys, and hand-shaped alias families (key 'a.b' beside nested a->b, key 'a.x' beside a forgiven 'a', a key 'root', "
    "equal_phase lists over dotted keys). "
    "P (extension): real AtomicInput / AtomicResult / Provenance instances (nested Molecule, qcvars-style keys with dots and blanks) with one field "
    "perturbed at the tolerance edge of the DEFAULT or an explicit atol/rtol, through instance.compare(other, **kw); the line carries the .dict() trees. "
    "M (extension): RAW molecule records from molparse.from_string (+connectivity, fragment_files) with one site changed (geom / mass / charge at "
    "the tolerance edge, version, other provenance field, missing version, bonds reversed / permuted / np.int64 / list-typed / order perturbed / "
    "extra / malformed, plus a directed family of 2-4 random bonds re-listed in shuffled order with reversed pairs (ties on the first atom) or one bond changed, separators as np.int64 / ndarray / floats / NaN / None, units, files, dropped key, geom list-vs-ndarray), default or explicit "
    "tolerances, forgive lists, relative_geoms exact/other, through compare_molrecs itself. "
    "A case is distinct by its line and non-trivial when computed differs from expected or an option is non-default. "
    "Three-way: every V / E / R / W line is answered by the driver from the hand model AND from the skeleton regenerated from testing.py (V / E under four reporting variants); a difference is a broken tie."
)
LEVEL_TEXT = (
    "proof for the decision logic of the model: characterisation theorems for compare_values / compare, and the full compare_recursive_iff "
    "(forgive and equal_phase included) by mutual induction over all trees plus a permutation-invariant specification of the filtering loops; "
    "extension: the wide recursion (list vs str/dict = one error entry, list vs ndarray = its rows, exact leaf vs array = mismatch unless ONE equal element, "
    "ragged computed, arbitrary key text) with compare_recursiveW_iff / _raises_iff (only atol >= 1 raises) and a PROVED conservative-extension theorem back to the narrow model; compare_molrecs modelled on the raw "
    "records (normalisation characterised field by field, verdict and exception characterisation proved); ProtoModel.compare = compare_recursive with "
    "the keyword defaults. SOURCE TIE (new): the decision skeletons of _handle_return, compare_values, compare and the isinstance chain of _compare_recursive are "
    "regenerated from testing.py on every run as terms of a small AST and PROVED, for all inputs, to evaluate to what the hand models answer "
    "(compareValuesSrc_eq_model, compareSrc_eq_model, recSrc_eq_model, compareRecursiveSrc_eq_model), so the headline theorems are restated over the source-derived functions; a changed "
    "argument order in np.isclose, a hard-wired equal_nan, a retry that negates nothing or the wrong side, another aggregation, a reordered / altered "
    "isinstance chain, a one-sided key-set test or another length operator breaks a proof obligation of Props/C19Src.lean (and the driver reports src-differs "
    "on every affected line: three-way); compare_recursive's own stages (atol refusal, equal_phase filter, forgive filter, _path_under) are translated and proved "
    "equal to the model's stages as well (compareRecursiveSrc_eq_model). partial there: numpy stays a parameter on both sides of the tie; message-only statements "
    "are assumed not to raise; compare_molrecs / ProtoModel.compare are not translated (ConstTie only). limits (partial): float behaviour is exact only on representable / wide-margin cases; the models are tied to the code by "
    "sampled correspondence; compare_recursiveW_iff is stated over the recursion's error-entry names (the declarative ErrAt description is proved for the "
    "narrow scope only, the new pairs are reduced to it by recErrsW_list_strdict / recErrsW_list_seq / exactLeafW_arr / compareValuesW_ragged); that dotted names identify nodes "
    "uniquely when no key contains '.' is not proved in Lean - it is checked on every R line by running the dotted-name and the segment-sequence oracle "
    "side by side; relative_geoms='align' is not modelled; one open known finding: dotted names alias when a key contains '.' (oracle:dotted_key_path_alias)"
)
TECHNIQUE = "Lean 4 proof over a hand-written model + source-derived decision skeletons (ast translator, evaluator, equality theorems for all inputs) + behavioural correspondence (line protocol, three-way) + independent exact-rational oracle"

logging.disable(logging.CRITICAL)

# ======================================================================================
# extended rationals and spec trees

NAN, INF, NINF = "nan", "inf", "-inf"


def xr_of_float(x: float):
    if math.isnan(x):
        return NAN
    if math.isinf(x):
        return INF if x > 0 else NINF
    return Fr(x)


def xr_float(x) -> float:
    if x == NAN:
        return float("nan")
    if x == INF:
        return float("inf")
    if x == NINF:
        return float("-inf")
    f = float(x)
    assert Fr(f) == x, f"not a double: {x}"
    return f


def xr_neg(x):
    return {NAN: NAN, INF: NINF, NINF: INF}.get(x) if isinstance(x, str) else -x


def xr_str(x) -> str:
    if isinstance(x, str):
        return x
    return str(x.numerator) if x.denominator == 1 else f"{x.numerator}/{x.denominator}"


def xr_parse(s: str):
    return s if s in (NAN, INF, NINF) else Fr(s)


SC_TAGS = "NBIFCSfibc"

_SAFE = set("abcdefghijklmnopqrstuvwxyzABCDEFGHIJKLMNOPQRSTUVWXYZ0123456789_.-+()[]{}<>=*/@#%^&~!?$;'\"")


def tok_safe(s: str) -> bool:
    return all(ch in _SAFE for ch in s)


def hexs(s: str) -> str:
    if not s.isascii():
        raise ValueError(f"text outside the protocol alphabet: {s!r}")
    return s.encode("ascii").hex()


def enc_key(key: str) -> str:
    return f"K:{key}" if tok_safe(key) else f"J:{hexs(key)}"


def enc_paths(ps) -> str:
    if all(tok_safe(x) and x != "" for x in ps) or not ps:
        return "l:" + ",".join(ps)
    return "x:" + ",".join(hexs(x) for x in ps)


def dec_paths(body: str):
    """`l:a,b` | `x:<hex>,<hex>` -> list"""
    tag, rest = body[:2], body[2:]
    if not rest:
        return []
    if tag == "x:":
        return [bytes.fromhex(h).decode("ascii") for h in rest.split(",")]
    return rest.split(",")


def enc(t) -> str:
    k = t[0]
    if k == "N":
        return "N"
    if k in "Bb":
        return k + ("1" if t[1] else "0")
    if k in "Ii":
        return k + str(t[1])
    if k in "Ff":
        return k + xr_str(t[1])
    if k in "Cc":
        return k + xr_str(t[1]) + ";" + xr_str(t[2])
    if k == "S":
        return "S:" + t[1] if tok_safe(t[1]) else "Z:" + hexs(t[1])
    if k == "L":
        return " ".join([f"L{len(t[1])}"] + [enc(x) for x in t[1]])
    if k == "D":
        return " ".join([f"D{len(t[1])}"] + [f"{enc_key(key)} {enc(v)}" for key, v in t[1]])
    if k == "A":
        return " ".join([f"A{t[1]}{len(t[2])}"] + [str(d) for d in t[2]] + [enc(x) for x in t[3]])
    raise ValueError(k)


def _dec_sc(tok):
    k = tok[0]
    if tok == "N":
        return ("N",)
    if k in "Bb":
        return (k, tok[1:] == "1")
    if k in "Ii":
        return (k, int(tok[1:]))
    if k in "Ff":
        return (k, xr_parse(tok[1:]))
    if k in "Cc":
        a, b = tok[1:].split(";")
        return (k, xr_parse(a), xr_parse(b))
    if k == "S":
        return ("S", tok[2:])
    if k == "Z":
        return ("S", bytes.fromhex(tok[2:]).decode("ascii"))
    raise ValueError(tok)


def _dec(toks, i):
    tok = toks[i]
    k = tok[0]
    if k == "L":
        n = int(tok[1:])
        out = []
        i += 1
        for _ in range(n):
            x, i = _dec(toks, i)
            out.append(x)
        return ("L", out), i
    if k == "D":
        n = int(tok[1:])
        out = []
        i += 1
        for _ in range(n):
            key = toks[i][2:] if toks[i][0] == "K" else bytes.fromhex(toks[i][2:]).decode("ascii")
            x, i = _dec(toks, i + 1)
            out.append((key, x))
        return ("D", out), i
    if k == "A":
        kind, nd = tok[1], int(tok[2:])
        shape = [int(x) for x in toks[i + 1 : i + 1 + nd]]
        i += 1 + nd
        n = int(np.prod(shape)) if shape else 1
        flat = [_dec_sc(x) for x in toks[i : i + n]]
        return ("A", kind, shape, flat), i + n
    return _dec_sc(tok), i + 1


def dec(s: str):
    toks = s.split()
    t, i = _dec(toks, 0)
    assert i == len(toks)
    return t


NP_DT = {"b": np.bool_, "i": np.int64, "f": np.float64, "c": np.complex128, "s": str}
ARR_ELEM = {"b": "b", "i": "i", "f": "f", "c": "c", "s": "S"}


def build(t):
    """spec -> the Python object handed to the implementation"""
    k = t[0]
    if k == "N":
        return None
    if k == "B":
        return bool(t[1])
    if k == "I":
        return int(t[1])
    if k == "F":
        return xr_float(t[1])
    if k == "C":
        return complex(xr_float(t[1]), xr_float(t[2]))
    if k == "S":
        return t[1]
    if k == "f":
        return np.float64(xr_float(t[1]))
    if k == "i":
        return np.int64(t[1])
    if k == "b":
        return np.bool_(t[1])
    if k == "c":
        return np.complex128(complex(xr_float(t[1]), xr_float(t[2])))
    if k == "L":
        return [build(x) for x in t[1]]
    if k == "D":
        return {key: build(v) for key, v in t[1]}
    if k == "A":
        vals = [build(x) for x in t[3]]
        return np.array(vals, dtype=NP_DT[t[1]]).reshape(tuple(t[2]))
    raise ValueError(k)


def to_spec(o):
    """Python object -> spec (used for model .dict() trees and molrecs)"""
    if o is None:
        return ("N",)
    if isinstance(o, (bool,)):
        return ("B", o)
    if isinstance(o, np.bool_):
        return ("b", bool(o))
    if isinstance(o, int):
        return ("I", o)
    if isinstance(o, np.integer):
        return ("i", int(o))
    if isinstance(o, np.floating):
        return ("f", xr_of_float(float(o)))
    if isinstance(o, float):
        return ("F", xr_of_float(o))
    if isinstance(o, np.complexfloating):
        return ("c", xr_of_float(o.real), xr_of_float(o.imag))
    if isinstance(o, complex):
        return ("C", xr_of_float(o.real), xr_of_float(o.imag))
    if isinstance(o, str):
        if not o.isascii():
            raise ValueError(f"text outside the protocol alphabet: {o!r}")
        if isinstance(o, enum.Enum):
            o = o.value
        return ("S", str(o))
    if isinstance(o, (list, tuple)):
        return ("L", [to_spec(x) for x in o])
    if isinstance(o, dict):
        return ("D", [(str(k), to_spec(v)) for k, v in o.items()])
    if isinstance(o, np.ndarray):
        kind = {"b": "b", "i": "i", "f": "f", "c": "c", "U": "s"}[o.dtype.kind]
        flat = []
        for x in o.reshape(-1).tolist():
            if kind == "s":
                flat.append(("S", x))
            elif kind == "c":
                flat.append(("c", xr_of_float(x.real), xr_of_float(x.imag)))
            elif kind == "f":
                flat.append(("f", xr_of_float(x)))
            elif kind == "i":
                flat.append(("i", int(x)))
            else:
                flat.append(("b", bool(x)))
        return ("A", kind, list(o.shape), flat)
    raise ValueError(type(o))


# ======================================================================================
# exact arithmetic for the oracle (independent of the Lean model's algebraic trick)

BITS = 300


def sqrt_bounds(fr: Fr):
    """lo <= sqrt(fr) <= hi with hi - lo <= 2^-BITS/den; lo == hi iff the root is rational"""
    if fr == 0:
        return Fr(0), Fr(0)
    p, q = fr.numerator, fr.denominator
    n = (p * q) << (2 * BITS)
    r = math.isqrt(n)
    den = q << BITS
    if r * r == n:
        return Fr(r, den), Fr(r, den)
    return Fr(r, den), Fr(r + 1, den)


def num_parts(sc):
    """scalar spec -> (re, im) extended rationals, or None if not a number"""
    k = sc[0]
    if k in "Bb":
        return (Fr(1 if sc[1] else 0), Fr(0))
    if k in "Ii":
        return (Fr(sc[1]), Fr(0))
    if k in "Ff":
        return (sc[1], Fr(0))
    if k in "Cc":
        return (sc[1], sc[2])
    return None


def is_cx(sc):
    return sc[0] in "Cc"


def close_elem(c, e, atol, rtol, equal_nan):
    """property clause for one element: True / False / None (infinity involved or undecidable).  c, e: (re, im)"""
    cn = any(x == NAN for x in c)
    en = any(x == NAN for x in e)
    if cn or en:
        return bool(equal_nan and cn and en)
    if any(isinstance(x, str) for x in c + e):
        return None
    if c[1] == 0 and e[1] == 0:
        return abs(c[0] - e[0]) <= atol + rtol * abs(e[0])
    dlo, dhi = sqrt_bounds((c[0] - e[0]) ** 2 + (c[1] - e[1]) ** 2)
    mlo, mhi = sqrt_bounds(e[0] ** 2 + e[1] ** 2)
    if dhi <= atol + rtol * mlo:
        return True
    if dlo > atol + rtol * mhi:
        return False
    return None


MARGIN = Fr(1, 2**40)


def elem_safe(c, e, atol_f: float, rtol_f: float) -> bool:
    """is the float evaluation of this element pair exact or decided by a wide margin?  c, e: (re, im) finite"""
    if any(isinstance(x, str) for x in c + e):
        return True  # NaN / inf rules do not depend on rounding
    atol, rtol = Fr(atol_f), Fr(rtol_f)
    if c[1] == 0 and e[1] == 0:
        cf, ef = float(c[0]), float(e[0])
        d_f, b_f = abs(cf - ef), atol_f + rtol_f * abs(ef)
        d, b = abs(c[0] - e[0]), atol + rtol * abs(e[0])
        if Fr(d_f) == d and Fr(b_f) == b:
            return True
        return abs(d - b) > MARGIN * max(d, b)
    cf, ef = complex(float(c[0]), float(c[1])), complex(float(e[0]), float(e[1]))
    with np.errstate(all="ignore"):
        d_f = float(np.abs(np.complex128(cf) - np.complex128(ef)))
        b_f = float(atol_f + rtol_f * np.abs(np.complex128(ef)))
    dlo, dhi = sqrt_bounds((c[0] - e[0]) ** 2 + (c[1] - e[1]) ** 2)
    mlo, mhi = sqrt_bounds(e[0] ** 2 + e[1] ** 2)
    if dlo == dhi and mlo == mhi and Fr(d_f) == dlo and Fr(b_f) == atol + rtol * mlo:
        return True
    blo, bhi = atol + rtol * mlo, atol + rtol * mhi
    big = max(dhi, bhi)
    return (dlo - bhi > MARGIN * big) or (blo - dhi > MARGIN * big)


def flat_of(t):
    """spec -> (shape tuple, flat scalar specs) | 'bad' (contains a dict) | 'ragged'"""
    k = t[0]
    if k == "A":
        return tuple(t[2]), list(t[3])
    if k == "D":
        return "bad"
    if k == "L":
        subs = [flat_of(x) for x in t[1]]
        if any(s == "ragged" for s in subs):
            return "ragged"
        if any(s == "bad" for s in subs):
            return "bad"
        if not subs:
            return (0,), []
        if any(s[0] != subs[0][0] for s in subs):
            return "ragged"
        return (len(subs),) + subs[0][0], [x for s in subs for x in s[1]]
    return (), [t]


def values_safe(e, c, atol_f, rtol_f, phase) -> bool:
    fe, fc = flat_of(e), flat_of(c)
    if isinstance(fe, str) or isinstance(fc, str) or fe[0] != fc[0]:
        return True
    for x, y in zip(fe[1], fc[1]):
        px, py = num_parts(x), num_parts(y)
        if px is None or py is None:
            continue
        if not elem_safe(py, px, atol_f, rtol_f):
            return False
        if phase and not elem_safe(tuple(xr_neg(v) if not (isinstance(v, Fr) and v == 0) else v for v in py), px, atol_f, rtol_f):
            return False
    return True


def oracle_values(e, c, atol, rtol, equal_nan, phase, passnone, tw=frozenset()):
    """The numeric clause of the property.  True / False / None (= nothing demanded)."""
    if passnone and e == ("N",) and c == ("N",):
        return True
    fe, fc = flat_of(e), flat_of(c)
    if isinstance(fe, str) or isinstance(fc, str):
        return None
    pe, pc = [num_parts(x) for x in fe[1]], [num_parts(x) for x in fc[1]]
    if any(p is None for p in pe + pc):
        return None  # None / text: not numeric data
    e_cx = any(is_cx(x) for x in fe[1])
    c_cx = any(is_cx(x) for x in fc[1])
    if c_cx and not e_cx:
        if "cplx_cast" in tw:
            # counterfactual (known defect): computed is cast to float — Python complex refuses, numpy complex drops imag
            if any(x[0] == "C" for x in fc[1]):
                return False
            pc = [(p[0], Fr(0)) for p in pc]
    if fe[0] != fc[0]:
        return False

    def all_close(neg):
        res = True
        for x, y in zip(pe, pc):
            yy = tuple(xr_neg(v) for v in y) if neg else y
            r = close_elem(yy, x, atol, rtol, equal_nan)
            if r is False:
                return False
            if r is None:
                res = None
        return res

    plain = all_close(False)
    if plain is True or not phase:
        return plain
    flipped = all_close(True)
    if flipped is True:
        return True
    if plain is False and flipped is False:
        return False
    return None


def sc_equal(a, b):
    """exact equality of two scalar specs by value: numbers numerically, text textually, None is None"""
    if a[0] == "N" or b[0] == "N":
        return a[0] == b[0]
    if a[0] == "S" or b[0] == "S":
        return a[0] == b[0] and a[1] == b[1]
    pa, pb = num_parts(a), num_parts(b)
    if any(x == NAN for x in pa + pb):
        return False
    return pa == pb


def kind_of(flat):
    order = "bifc"
    ks = set()
    for x in flat:
        k = x[0]
        ks.add({"B": "b", "b": "b", "I": "i", "i": "i", "F": "f", "f": "f", "C": "c", "c": "c", "S": "s", "N": "o"}[k])
    if not ks:
        return "f"
    if "o" in ks:
        return "o"
    if "s" in ks:
        return "s" if ks == {"s"} else None
    return max(ks, key=order.index)


def oracle_exact(e, c, phase):
    fe, fc = flat_of(e), flat_of(c)
    if isinstance(fe, str) or isinstance(fc, str):
        return None
    if kind_of(fe[1]) is None or kind_of(fc[1]) is None:
        return None
    if fe[0] != fc[0]:
        return False
    if all(sc_equal(x, y) for x, y in zip(fe[1], fc[1])):
        return True
    if phase and kind_of(fc[1]) in ("i", "f", "c"):
        def neg(y):
            p = num_parts(y)
            return ("C", xr_neg(p[0]), xr_neg(p[1]))
        return all(sc_equal(x, neg(y)) for x, y in zip(fe[1], fc[1]))
    return False


# ======================================================================================
# oracle for the recursive comparison

TWEAKS = ["overlap_raises", "prefix_loose", "npbool_fails", "nondict_raises", "cplx_cast"]
TWEAK_KIND = {
    "overlap_raises": "oracle:forgive_overlap_raises",
    "prefix_loose": "oracle:forgive_prefix_overreach",
    "npbool_fails": "oracle:npbool_leaf_rejected",
    "nondict_raises": "oracle:dict_vs_nondict_raises",
    "cplx_cast": "oracle:complex_computed_cast_to_real",
}


class _Raise(Exception):
    pass


def _tri_not(r):  # True -> 'ok', False -> 'fail', None -> 'either'
    return {True: "ok", False: "fail", None: "either"}[r]


def walk(e, c, path, atol, rtol, tw, out):
    """append (path, status_plain, status_if_sign_flip_allowed) for every compared node"""
    k = e[0]
    if k == "D":
        if c[0] != "D":
            if "nondict_raises" in tw:
                raise _Raise("AttributeError")
            out.append((path, "fail", "fail"))
            return
        ek, ck = [x for x, _ in e[1]], dict(c[1])
        if set(ek) != set(ck):
            # the code emits one entry per direction; one suffices for the verdict
            out.append((path, "fail", "fail"))
        for key, v in e[1]:
            if key in ck:
                walk(v, ck[key], path + "." + key, atol, rtol, tw, out)
        return
    if k == "L":
        if c[0] != "L" or len(c[1]) != len(e[1]):
            out.append((path, "fail", "fail"))
            return
        for i, (x, y) in enumerate(zip(e[1], c[1])):
            walk(x, y, f"{path}.{i}", atol, rtol, tw, out)
        return
    if k == "N":
        st = "ok" if c[0] == "N" else "fail"
        out.append((path, st, st))
        return
    if k == "b" and "npbool_fails" in tw:
        out.append((path, "fail", "fail"))
        return
    numeric_leaf = k in "Ffi" or (k == "A" and e[1] == "f")
    if numeric_leaf:
        fc = flat_of(c)
        if isinstance(fc, str) or any(num_parts(x) is None for x in fc[1]):
            out.append((path, "fail", "fail"))  # computed is not numeric data at all
            return
        p = oracle_values(e, c, atol, rtol, False, False, False, tw)
        q = oracle_values(e, c, atol, rtol, False, True, False, tw)
        sp, sq = _tri_not(p), _tri_not(q)
        cp, cq = sp, sq  # what the tolerance rule (the code's choice) says
        if k == "i" and p is True and not oracle_exact(e, c, False):
            sp = "either"  # np.int64 leaf: tolerance or exact? the statement leaves it open
        if k == "i" and q is True and not oracle_exact(e, c, True):
            sq = "either"
        out.append((path, sp, sq, cp, cq))
        return
    if k == "A":  # exact arrays (int, bool, str, complex)
        p, q = oracle_exact(e, c, False), oracle_exact(e, c, True)
        sp, sq = _tri_not(p), _tri_not(q)
        cp, cq = sp, sq
        if e[1] == "c":
            # complex data compared exactly by the code; within tolerance is left open
            if p is False and oracle_values(e, c, atol, rtol, False, False, False) is not False:
                sp = "either"
            if q is False and oracle_values(e, c, atol, rtol, False, True, False) is not False:
                sq = "either"
        out.append((path, sp, sq, cp, cq))
        return
    # exact scalars: S I B C c b
    if c[0] in "LDA":
        out.append((path, "fail", "fail"))
        return
    eq = sc_equal(e, c)
    sp = "ok" if eq else "fail"
    cp = sp
    if not eq and k in "IBCcb" and num_parts(c) is not None:
        r = oracle_values(e, c, atol, rtol, False, False, False)
        if r is not False:
            sp = "either"  # numbers that differ within tolerance under an exact rule
    sq = sp
    if sp != "ok" and k in "ICc" and num_parts(c) is not None:
        r = oracle_values(e, c, atol, rtol, False, True, False)
        if r is not False:
            sq = "either"  # sign flip of an exact Python scalar: the statement leaves it open
    out.append((path, sp, sq, cp, cp))


def strip_root(p):
    return p[5:] if p.startswith("root.") else p


def seg_match(path, pfx, loose):
    """is `path` (dotted, 'root.'-qualified) at or below `pfx`?"""
    if loose:
        return path.startswith(pfx)
    return path == pfx or path.startswith(pfx + ".")


def oracle_recursive(e, c, atol, rtol, forgive, phase, tw=frozenset()):
    """'T' / 'F' / 'raise:<Type>' / None.  forgive: None | list of paths; phase: False | True | list"""
    if atol >= 1:
        return "raise:ValueError"
    nodes = []
    try:
        walk(e, c, "root", atol, rtol, tw, nodes)
    except _Raise as r:
        return "raise:" + str(r)
    loose = "prefix_loose" in tw
    qual = lambda p: p if p.startswith("root.") else "root." + p  # noqa
    fgs = [qual(p) for p in (forgive or [])]
    nodes = [n if len(n) == 5 else (n[0], n[1], n[2], n[1], n[2]) for n in nodes]
    if "overlap_raises" in tw:
        # counterfactual (known defect): an error entry matched by two prefixes is removed twice -> ValueError.
        # Decided on the entries the code's own leaf rules produce, with the code's str.startswith matching.
        errs = [n for n in nodes if n[3] != "ok"]
        remaining = errs
        if phase and errs:
            ceps = list(dict.fromkeys(n[0] for n in errs)) if phase is True else [qual(p) for p in phase]
            remaining = []
            for n in errs:
                m = sum(1 for ep in ceps if n[0].startswith(ep))
                if n[4] == "ok" and m >= 2:
                    return "raise:ValueError"
                if not (n[4] == "ok" and m >= 1):
                    remaining.append(n)
        for n in remaining:
            if sum(1 for fg in fgs if n[0].startswith(fg)) >= 2:
                return "raise:ValueError"
    failing = [n for n in nodes if n[1] != "ok"]
    final = []
    phase_on = bool(phase) and bool(failing)
    if phase_on and phase is True:
        eps = list(dict.fromkeys(n[0] for n in failing))
    elif phase_on:
        eps = [qual(p) for p in phase]
    else:
        eps = []
    for path, sp, sq, _cp, _cq in nodes:
        if sp == "ok":
            continue
        st = sp
        if phase_on:
            if phase is True:
                allowed = True
            else:
                allowed = any(seg_match(path, ep, loose) for ep in eps)
            if allowed:
                st = sq
        if st == "ok":
            continue
        if any(seg_match(path, fg, loose) for fg in fgs):
            continue
        final.append(st)
    if "fail" in final:
        return "F"
    if "either" in final:
        return None
    return "T"



# ======================================================================================
# WIDE scope (extension): list vs str/dict/ndarray, exact leaf vs ndarray, ragged computed, arbitrary keys
# (dots, 'root', blanks).  Nodes are identified by their key/index SEQUENCE, not by the dotted name.

# counterfactual readings used only to CLASSIFY a disagreement: three defect classes repaired in /repo
# (91c6178 exact leaf vs array raised, 8b4dd2e list zipped with str/dict, ef204ac bonds sorted by first atom only)
# - a match is a regression - and the one open finding (dotted names alias when a key contains '.')
NEW_TWEAKS = ["seq_zipped", "exact_vs_array_raises", "dotted_alias", "conn_partial_sort"]
NEW_REPAIRED = {"seq_zipped", "exact_vs_array_raises", "conn_partial_sort"}
NEW_TWEAK_KIND = {
    "seq_zipped": "oracle:list_vs_sized_nonlist_zipped",
    "exact_vs_array_raises": "oracle:exact_leaf_vs_array_raises",
    "dotted_alias": "oracle:dotted_key_path_alias",
    "conn_partial_sort": "oracle:molrecs_bond_order_partial_sort",
}


def seq_view(c):
    """what `len(computed)` / iteration give: list of specs, or None when len() raises TypeError"""
    k = c[0]
    if k == "L":
        return list(c[1])
    if k == "S":
        return [("S", ch) for ch in c[1]]
    if k == "D":
        return [("S", key) for key, _ in c[1]]
    if k == "A":
        shape = list(c[2])
        if not shape:
            return None
        n, rest = shape[0], shape[1:]
        if not rest:
            return list(c[3][:n])
        sz = int(np.prod(rest))
        return [("A", c[1], rest, list(c[3][i * sz : (i + 1) * sz])) for i in range(n)]
    return None


def walk2(e, c, segs, atol, rtol, tw, out):
    """like `walk`, with nodes named by their segment tuple and the wide pairs decided by the property"""
    k = e[0]
    if k == "D":
        if c[0] != "D":
            if "nondict_raises" in tw:
                raise _Raise("AttributeError")
            out.append((segs, "fail", "fail"))
            return
        ek, ck = [x for x, _ in e[1]], dict(c[1])
        if set(ek) != set(ck):
            out.append((segs, "fail", "fail"))
        for key, v in e[1]:
            if key in ck:
                walk2(v, ck[key], segs + (key,), atol, rtol, tw, out)
        return
    if k == "L":
        if c[0] in "SD" and "seq_zipped" not in tw:
            out.append((segs, "fail", "fail"))  # a str / dict is not a list, whatever its characters / keys are
            return
        cs = seq_view(c)
        if cs is None or len(cs) != len(e[1]):
            out.append((segs, "fail", "fail"))
            return
        for i, (x, y) in enumerate(zip(e[1], cs)):
            walk2(x, y, segs + (str(i),), atol, rtol, tw, out)
        return
    if k == "N":
        st = "ok" if c[0] == "N" else "fail"
        out.append((segs, st, st))
        return
    if k == "b" and "npbool_fails" in tw:
        out.append((segs, "fail", "fail"))
        return
    numeric_leaf = k in "Ffi" or (k == "A" and e[1] == "f")
    if numeric_leaf:
        fc = flat_of(c)
        if isinstance(fc, str) or any(num_parts(x) is None for x in fc[1]):
            out.append((segs, "fail", "fail"))  # ragged / dict / text: not numeric data of that shape
            return
        p = oracle_values(e, c, atol, rtol, False, False, False, tw)
        q = oracle_values(e, c, atol, rtol, False, True, False, tw)
        sp, sq = _tri_not(p), _tri_not(q)
        cp, cq = sp, sq
        if k == "i" and p is True and not oracle_exact(e, c, False):
            sp = "either"
        if k == "i" and q is True and not oracle_exact(e, c, True):
            sq = "either"
        out.append((segs, sp, sq, cp, cq))
        return
    if k == "A":
        if isinstance(flat_of(c), str):
            out.append((segs, "fail", "fail"))  # ragged / dict-holding computed: not an array of that shape
            return
        p, q = oracle_exact(e, c, False), oracle_exact(e, c, True)
        sp, sq = _tri_not(p), _tri_not(q)
        cp, cq = sp, sq
        if e[1] == "c":
            if p is False and oracle_values(e, c, atol, rtol, False, False, False) is not False:
                sp = "either"
            if q is False and oracle_values(e, c, atol, rtol, False, True, False) is not False:
                sq = "either"
        out.append((segs, sp, sq, cp, cq))
        return
    # exact scalars: S I B C c b
    if c[0] == "A" or (c[0] == "L" and k in "cb"):
        fl = flat_of(c)
        if fl == "bad":
            out.append((segs, "fail", "fail"))
            return
        size = None if fl == "ragged" else len(fl[1])
        if "exact_vs_array_raises" in tw and size != 1:
            raise _Raise("ValueError")  # (repaired 91c6178) truth value of an element-wise `!=` of size != 1
        if size == 1:
            eq = sc_equal(e, fl[1][0])
            st = ("ok" if fl[0] == () else "either") if eq else "fail"  # a one-element array that holds the value: left open
            out.append((segs, st, st, "ok" if eq else "fail", "ok" if eq else "fail"))
        else:
            out.append((segs, "fail", "fail"))  # a scalar never agrees with an array of another size
        return
    if c[0] in "LD":
        out.append((segs, "fail", "fail"))
        return
    eq = sc_equal(e, c)
    sp = "ok" if eq else "fail"
    cp = sp
    if not eq and k in "IBCcb" and num_parts(c) is not None:
        r = oracle_values(e, c, atol, rtol, False, False, False)
        if r is not False:
            sp = "either"
    sq = sp
    if sp != "ok" and k in "ICc" and num_parts(c) is not None:
        r = oracle_values(e, c, atol, rtol, False, True, False)
        if r is not False:
            sq = "either"
    out.append((segs, sp, sq, cp, cp))


def designated(segs, entry, strip):
    """does the forgive / equal_phase entry name this node or one of its ancestors (by key sequence)?"""
    f = entry[5:] if (strip and entry.startswith("root.")) else entry
    return any(".".join(segs[:j]) == f for j in range(1, len(segs) + 1))


def _name_under(segs, entry, loose=False):
    """the code's reading: dotted NAME at/below the rootified entry"""
    name = ".".join(("root",) + tuple(segs))
    r = entry if entry.startswith("root.") else "root." + entry
    return name.startswith(r) if loose else (name == r or name.startswith(r + "."))


def _rec2_struct(nodes, forgive, phase, strip):
    failing = [n for n in nodes if n[1] != "ok"]
    phase_on = bool(phase) and bool(failing)
    final = []
    for segs, sp, sq, _cp, _cq in nodes:
        if sp == "ok":
            continue
        st = sp
        if phase_on and (phase is True or any(designated(segs, ep, strip) for ep in phase)):
            st = sq
        if st == "ok":
            continue
        if any(designated(segs, fg, strip) for fg in (forgive or [])):
            continue
        final.append(st)
    return "F" if "fail" in final else None if "either" in final else "T"


def _rec2_names(nodes, forgive, phase, loose):
    """emulation of the code's name-based bookkeeping (used only to *classify* a disagreement)"""
    errs = [n for n in nodes if n[3] != "ok"]
    nm = lambda segs: ".".join(("root",) + tuple(segs))  # noqa
    if errs and phase:
        n_names = {nm(n[0]) for n in nodes if n[4] != "ok"}
        keep = []
        for n in errs:
            allowed = phase is True or any(_name_under(n[0], ep, loose) for ep in phase)
            if not (allowed and nm(n[0]) not in n_names):
                keep.append(n)
        errs = keep
    errs = [n for n in errs if not any(_name_under(n[0], fg, loose) for fg in (forgive or []))]
    return "F" if errs else "T"


def oracle_recursive2(e, c, atol, rtol, forgive, phase, tw=frozenset()):
    if atol >= 1:
        return "raise:ValueError"
    nodes = []
    try:
        walk2(e, c, (), atol, rtol, tw, nodes)
    except _Raise as r:
        return "raise:" + str(r)
    nodes = [n if len(n) == 5 else (n[0], n[1], n[2], n[1], n[2]) for n in nodes]
    if "dotted_alias" in tw or "prefix_loose" in tw:
        return _rec2_names(nodes, forgive, phase, "prefix_loose" in tw)
    a = _rec2_struct(nodes, forgive, phase, True)
    entries = list(forgive or []) + (list(phase) if isinstance(phase, list) else [])
    has_root_key = any(t[0] == "D" and any(k == "root" or k.startswith("root.") for k, _ in t[1]) for t in (e, c))
    if has_root_key and any(x.startswith("root.") for x in entries):
        # with a top-level key 'root…', an entry 'root.x' may name the top-level key x (the code's reading) or the path
        # root -> x: demand nothing when the two readings differ
        b = _rec2_struct(nodes, forgive, phase, False)
        if a != b:
            return None
    return a


# ---- compare_molrecs: the normalisation, stated on spec trees ------------------------------------------


class _NoDemand(Exception):
    pass


def _num_val(t):
    if t[0] in "Ii":
        return Fr(t[1])
    if t[0] in "Ff" and isinstance(t[1], Fr):
        return t[1]
    raise _NoDemand()


def massage_spec(t, partial_sort=False):
    """what compare_molrecs compares: text file names, integer separators, provenance minus the generator version,
    bonds as (low atom, high atom, order) in a canonical order (independent of the listing order; `partial_sort` is the
    behaviour before ef204ac, kept to classify a regression).  Raises _NoDemand where the record is not a molrec."""
    if t[0] != "D":
        raise _NoDemand()
    out = []
    for k, v in t[1]:
        if k == "fragment_files":
            xs = seq_view(v) if v[0] in "LA" else None
            if xs is None or any(x[0] != "S" for x in xs):
                raise _NoDemand()
            v = ("L", [("S", x[1]) for x in xs])
        elif k == "fragment_separators":
            xs = seq_view(v) if v[0] in "LA" else None
            if xs is None:
                raise _NoDemand()
            ys = []
            for x in xs:
                if x[0] == "N":
                    ys.append(("N",))
                elif x[0] in "IiBb":
                    ys.append(("I", int(x[1])))
                elif x[0] in "Ff" and isinstance(x[1], Fr):
                    ys.append(("I", int(x[1])))  # int() truncates toward zero
                else:
                    raise _NoDemand()
            v = ("L", ys)
        elif k == "provenance":
            if v[0] != "D" or "version" not in dict(v[1]):
                raise _NoDemand()
            v = ("D", [(kk, vv) for kk, vv in v[1] if kk != "version"])
        elif k == "connectivity":
            if v[0] != "L":
                raise _NoDemand()
            bonds = []
            for b in v[1]:
                if b[0] != "L" or len(b[1]) != 3:
                    raise _NoDemand()
                a1, a2, bo = b[1]
                x, y = _num_val(a1), _num_val(a2)
                bonds.append((a2 if y < x else a1, a2 if x < y else a1, bo))  # Python's min / max (first on ties)
            if partial_sort:
                bonds.sort(key=lambda b: _num_val(b[0]))
            else:
                def full(b):
                    bo = b[2]
                    return (_num_val(b[0]), _num_val(b[1]), bo[1] if bo[0] in "FfIi" and not isinstance(bo[1], str) else 0)
                bonds.sort(key=full)
            v = ("L", [("L", list(b)) for b in bonds])
        out.append((k, v))
    return ("D", out)


def oracle_molrecs(e, c, atol, rtol, forgive, tw=frozenset()):
    try:
        me, mc = massage_spec(e, "conn_partial_sort" in tw), massage_spec(c, "conn_partial_sort" in tw)
    except _NoDemand:
        return None
    return oracle_recursive2(me, mc, atol, rtol, forgive, False, tw)


# ======================================================================================
# running the implementation


def impl_call(fn, e, c, **kw):
    try:
        with warnings.catch_warnings():
            warnings.simplefilter("ignore")
            with np.errstate(all="ignore"):
                r = fn(e, c, **kw)
    except Exception as ex:  # noqa
        return "raise:" + type(ex).__name__, str(ex)
    return r, ""


def canon(r):
    if isinstance(r, str):
        return r
    if isinstance(r, tuple):
        r = r[0]
    if r is True or r is False:
        return "T" if r else "F"
    return "weird:" + repr(r)


def _tol(x):
    return None if x == "d" else float(Fr(x))


def parse_line(line: str):
    f = line.split("|")
    op = f[0].strip()
    if op == "V":
        a, r, en, ep, pn = f[1].split()
        return op, dict(atol=float(Fr(a)), rtol=float(Fr(r)), equal_nan=en == "1", equal_phase=ep == "1", passnone=pn == "1"), dec(f[2]), dec(f[3])
    if op == "E":
        return op, dict(equal_phase=f[1].strip() == "1"), dec(f[2]), dec(f[3])
    if op in ("R", "W", "P"):
        a, r = f[1].split()
        ph = f[2].strip()
        phase = False if ph == "0" else True if ph == "1" else dec_paths(ph)
        fg = f[3].strip()
        forgive = None if fg == "-" else dec_paths(fg)
        return op, dict(atol=_tol(a), rtol=_tol(r), equal_phase=phase, forgive=forgive), dec(f[4]), dec(f[5])
    if op == "M":
        a, r = f[1].split()
        fg = f[3].strip()
        forgive = None if fg == "-" else dec_paths(fg)
        return op, dict(atol=_tol(a), rtol=_tol(r), relative_geoms=f[2].strip(), forgive=forgive), dec(f[4]), dec(f[5])
    raise ValueError(line)


def fstr(x: float) -> str:
    return xr_str(Fr(x))


def _tols(x):
    return "d" if x is None else fstr(x)


def make_line(op, opts, e, c) -> str:
    if op == "V":
        o = "{} {} {} {} {}".format(fstr(opts["atol"]), fstr(opts["rtol"]), int(opts["equal_nan"]), int(opts["equal_phase"]), int(opts["passnone"]))
        return f"V|{o}|{enc(e)}|{enc(c)}"
    if op == "E":
        return f"E|{int(opts['equal_phase'])}|{enc(e)}|{enc(c)}"
    fg = opts["forgive"]
    fgs = "-" if fg is None else enc_paths(fg)
    if op == "M":
        return f"M|{_tols(opts['atol'])} {_tols(opts['rtol'])}|{opts['relative_geoms']}|{fgs}|{enc(e)}|{enc(c)}"
    ph = opts["equal_phase"]
    phs = "0" if ph is False else "1" if ph is True else enc_paths(ph)
    return f"{op}|{_tols(opts['atol'])} {_tols(opts['rtol'])}|{phs}|{fgs}|{enc(e)}|{enc(c)}"


_VARIANTS = [
    dict(quiet=False),
    dict(quiet=True, return_message=True),
    dict(quiet=False, return_message=True),
    "handler",
    "handler_msg",
]


def build_shared(te, tc):
    """(E, C) with every sub-tree of C whose spec equals the sub-tree of E at the same position being the SAME object as in E
    (an application that derives `computed` from `expected`, or compares an object with itself): the verdict is about values."""
    def walk(a, b, A):
        if a == b:
            return A
        if a[0] == "L" and b[0] == "L":
            return [walk(x, y, X) if i < len(a[1]) else build(y) for i, (x, y, X) in enumerate(zip(list(a[1]) + [None] * len(b[1]), b[1], list(A) + [None] * len(b[1])))] \
                if len(a[1]) >= len(b[1]) else [walk(a[1][i], y, A[i]) if i < len(a[1]) else build(y) for i, y in enumerate(b[1])]
        if a[0] == "D" and b[0] == "D":
            da = dict(a[1])
            return {k: (walk(da[k], v, A[k]) if k in da else build(v)) for k, v in b[1]}
        return build(b)
    E = build(te)
    return E, walk(te, tc, E)


def run_impl(op, opts, e, c, variant=None, via=None, share=False):
    """returns canonical answer and exception text.
    `via`: None | ('model', E, C) | ('molrecs', E, C) | ('proto', E, C) | ('molrecs_raw', E, C)"""
    from qcelemental import testing as T

    fn = {"V": T.compare_values, "E": T.compare, "R": T.compare_recursive, "W": T.compare_recursive, "P": T.compare_recursive, "M": T.compare_molrecs}[op]
    kw = {k: v for k, v in opts.items() if not (k in ("atol", "rtol") and v is None)}  # None = keyword not passed
    if op in ("P", "M"):
        # defaults of the callee stay defaults: only pass what the case sets
        if kw.get("forgive") is None:
            kw.pop("forgive", None)
        if kw.get("equal_phase") is False:
            kw.pop("equal_phase", None)
    quiet_kw = "verbose" if op == "M" else "quiet"
    def set_quiet(q):
        if op == "M":
            kw["verbose"] = 0 if q else 1
        else:
            kw["quiet"] = q
    if variant is None:
        set_quiet(True)
    elif isinstance(variant, dict):
        v = dict(variant)
        if "quiet" in v:
            set_quiet(v.pop("quiet"))
        kw.update(v)
    else:
        seen = []

        def handler(passfail, label, message, return_message, quiet):
            seen.append(passfail)
            return ("H", passfail)

        kw["return_handler"] = handler
        set_quiet(True)
        if variant == "handler_msg":
            kw["return_message"] = True
    if via is not None and via[0] in ("model", "proto"):
        E, C = via[1], via[2]
        # an application dumps PART of a model now and then (options passed to that call are its own business): done here on both
        # operands before every comparison of models, so that a comparison is never the first serialisation call they see
        for obj in (E, C):
            try:
                names = sorted(getattr(obj, "__fields_set__", ()) or obj.__fields__)
                obj.dict(exclude={names[0]})
                obj.dict(include={names[-1]})
            except Exception:  # noqa
                pass
        r, msg = impl_call(lambda a, b, **k: a.compare(b, **k), E, C, **kw)
    elif via is not None and via[0] == "molrecs":
        kw.pop("quiet", None)
        kw.pop("equal_phase", None)
        kw["verbose"] = 0
        r, msg = impl_call(T.compare_molrecs, via[1], via[2], **kw)
    elif via is not None and via[0] == "molrecs_raw":
        r, msg = impl_call(T.compare_molrecs, copy.deepcopy(via[1]), copy.deepcopy(via[2]), **kw)
    elif share:
        r, msg = impl_call(fn, *build_shared(e, c), **kw)
    else:
        r, msg = impl_call(fn, build(e), build(c), **kw)
    if isinstance(r, tuple) and len(r) == 2 and r[0] == "H":
        r = r[1]
    return canon(r), msg


DEF_ATOL, DEF_RTOL = 1.0e-6, 1.0e-16  # keyword defaults of compare_recursive / compare_molrecs (testing.py:400-401, 514-515)


def eff_tols(opts):
    a = DEF_ATOL if opts.get("atol") is None else opts["atol"]
    r = DEF_RTOL if opts.get("rtol") is None else opts["rtol"]
    return a, r


def oracle_for(op, opts, e, c, tw=frozenset()):
    if op == "V":
        r = oracle_values(e, c, Fr(opts["atol"]), Fr(opts["rtol"]), opts["equal_nan"], opts["equal_phase"], opts["passnone"], tw)
        return None if r is None else ("T" if r else "F")
    if op == "E":
        r = oracle_exact(e, c, opts["equal_phase"])
        return None if r is None else ("T" if r else "F")
    if op == "R":
        return oracle_recursive(e, c, Fr(opts["atol"]), Fr(opts["rtol"]), opts["forgive"], opts["equal_phase"], tw)
    a, r = eff_tols(opts)
    if op == "M":
        return oracle_molrecs(e, c, Fr(a), Fr(r), opts["forgive"], tw)
    return oracle_recursive2(e, c, Fr(a), Fr(r), opts["forgive"], opts["equal_phase"], tw)


def classify(op, opts, e, c, impl):
    """the baseline oracle disagrees with the implementation: does one of the five defect classes repaired in /repo
    (6bb542d, 9979db7, 2189975, cf6f150, ca03624) explain it?  Only used to give the violation a specific kind."""
    tweaks = TWEAKS if op in "VER" else NEW_TWEAKS + ["prefix_loose", "npbool_fails", "nondict_raises", "cplx_cast"]
    for n in range(1, 4):
        for sub in itertools.combinations(tweaks, n):
            if oracle_for(op, opts, e, c, frozenset(sub)) == impl:
                return list(sub)
    return None


def check_line(ctx, out: Outcome, block, line, model_line, via=None, variant_rng=None):
    op, opts, e, c = parse_line(line)
    impl, msg = run_impl(op, opts, e, c, via=via)
    out.evaluations += 1
    out.count("block:" + block)
    out.count("impl:" + impl)
    trivial = enc(e) == enc(c) and opts.get("forgive") is None and not opts.get("equal_phase") and not opts.get("equal_nan") and not opts.get("passnone")
    if not trivial:
        out.nontrivial(line)
    exp = oracle_for(op, opts, e, c)
    out.count("oracle:" + ("undetermined" if exp is None else exp))
    if op == "R":
        # the segment-based oracle of the extension must say the same as the dotted-name oracle on the old scope
        exp2 = oracle_recursive2(e, c, Fr(opts["atol"]), Fr(opts["rtol"]), opts["forgive"], opts["equal_phase"])
        if exp2 != exp:
            out.mismatches.append(Finding("oracle-self-check", {"line": line}, observed=exp2, expected=exp, detail="segment-based oracle vs dotted-name oracle on an old-scope case"))
    if len(out.samples) < 6 and (out.evaluations % 997 == 1):
        out.sample({"line": line[:400], "impl": impl, "model": model_line, "oracle": exp})
    case = {"line": line}
    if via is not None:
        case["via"] = via[0]
        if via[0] == "proto":
            case["cls"] = via[3]
    if exp is not None and exp != impl:
        sub = classify(op, opts, e, c, impl)
        if sub:
            kind = {**TWEAK_KIND, **NEW_TWEAK_KIND}[sub[0]]
            case["classified_by"] = sub
            out.count("defect-class:" + "+".join(sub))
        else:
            kind = {"V": "oracle:values_verdict", "E": "oracle:exact_verdict", "R": "oracle:recursive_verdict", "W": "oracle:recursive_verdict",
                    "P": "oracle:protomodel_compare_verdict", "M": "oracle:molrecs_verdict"}[op]
        out.violations.append(Finding(kind, case, observed=impl, expected=exp, detail=(msg or "verdict differs from the property") + ((f" [matches repaired defect class(es) {sub}: regression]" if set(sub) <= set(TWEAKS) | NEW_REPAIRED else f" [matches defect class(es) {sub}]") if sub else "")))
    # reporting options do not change the verdict
    if variant_rng is not None and not impl.startswith("raise"):
        v = variant_rng.choice(_VARIANTS)
        impl2, _ = run_impl(op, opts, e, c, variant=v, via=via)
        out.count("reporting_variant")
        if impl2 != impl:
            out.violations.append(Finding("oracle:reporting_changes_verdict", dict(case, variant=str(v)), observed=impl2, expected=impl, detail="verdict depends on quiet/return_message/return_handler"))
    # a model DERIVED from the expected one by pydantic's copy(update=...) with every field set to the computed model's value IS the
    # computed model, value for value: comparing the two must pass whenever the computed model passes against itself — whatever the
    # expected model had already been dumped / compared for before the copy was taken
    if via is not None and via[0] in ("model", "proto") and not impl.startswith("raise"):
        E, C = via[1], via[2]
        try:
            kw0 = {k: v for k, v in opts.items() if k in ("atol", "rtol") and v is not None}
            self_ok = canon(impl_call(lambda a, b, **k: a.compare(b, **k), C, C, quiet=True, **kw0)[0])
            upd = {n: getattr(C, n) for n in C.__fields__ if n in getattr(C, "__fields_set__", ())}
            D = E.copy(update=upd)
            d_ok = canon(impl_call(lambda a, b, **k: a.compare(b, **k), D, C, quiet=True, **kw0)[0])
            out.count("derived_copy_variant")
            same_set = set(getattr(E, "__fields_set__", ())) <= set(upd)
            if self_ok == "T" and same_set and d_ok != "T":
                out.violations.append(Finding("oracle:derived_copy_verdict", dict(case, derived_copy=True), observed=d_ok, expected="T",
                                              detail="expected.copy(update=<every field of computed>) compared with computed does not pass although computed passes against itself"))
        except Exception:  # noqa
            pass
    # the verdict is about VALUES: equal sub-trees being the very same Python objects on both sides changes nothing
    if variant_rng is not None and via is None and op in ("V", "E", "R", "W") and variant_rng.random() < 0.3:
        impl3, _ = run_impl(op, opts, e, c, via=None, share=True)
        out.count("shared_objects_variant")
        if impl3 != impl:
            out.violations.append(Finding("oracle:identity_changes_verdict", dict(case, shared_objects=True), observed=impl3, expected=impl,
                                          detail="the verdict differs when equal sub-structures of expected and computed are the same Python objects"))
    # three-way: the driver also ran the SOURCE-DERIVED skeleton (Gen/CompareSrc.lean) and it disagrees with the hand model
    if model_line is not None and model_line.startswith("src-differs;"):
        _, hand, srcv = model_line.split(";", 2)
        out.mismatches.append(Finding("three-way:source_vs_model", case, observed=srcv, expected=hand,
                                      detail=f"the skeleton translated from testing.py answers {srcv}, the hand model {hand}, the implementation {impl}"))
        out.count("three-way:src-differs")
        model_line = hand
    elif model_line is not None and op in "VERW":
        out.count("three-way:agree")
    # correspondence
    if model_line is not None and model_line != impl:
        out.mismatches.append(Finding("mismatch", case, observed=impl, expected=model_line, detail="implementation vs Lean model"))


# ======================================================================================
# generators

DEC_ATOL = [10.0**-k for k in range(1, 13)]
DYA_ATOL = [2.0**-k for k in range(4, 40)] + [3 * 2.0**-12, 5 * 2.0**-20]
DEC_RTOL = [1e-16, 1e-16, 1e-8, 1e-7, 1e-6, 1e-5, 1e-4, 1e-3, 1e-2]
DYA_RTOL = [2.0**-k for k in range(7, 27)]
PYTH = [(3, 4), (4, 3), (5, 12), (8, 15), (-3, 4), (3, -4), (0, 1), (1, 0), (-1, 0), (0, -2)]
WORDS = ["abc", "H", "He", "x", "", "Bohr", "psi4", "a_b"]
KEYS = ["a", "ab", "b", "abc", "c", "x", "geom", "g"]

PERT = ["same", "at", "ulp_below", "ulp_above", "rel_below", "rel_above", "half", "double", "far"]


def pick_tols(rng, dyadic):
    if dyadic:
        return rng.choice(DYA_ATOL), rng.choice(DYA_RTOL + [1e-16])
    return rng.choice(DEC_ATOL), rng.choice(DEC_RTOL)


def pick_ref(rng, dyadic) -> Fr:
    r = rng.random()
    if r < 0.25:
        return Fr(0)
    if dyadic or r < 0.6:
        k = rng.choice([1, 1, 2, 3, 5, 7, 12, 33, 64])
        j = rng.randint(-8, 8)
        return Fr(rng.choice([-1, 1]) * k) * Fr(2) ** j
    return Fr(rng.choice([1.0, -1.0, 0.1, 1.5e-7, 123.456, -2.718281828, 1e6, 4.2e-11, rng.uniform(-10, 10)]))


def to_double(fr: Fr) -> Fr:
    return Fr(float(fr))


def perturb(rng, e: Fr, atol_f, rtol_f, cls, sign=None) -> Fr:
    """a double near the edge of the tolerance band around e"""
    b = Fr(atol_f) + Fr(rtol_f) * abs(e)
    bf = float(b)
    s = sign if sign is not None else rng.choice([-1, 1])
    if cls == "same":
        return e
    if cls == "at":
        d = b
    elif cls == "ulp_below":
        d = Fr(math.nextafter(bf, 0.0))
        if Fr(bf) > b:  # rounding went up: step once more
            d = Fr(math.nextafter(float(d), 0.0))
    elif cls == "ulp_above":
        d = Fr(math.nextafter(bf, math.inf))
        if Fr(bf) < b:
            d = Fr(math.nextafter(float(d), math.inf))
    elif cls == "rel_below":
        d = b * (1 - Fr(1, 2**30))
    elif cls == "rel_above":
        d = b * (1 + Fr(1, 2**30))
    elif cls == "half":
        d = b / 2
    elif cls == "double":
        d = b * 2
    else:
        d = b * rng.choice([10, 1000]) + Fr(rng.choice([1, 3]), 8)
    return to_double(e + s * d)


def rand_shape(rng):
    nd = rng.choice([0, 0, 1, 1, 2, 2, 3])
    return tuple(rng.choice([1, 2, 2, 3, 3, 0] if rng.random() < 0.08 else [1, 2, 2, 3]) for _ in range(nd))


def nest(shape, flat):
    """flat scalar specs -> nested 'L' spec of the given shape"""
    if not shape:
        return flat[0]
    n = shape[0]
    step = int(np.prod(shape[1:])) if len(shape) > 1 else 1
    return ("L", [nest(shape[1:], flat[i * step : (i + 1) * step]) for i in range(n)])


def wrap(rng, shape, flat, kind):
    """present (shape, flat) as scalar / nested list / ndarray; `kind` in b i f c s"""
    py = {"b": "B", "i": "I", "f": "F", "c": "C", "s": "S"}[kind]
    npk = ARR_ELEM[kind]

    def conv(x, tag):
        return (tag,) + tuple(x[1:])

    size = int(np.prod(shape)) if shape else 1
    r = rng.random()
    if shape == ():
        if r < 0.6:
            return conv(flat[0], py)
        if r < 0.75 and kind != "s":
            return conv(flat[0], npk)
        return ("A", kind, [], [conv(flat[0], npk)])
    if r < 0.45 and (size > 0 or len(shape) == 1 or all(d > 0 for d in shape[:-1])):
        # nested lists can only express zero-size axes at the innermost level
        if 0 not in shape[:-1]:
            return nest(shape, [conv(x, py) for x in flat])
    return ("A", kind, list(shape), [conv(x, npk) for x in flat])


def mismatch_shape(rng, shape):
    size = int(np.prod(shape)) if shape else 1
    alts = []
    if shape == ():
        alts = [(1,), (1, 1), (2,)]
    else:
        alts.append(tuple(reversed(shape)) if tuple(reversed(shape)) != shape else shape + (1,))
        alts.append((size,) if shape != (size,) else (1, size))
        alts.append(shape[:-1] + (shape[-1] + 1,))
        alts.append(shape[1:])
    return rng.choice(alts)


def gen_V(ctx: Ctx, n):
    rng = ctx.rng
    made = 0
    tries = 0
    while made < n and tries < 20 * n:
        tries += 1
        dyadic = rng.random() < 0.6
        atol, rtol = pick_tols(rng, dyadic)
        cplx = rng.random() < 0.3
        kind = "c" if cplx else rng.choice(["f", "f", "f", "f", "i", "b"])
        shape = rand_shape(rng)
        size = int(np.prod(shape)) if shape else 1
        equal_nan = rng.random() < 0.25
        phase = rng.random() < 0.3
        passnone = rng.random() < 0.1
        # element classes: mostly passing, a few at the edge
        mode = rng.choice(["allpass", "onefail", "edge", "edge", "mixed"])
        es, cs = [], []
        flip_all = phase and rng.random() < 0.5
        flip_some = rng.random() < 0.07
        for i in range(size):
            if mode == "allpass":
                cls = rng.choice(["same", "at", "ulp_below", "rel_below", "half"])
            elif mode == "onefail":
                cls = rng.choice(["same", "half"])
            elif mode == "edge":
                cls = rng.choice(["at", "ulp_below", "ulp_above", "rel_below", "rel_above"])
            else:
                cls = rng.choice(PERT)
            if kind == "c":
                p, q = rng.choice(PYTH)
                s = Fr(rng.choice([0, 1, 1, 2, 5])) * Fr(2) ** rng.randint(-6, 6)
                e = (s * p, s * q)
                mod = s * {(3, 4): 5, (4, 3): 5, (5, 12): 13, (8, 15): 17, (-3, 4): 5, (3, -4): 5}.get((p, q), abs(p) + abs(q))
                bsh = perturb(rng, mod, atol, rtol, cls, sign=1) - mod  # shift of size ~ the bound
                axis = rng.random() < 0.5
                c = (to_double(e[0] + (bsh if axis else 0)), to_double(e[1] + (0 if axis else bsh)))
                if rng.random() < 0.1:
                    c = (to_double(e[0] + bsh * Fr(3, 4)), to_double(e[1] + bsh * Fr(1, 2)))
                es.append(("C", e[0], e[1]))
                cs.append(("C", c[0], c[1]))
            elif kind == "f":
                e = pick_ref(rng, dyadic)
                c = perturb(rng, e, atol, rtol, cls)
                es.append(("F", e))
                cs.append(("F", c))
            elif kind == "i":
                e = rng.choice([0, 1, -3, 7, 100, 1000, 123456])
                c = e + (0 if cls in ("same", "half", "at", "ulp_below", "rel_below") else rng.choice([1, -1, 10]))
                if rtol >= 1e-3 and abs(e) >= 1000 and rng.random() < 0.5:
                    c = e + rng.choice([-1, 1]) * int(rtol * abs(e) * rng.choice([0.5, 2]))
                es.append(("I", e))
                cs.append(("I", c))
            else:
                e = rng.random() < 0.5
                es.append(("B", e))
                cs.append(("B", e if cls != "far" else (not e)))
        if mode == "onefail" and size:
            i = rng.randrange(size)
            if kind in "fc":
                cls = rng.choice(["ulp_above", "rel_above", "double", "far"])
                if kind == "f":
                    cs[i] = ("F", perturb(rng, es[i][1], atol, rtol, cls))
                else:
                    mod = sqrt_bounds(es[i][1] ** 2 + es[i][2] ** 2)[0]
                    bsh = perturb(rng, mod, atol, rtol, cls, sign=1) - mod
                    cs[i] = ("C", to_double(es[i][1] + bsh), es[i][2])
            elif kind == "i":
                cs[i] = ("I", es[i][1] + 1)
            else:
                cs[i] = ("B", not es[i][1])
        # special values
        if kind in "fc" and size and rng.random() < 0.12:
            i = rng.randrange(size)
            sv = rng.choice([NAN, NAN, NAN, INF, NINF])
            which = rng.choice(["both", "both", "e", "c", "opp"])
            def put(x, v):
                return (x[0], v) + tuple(x[2:])
            if which in ("both", "e", "opp"):
                es[i] = put(es[i], sv)
            if which in ("both", "c"):
                cs[i] = put(cs[i], sv)
            if which == "opp":
                cs[i] = put(cs[i], xr_neg(sv))
        def flip(x):
            if x[0] == "F":
                return ("F", xr_neg(x[1]) if x[1] != 0 else x[1])
            if x[0] == "C":
                return ("C", xr_neg(x[1]) if x[1] != 0 else x[1], xr_neg(x[2]) if x[2] != 0 else x[2])
            if x[0] == "I":
                return ("I", -x[1])
            return x
        if flip_all:
            cs = [flip(x) for x in cs]
        elif flip_some and size:
            i = rng.randrange(size)
            cs[i] = flip(cs[i])
        cshape = shape
        if rng.random() < 0.1:
            cshape = mismatch_shape(rng, shape)
            csize = int(np.prod(cshape)) if cshape else 1
            pool = cs or [{"f": ("F", Fr(1)), "c": ("C", Fr(1), Fr(0)), "i": ("I", 1), "b": ("B", True)}[kind]]
            cs = [pool[i % len(pool)] for i in range(csize)]
        ckind = kind
        if rng.random() < 0.08 and kind in "fi":
            ckind = "i" if kind == "f" and all(x[1].denominator == 1 for x in cs if not isinstance(x[1], str)) and not any(isinstance(x[1], str) for x in cs) else kind
            if ckind == "i" and kind == "f":
                cs = [("I", int(x[1])) for x in cs]
        e = wrap(rng, shape, es, kind)
        c = wrap(rng, cshape, cs, ckind)
        if not values_safe(e, c, atol, rtol, phase):
            continue
        made += 1
        yield "V", make_line("V", dict(atol=atol, rtol=rtol, equal_nan=equal_nan, equal_phase=phase, passnone=passnone), e, c)


def gen_V_fringe(ctx: Ctx, n):
    """None / passnone, text, and real-expected-vs-complex-computed pairs"""
    rng = ctx.rng
    for _ in range(n):
        atol, rtol = pick_tols(rng, True)
        o = dict(atol=atol, rtol=rtol, equal_nan=rng.random() < 0.4, equal_phase=rng.random() < 0.3, passnone=rng.random() < 0.6)
        r = rng.random()
        one = ("F", Fr(rng.choice([0, 1, 2])))
        if r < 0.3:
            e, c = rng.choice([(("N",), ("N",)), (("N",), one), (one, ("N",)), (("L", [("N",), one]), ("L", [("N",), one]))])
        elif r < 0.5:
            w = ("S", rng.choice([x for x in WORDS if x]))
            e, c = rng.choice([(w, w), (w, one), (one, w), (("A", "s", [2], [w, w]), ("A", "s", [2], [w, w]))])
        else:
            # real expected, complex computed (zero or non-zero imaginary part; Python or numpy flavour)
            n_el = rng.choice([0, 1, 2])
            re = [Fr(rng.choice([0, 1, -2, 5])) for _ in range(max(n_el, 1))]
            im = [rng.choice([Fr(0), Fr(0), Fr(atol) / 2, Fr(3), Fr(-1, 4)]) for _ in re]
            if n_el == 0:
                e = ("F", re[0])
                c = rng.choice([("C", re[0], im[0]), ("c", re[0], im[0]), ("A", "c", [], [("c", re[0], im[0])])])
            else:
                e = rng.choice([("L", [("F", x) for x in re]), ("A", "f", [len(re)], [("f", x) for x in re])])
                c = rng.choice([("L", [("C", x, y) for x, y in zip(re, im)]), ("A", "c", [len(re)], [("c", x, y) for x, y in zip(re, im)])])
            o["passnone"] = False
        yield "Vx", make_line("V", o, e, c)


def gen_E(ctx: Ctx, n):
    rng = ctx.rng
    for _ in range(n):
        kind = rng.choice(["i", "i", "b", "s", "f", "c"])
        shape = rand_shape(rng)
        size = int(np.prod(shape)) if shape else 1
        def val(k):
            if k == "i":
                return ("I", rng.choice([0, 1, -1, 2, 7, -12, 1000]))
            if k == "b":
                return ("B", rng.random() < 0.5)
            if k == "s":
                return ("S", rng.choice(WORDS))
            if k == "f":
                return ("F", rng.choice([Fr(0), Fr(1), Fr(-3, 2), Fr(0.1), NAN if rng.random() < 0.1 else Fr(2)]))
            return ("C", Fr(rng.choice([0, 1, -2])), Fr(rng.choice([0, 1, -1, 3])))
        es = [val(kind) for _ in range(size)]
        cs = list(es)
        mode = rng.choice(["same", "same", "one", "neg", "negsome", "kind", "shape"])
        phase = rng.random() < 0.4
        def neg(x):
            p = x
            if x[0] == "I":
                return ("I", -x[1])
            if x[0] == "F":
                return ("F", xr_neg(x[1]) if x[1] != 0 else x[1])
            if x[0] == "C":
                return ("C", xr_neg(x[1]) if x[1] != 0 else x[1], xr_neg(x[2]) if x[2] != 0 else x[2])
            return p
        def change(x):
            if x[0] == "I":
                return ("I", x[1] + rng.choice([1, -1]))
            if x[0] == "B":
                return ("B", not x[1])
            if x[0] == "S":
                return ("S", x[1] + "z")
            if x[0] == "F":
                return ("F", NAN) if x[1] == NAN else ("F", Fr(math.nextafter(float(x[1]), math.inf)))
            return ("C", x[1], x[2] + 1)
        ckind, cshape = kind, shape
        if mode == "one" and size:
            i = rng.randrange(size)
            cs[i] = change(cs[i])
        elif mode == "neg":
            cs = [neg(x) for x in cs]
        elif mode == "negsome" and size:
            cs = [neg(x) if rng.random() < 0.6 else x for x in cs]
        elif mode == "kind":
            if kind == "i":
                ckind = rng.choice(["f", "s", "c"])
                cs = [("F", Fr(x[1])) if ckind == "f" else ("C", Fr(x[1]), Fr(0)) if ckind == "c" else ("S", "w" + str(abs(x[1]))) for x in cs]
            elif kind == "b":
                ckind = "i"
                cs = [("I", int(x[1])) for x in cs]
        elif mode == "shape":
            cshape = mismatch_shape(rng, shape)
            csize = int(np.prod(cshape)) if cshape else 1
            pool = cs or [val(kind)]
            cs = [pool[i % len(pool)] for i in range(csize)]
        e = wrap(rng, shape, es, kind)
        c = wrap(rng, cshape, cs, ckind)
        if rng.random() < 0.03:
            e, c = rng.choice([(("N",), ("N",)), (("N",), ("I", 1)), (("L", [("N",), ("I", 1)]), ("L", [("N",), ("I", 1)]))])
        yield "E", make_line("E", dict(equal_phase=phase), e, c)


# ---- recursive ------------------------------------------------------------------------


def gen_leaf(rng):
    r = rng.random()
    if r < 0.30:
        return ("F", pick_ref(rng, True))
    if r < 0.36:
        return ("f", pick_ref(rng, True))
    if r < 0.41:
        return ("i", rng.choice([0, 1, 5, -7, 1000]))
    if r < 0.53:
        return ("I", rng.choice([0, 1, 5, -7, 1000]))
    if r < 0.60:
        return ("B", rng.random() < 0.5)
    if r < 0.70:
        return ("S", rng.choice(WORDS))
    if r < 0.75:
        return ("N",)
    if r < 0.79:
        return (rng.choice(["C", "c"]), Fr(rng.choice([0, 1, -2])), Fr(rng.choice([1, -1, 3])))
    if r < 0.81:
        return ("b", rng.random() < 0.5)
    # arrays
    kind = rng.choice(["f", "f", "f", "i", "b", "s", "c"])
    shape = rng.choice([(2,), (3,), (2, 2), (1, 3), ()])
    size = int(np.prod(shape)) if shape else 1
    def el():
        if kind == "f":
            return ("f", pick_ref(rng, True))
        if kind == "i":
            return ("i", rng.choice([0, 1, 2, -3]))
        if kind == "b":
            return ("b", rng.random() < 0.5)
        if kind == "s":
            return ("S", rng.choice(WORDS))
        return ("c", Fr(rng.choice([0, 1])), Fr(rng.choice([1, -2])))
    return ("A", kind, list(shape), [el() for _ in range(size)])


def gen_tree(rng, depth, top=False):
    r = rng.random()
    if depth <= 0 or (not top and r < 0.35):
        return gen_leaf(rng)
    if top or r < 0.8:
        keys = rng.sample(KEYS, rng.randint(1, 4))
        return ("D", [(k, gen_tree(rng, depth - 1)) for k in keys])
    return ("L", [gen_tree(rng, depth - 1) for _ in range(rng.randint(0, 3))])


def paths_of(t, path="", acc=None):
    acc = [] if acc is None else acc
    if path:
        acc.append((path, t))
    if t[0] == "D":
        for k, v in t[1]:
            paths_of(v, (path + "." if path else "") + k, acc)
    elif t[0] == "L":
        for i, v in enumerate(t[1]):
            paths_of(v, (path + "." if path else "") + str(i), acc)
    return acc


def replace_at(t, path, fn):
    """functional update of the node at dotted `path`; fn(node) -> node | '__drop__'"""
    if not path:
        return fn(t)
    head, _, rest = path.partition(".")
    if t[0] == "D":
        out = []
        for k, v in t[1]:
            if k == head:
                nv = replace_at(v, rest, fn)
                if nv != "__drop__":
                    out.append((k, nv))
            else:
                out.append((k, v))
        return ("D", out)
    if t[0] == "L":
        out = []
        for i, v in enumerate(t[1]):
            if str(i) == head:
                nv = replace_at(v, rest, fn)
                if nv != "__drop__":
                    out.append(nv)
            else:
                out.append(v)
        return ("L", out)
    return t


def mutate_leaf(rng, t, atol, rtol, flip):
    """returns the changed node; numeric leaves move to an edge of the tolerance band"""
    k = t[0]
    cls = rng.choice(["at", "ulp_below", "ulp_above", "rel_above", "double", "far", "half"])
    if flip and k in "FfIiCc":
        if k in "Ff":
            return (k, xr_neg(perturb(rng, t[1], atol, rtol, rng.choice(["same", "half", "ulp_below"]))))
        if k in "Ii":
            return (k, -t[1]) if t[1] != 0 else (k, 1)
        return (k, xr_neg(t[1]), xr_neg(t[2]))
    if k in "Ff":
        r = rng.random()
        if r < 0.08:
            return ("N",)
        if r < 0.12:
            return ("S", "abc")
        if r < 0.17 and perturb(rng, t[1], atol, rtol, "same").denominator == 1:
            return ("I", int(t[1]))
        return (k if r < 0.9 else ("f" if k == "F" else "F"), perturb(rng, t[1], atol, rtol, cls))
    if k == "i":
        return rng.choice([("i", t[1] + 1), ("I", t[1]), ("F", perturb(rng, Fr(t[1]), atol, rtol, rng.choice(["half", "ulp_above", "far"])))])
    if k == "I":
        return rng.choice([("I", t[1] + 1), ("I", t[1] - 2), ("F", Fr(t[1])), ("F", perturb(rng, Fr(t[1]), atol, rtol, rng.choice(["half", "far"]))), ("B", t[1] == 1), ("N",)])
    if k == "B":
        return rng.choice([("B", not t[1]), ("I", int(t[1])), ("N",)])
    if k == "S":
        return rng.choice([("S", t[1] + "q"), ("S", ""), ("N",), ("I", 0)]) if t[1] != "" else ("S", "q")
    if k == "N":
        return rng.choice([("I", 0), ("F", Fr(0)), ("S", ""), ("B", False), ("L", [])])
    if k in "Cc":
        return rng.choice([(k, t[1], t[2] + 1), (k, t[1] + Fr(atol) / 2, t[2]), ("C" if k == "c" else "c", t[1], t[2])])
    if k == "b":
        return rng.choice([("b", not t[1]), ("B", t[1]), ("b", t[1])])
    if k == "A":
        kind, shape, flat = t[1], t[2], list(t[3])
        r = rng.random()
        if r < 0.1:
            return ("A", kind, list(mismatch_shape(rng, tuple(shape))) if False else [len(flat) + 1], flat + flat[:1]) if flat else t
        if r < 0.2 and flat:
            return nest(tuple(shape), [({"f": "F", "i": "I", "b": "B", "c": "C", "S": "S"}[x[0]],) + tuple(x[1:]) for x in flat]) if shape else t
        if not flat:
            return t
        i = rng.randrange(len(flat))
        x = flat[i]
        if kind == "f":
            flat[i] = ("f", perturb(rng, x[1], atol, rtol, cls))
        elif kind == "i":
            flat[i] = ("i", x[1] + 1)
        elif kind == "b":
            flat[i] = ("b", not x[1])
        elif kind == "s":
            flat[i] = ("S", x[1] + "q")
        else:
            flat[i] = ("c", x[1], x[2] + rng.choice([Fr(1), Fr(atol) / 4]))
        return ("A", kind, shape, flat)
    return t


def flip_node(t):
    k = t[0]
    if k in "Ff":
        return (k, xr_neg(t[1]))
    if k in "Ii":
        return (k, -t[1])
    if k in "Cc":
        return (k, xr_neg(t[1]), xr_neg(t[2]))
    if k == "A" and t[1] in "fic":
        return ("A", t[1], t[2], [flip_node(x) for x in t[3]])
    return t


def gen_R_case(rng, special=None):
    dy = True
    atol, rtol = pick_tols(rng, dy)
    if rng.random() < 0.02:
        atol = rng.choice([1.0, 2.0, 10.0])
    e = gen_tree(rng, rng.randint(1, 4), top=rng.random() < 0.93)
    c = e
    allp = paths_of(e)
    touched = []
    nmut = rng.choice([0, 1, 1, 1, 2, 2, 3]) if allp else 0
    phase = False
    pr = rng.random()
    want_phase = pr < 0.2
    for _ in range(nmut):
        cur = paths_of(c)
        if not cur:
            break
        path, node = rng.choice(cur)
        r = rng.random()
        if node[0] == "D" and r < 0.5:
            if r < 0.2:
                c = replace_at(c, path, lambda n: "__drop__")
            elif r < 0.35:
                c = replace_at(c, path, lambda n: ("D", n[1] + [("zz", ("I", 1))]))
            elif r < 0.41:
                c = replace_at(c, path, lambda n: rng.choice([("N",), ("I", 3), ("L", [])]))  # dict vs non-dict
            else:
                continue
            touched.append(path)
        elif node[0] == "L" and r < 0.5:
            if r < 0.2:
                c = replace_at(c, path, lambda n: "__drop__")
            elif r < 0.32:
                c = replace_at(c, path, lambda n: ("L", n[1] + [("F", Fr(1))]))
            elif r < 0.42:
                c = replace_at(c, path, lambda n: rng.choice([("N",), ("I", 3), ("F", Fr(1))]))
            else:
                continue
            touched.append(path)
        elif node[0] not in "DL":
            if r < 0.12:
                c = replace_at(c, path, lambda n: "__drop__")
            else:
                flip = want_phase and rng.random() < 0.7
                c = replace_at(c, path, lambda n: mutate_leaf(rng, n, atol, rtol, flip))
            touched.append(path)
    # extra keys at the top
    if c[0] == "D" and rng.random() < 0.06:
        c = ("D", c[1] + [("extra", ("F", Fr(1)))])
        touched.append("extra")
    if want_phase:
        if rng.random() < 0.35:
            phase = True
            if rng.random() < 0.4:
                # global flip of every numeric leaf
                for p, n in paths_of(c):
                    if n[0] not in "DL" and rng.random() < 0.85:
                        c = replace_at(c, p, flip_node)
                        touched.append(p)
        else:
            cand = touched + [p for p, _ in allp[:3]]
            phase = [decorate(rng, p) for p in rng.sample(cand, min(len(cand), rng.randint(0, 2)))] if cand else []
    # forgive
    fr = rng.random()
    forgive = None
    if fr < 0.45:
        cand = []
        for p in touched:
            cand.append(p)
            if "." in p and rng.random() < 0.5:
                cand.append(p.rsplit(".", 1)[0])
        cand += [p for p, _ in rng.sample(allp, min(len(allp), 1))]
        cand.append(rng.choice(["nokey", "a", "g"]))
        forgive = [decorate(rng, p) for p in rng.sample(cand, rng.randint(0, min(3, len(cand))))]
        if special == "nooverlap":
            forgive = dedup_prefix_free(forgive)
    if special == "nooverlap" and isinstance(phase, list):
        phase = dedup_prefix_free(phase)
    return dict(atol=atol, rtol=rtol, equal_phase=phase, forgive=forgive), e, c


def decorate(rng, p):
    return "root." + p if rng.random() < 0.15 else p


def dedup_prefix_free(paths):
    out = []
    for p in paths:
        q = p if p.startswith("root.") else "root." + p
        if not any(q.startswith(o if o.startswith("root.") else "root." + o) or (o if o.startswith("root.") else "root." + o).startswith(q) for o in out):
            out.append(p)
    return out


def rec_safe(e, c, atol, rtol) -> bool:
    """every numeric leaf pair must be float-safe (also under sign flip)"""
    if e[0] == "D":
        if c[0] != "D":
            return True
        cd = dict(c[1])
        return all(rec_safe(v, cd[k], atol, rtol) for k, v in e[1] if k in cd)
    if e[0] == "L":
        if c[0] != "L" or len(c[1]) != len(e[1]):
            return True
        return all(rec_safe(x, y, atol, rtol) for x, y in zip(e[1], c[1]))
    return values_safe(e, c, atol, rtol, True)


def modelled_pair(e, c) -> bool:
    """stay inside the stated scope (ASSUMPTIONS): list vs str/dict/ndarray and exact scalar vs ndarray are not generated"""
    if e[0] == "D":
        if c[0] != "D":
            return True
        cd = dict(c[1])
        return all(modelled_pair(v, cd[k]) for k, v in e[1] if k in cd)
    if e[0] == "L":
        if c[0] == "L":
            return len(c[1]) != len(e[1]) or all(modelled_pair(x, y) for x, y in zip(e[1], c[1]))
        return c[0] not in "SDA"
    if e[0] in "SIBCcb":
        return c[0] != "A" and not (e[0] in "cb" and c[0] == "L")
    fe, fc = flat_of(e), flat_of(c)
    if fe == "ragged" or fc == "ragged":
        return False
    if not isinstance(fe, str) and kind_of(fe[1]) is None:
        return False
    if not isinstance(fc, str) and kind_of(fc[1]) is None:
        return False
    return True


def gen_R(ctx: Ctx, n):
    rng = ctx.rng
    made = 0
    while made < n:
        opts, e, c = gen_R_case(rng)
        if not modelled_pair(e, c) or not rec_safe(e, c, opts["atol"], opts["rtol"]):
            continue
        made += 1
        yield "R", make_line("R", opts, e, c)


def gen_R_directed(ctx: Ctx):
    """hand-shaped families for the filtering logic (each instantiated over tolerances / perturbation classes)"""
    rng = ctx.rng
    for _ in range(ctx.scale(150, 1500)):
        atol, rtol = pick_tols(rng, True)
        x = pick_ref(rng, True)
        good = perturb(rng, x, atol, rtol, rng.choice(["same", "at", "ulp_below"]))
        bad = perturb(rng, x, atol, rtol, rng.choice(["ulp_above", "rel_above", "far"]))
        k1, k2 = rng.choice([("a", "ab"), ("a", "b"), ("g", "geom"), ("ab", "abc"), ("x", "c")])
        fam = rng.choice(["sibling", "nested", "phase_sibling", "phase_list", "dup"])
        if fam == "sibling":
            e = ("D", [(k1, ("F", x)), (k2, ("F", x))])
            c = ("D", [(k1, ("F", rng.choice([good, bad]))), (k2, ("F", rng.choice([good, bad])))])
            o = dict(atol=atol, rtol=rtol, equal_phase=False, forgive=rng.choice([[k1], [k2], [k1, k2], []]))
        elif fam == "nested":
            e = ("D", [(k1, ("D", [(k2, ("F", x)), ("n", ("I", 1))]))])
            c = ("D", [(k1, ("D", [(k2, ("F", rng.choice([good, bad]))), ("n", ("I", rng.choice([1, 2])))]))])
            o = dict(atol=atol, rtol=rtol, equal_phase=False, forgive=rng.choice([[k1], [k1 + "." + k2], [k1, k1 + "." + k2], [k1 + ".n"], ["root." + k1, k1], None]))
        elif fam == "phase_sibling":
            e = ("D", [(k1, ("F", x)), (k2, ("F", x))])
            c = ("D", [(k1, ("F", xr_neg(good) if x != 0 else bad)), (k2, ("F", rng.choice([xr_neg(good) if x != 0 else bad, good, bad])))])
            o = dict(atol=atol, rtol=rtol, equal_phase=rng.choice([True, [k1], [k2], [k1, k2]]), forgive=None)
        elif fam == "phase_list":
            e = ("D", [(k1, ("A", "f", [2], [("f", x), ("f", x)])), (k2, ("A", "i", [2], [("i", 1), ("i", 2)]))])
            c = ("D", [(k1, ("A", "f", [2], [("f", xr_neg(good)), ("f", xr_neg(rng.choice([good, bad])))])), (k2, ("A", "i", [2], [("i", -1), ("i", rng.choice([-2, 2]))]))])
            o = dict(atol=atol, rtol=rtol, equal_phase=rng.choice([True, [k1], [k2], False]), forgive=rng.choice([None, [k2]]))
        else:
            e = ("D", [(k1, ("F", x))])
            c = ("D", [(k1, ("F", bad))])
            o = dict(atol=atol, rtol=rtol, equal_phase=False, forgive=rng.choice([[k1, k1], [k1], ["root." + k1, k1]]))
        if rec_safe(e, c, atol, rtol):
            yield "Rd", make_line("R", o, e, c)
    # a NaN leaf (bare float, numpy float, array element) at the same place on both sides: the recursive comparison has no
    # equal_nan request, so it never passes — whether or not the rest agrees, and (shared-objects variant of check_line) whether
    # or not the two sides are the same Python objects
    for _ in range(ctx.scale(120, 1200)):
        atol, rtol = pick_tols(rng, True)
        x = pick_ref(rng, True)
        k1, k2 = rng.choice([("a", "b"), ("g", "geom"), ("x", "c")])
        nanleaf = rng.choice([("F", NAN), ("f", NAN), ("A", "f", [2], [("f", x), ("f", NAN)]), ("L", [("F", x), ("F", NAN)])])
        other_e = ("F", x)
        other_c = ("F", rng.choice([x, perturb(rng, x, atol, rtol, "far")]))
        shape = rng.choice(["flat", "nested"])
        if shape == "flat":
            e = ("D", [(k1, nanleaf), (k2, other_e)])
            c = ("D", [(k1, nanleaf), (k2, other_c)])
        else:
            e = ("D", [(k1, ("D", [("n", nanleaf), ("m", ("I", 1))])), (k2, other_e)])
            c = ("D", [(k1, ("D", [("n", nanleaf), ("m", ("I", 1))])), (k2, other_c)])
        o = dict(atol=atol, rtol=rtol, equal_phase=False, forgive=rng.choice([None, None, [k2]]))
        yield "Rnan", make_line("R", o, e, c)



# ======================================================================================
# WIDE generators (extension)

KEYS_W = ["a", "a.b", "a.x", "b", "ab", "root", "root.a", "x", "MP2.5", "g h", "a.b.c", "b.0"]


def rec_safe2(e, c, atol, rtol) -> bool:
    if e[0] == "D":
        if c[0] != "D":
            return True
        cd = dict(c[1])
        return all(rec_safe2(v, cd[k], atol, rtol) for k, v in e[1] if k in cd)
    if e[0] == "L":
        cs = seq_view(c)
        if cs is None or len(cs) != len(e[1]):
            return True
        return all(rec_safe2(x, y, atol, rtol) for x, y in zip(e[1], cs))
    return values_safe(e, c, atol, rtol, True)


def wide_modelled(e, c) -> bool:
    """what the wide model still answers `unmodelled` (ASSUMPTIONS): never generated"""
    if e[0] == "D":
        if c[0] != "D":
            return True
        cd = dict(c[1])
        return all(wide_modelled(v, cd[k]) for k, v in e[1] if k in cd)
    if e[0] == "L":
        cs = seq_view(c)
        if cs is None or len(cs) != len(e[1]):
            return True
        return all(wide_modelled(x, y) for x, y in zip(e[1], cs))
    if e[0] == "N":
        return True
    fc = flat_of(c)
    if e[0] in "cb" and c[0] == "L" and fc == "bad":
        return False  # numpy scalar vs a list holding a dict
    if e[0] == "A" and e[1] != "f":
        if kind_of(e[3]) is None:
            return False
        if not isinstance(fc, str) and kind_of(fc[1]) is None:
            return False  # exact array comparison against mixed text/number data
    return True


def embed(rng, e, c, keys=None):
    """put the pair under 0-2 levels of dict / list context; returns e, c, segs of the pair"""
    keys = keys or KEYS
    segs = []
    for _ in range(rng.choice([0, 1, 1, 2])):
        if rng.random() < 0.7:
            k, sk = rng.sample(keys, 2)
            sib = gen_leaf(rng)
            ie, ic = [(k, e), (sk, sib)], [(k, c), (sk, sib)]
            if rng.random() < 0.5:
                ie.reverse()
            if rng.random() < 0.5:
                ic.reverse()
            e, c = ("D", ie), ("D", ic)
            segs.insert(0, k)
        else:
            pre = [gen_leaf(rng) for _ in range(rng.randint(0, 2))]
            e, c = ("L", pre + [e]), ("L", pre + [c])
            segs.insert(0, str(len(pre)))
    if e[0] != "D" and rng.random() < 0.8:
        k = rng.choice(keys)
        e, c = ("D", [(k, e)]), ("D", [(k, c)])
        segs.insert(0, k)
    return e, c, segs


def _opts_for(rng, atol, rtol, segs, allow_phase=True):
    path = ".".join(segs)
    forgive = None
    r = rng.random()
    if r < 0.35 and segs:
        cand = [path, ".".join(segs[:-1]) or path, "nokey", segs[0], "root." + path]
        forgive = rng.sample(cand, rng.randint(1, 2))
        forgive = [x for x in forgive if x]
    phase = False
    if allow_phase and rng.random() < 0.25:
        phase = rng.choice([True, [path] if path else True, [segs[0]] if segs else True])
    return dict(atol=atol, rtol=rtol, equal_phase=phase, forgive=forgive)


def gen_W_directed(ctx: Ctx, n):
    """the pairs outside the old scope, each embedded at a random depth, with forgive / phase options around them"""
    rng = ctx.rng
    made = 0
    py = {"f": "F", "i": "I", "b": "B", "c": "C", "s": "S"}
    while made < n:
        atol, rtol = pick_tols(rng, True)
        fam = rng.choice(["list_str", "list_dict", "list_arr", "list_arr", "list_arr2d", "exact_arr", "exact_arr", "npexact_list", "ragged", "ragged"])
        if fam == "list_str":
            chars = [rng.choice("abxyH") for _ in range(rng.randint(0, 3))]
            es = [("S", ch) for ch in chars]
            m = rng.choice(["same", "same", "onechar", "longer", "multi", "nonstr"])
            txt = "".join(chars)
            if m == "onechar" and chars:
                txt = txt[:-1] + "q"
            elif m == "longer":
                txt = txt + "z"
            elif m == "multi" and es:
                es[0] = ("S", es[0][1] + "b")
            elif m == "nonstr" and es:
                es[0] = rng.choice([("I", 1), ("L", [("S", chars[0])]), ("F", Fr(1))])
            e, c = ("L", es), ("S", txt)
        elif fam == "list_dict":
            ks = rng.sample(["a", "b", "x", "He", "geom"], rng.randint(0, 3))
            es = [("S", k) for k in ks]
            m = rng.choice(["same", "same", "perm", "other", "extra"])
            cks = list(ks)
            if m == "perm":
                rng.shuffle(cks)
            elif m == "other" and cks:
                cks[0] = cks[0] + "q"
            elif m == "extra":
                cks.append("zz")
            e, c = ("L", es), ("D", [(k, gen_leaf(rng)) for k in cks])
        elif fam == "list_arr":
            kind = rng.choice(["f", "f", "i", "b", "s", "c"])
            nel = rng.randint(0, 3)
            def el(kind=kind):
                if kind == "f":
                    return ("f", pick_ref(rng, True))
                if kind == "i":
                    return ("i", rng.choice([0, 1, 2, -3]))
                if kind == "b":
                    return ("b", rng.random() < 0.5)
                if kind == "s":
                    return ("S", rng.choice(WORDS))
                return ("c", Fr(rng.choice([0, 1])), Fr(rng.choice([1, -2])))
            flat = [el() for _ in range(nel)]
            es = [(py[kind],) + tuple(x[1:]) for x in flat]
            if kind in "fi" and rng.random() < 0.3:
                es = [("f" if kind == "f" else "i",) + tuple(x[1:]) for x in es]  # numpy scalars expected
            m = rng.choice(["same", "edge", "change", "len", "zerod"])
            cf = list(flat)
            if m in ("edge", "change") and cf:
                i = rng.randrange(len(cf))
                cf[i] = mutate_leaf(rng, cf[i], atol, rtol, False)
                if cf[i][0] not in "fibcS" or (cf[i][0] == "S") != (kind == "s"):
                    cf[i] = flat[i]
                cf[i] = ({"F": "f", "I": "i", "B": "b", "C": "c"}.get(cf[i][0], cf[i][0]),) + tuple(cf[i][1:])
                if ARR_ELEM[kind] != cf[i][0]:
                    cf[i] = flat[i]
            if m == "len":
                cf = cf + [el()]
            e = ("L", es)
            c = ("A", kind, [len(cf)], cf) if m != "zerod" else ("A", kind, [], [el()])
        elif fam == "list_arr2d":
            kind = rng.choice(["f", "i", "i", "s"])
            r_, c_ = rng.choice([(2, 1), (2, 2), (1, 2), (2, 0)])
            def el(kind=kind):
                return ("f", pick_ref(rng, True)) if kind == "f" else ("i", rng.choice([0, 1, 2])) if kind == "i" else ("S", rng.choice(["a", "b"]))
            flat = [el() for _ in range(r_ * c_)]
            m = rng.choice(["rows", "rows", "flatexp", "change"])
            if m == "flatexp":
                # expected is a flat list of scalars, computed a 2-d array: every row is an array under an exact / numeric leaf
                es = [(py[kind],) + tuple(flat[i * c_][1:]) if c_ else (py[kind], 0) if kind == "i" else (py[kind], Fr(0)) if kind == "f" else ("S", "a") for i in range(r_)]
                e = ("L", es)
            else:
                e = ("L", [("L", [(py[kind],) + tuple(x[1:]) for x in flat[i * c_ : (i + 1) * c_]]) for i in range(r_)])
            cf = list(flat)
            if m == "change" and cf:
                i = rng.randrange(len(cf))
                cf[i] = ("f", perturb(rng, cf[i][1], atol, rtol, rng.choice(["ulp_above", "at", "far"]))) if kind == "f" else ("i", cf[i][1] + 1) if kind == "i" else ("S", cf[i][1] + "q")
            c = ("A", kind, [r_, c_], cf)
        elif fam == "exact_arr":
            e = rng.choice([("S", rng.choice(["abc", "H", ""])), ("I", rng.choice([0, 1, 5])), ("B", rng.random() < 0.5), ("C", Fr(1), Fr(-1)), ("c", Fr(0), Fr(2)), ("b", rng.random() < 0.5)])
            kind = {"S": "s", "I": "i", "B": "b", "C": "c", "c": "c", "b": "b"}[e[0]]
            if rng.random() < 0.15:
                kind = rng.choice(["i", "f", "s"])
            same = (ARR_ELEM[kind],) + tuple(e[1:]) if kind == {"S": "s", "I": "i", "B": "b", "C": "c", "c": "c", "b": "b"}[e[0]] else {"i": ("i", 1), "f": ("f", Fr(1)), "s": ("S", "1")}[kind]
            other = {"s": ("S", "zz"), "i": ("i", 77), "b": ("b", not e[1]) if e[0] in "Bb" else ("b", True), "c": ("c", Fr(5), Fr(5)), "f": ("f", Fr(9))}[kind]
            shape = rng.choice([[], [1], [1, 1], [2], [0], [2, 1], [3]])
            size = int(np.prod(shape)) if shape else 1
            flat = [same if rng.random() < 0.7 else other for _ in range(size)]
            c = ("A", kind, shape, flat)
        elif fam == "npexact_list":
            e = rng.choice([("c", Fr(0), Fr(2)), ("b", rng.random() < 0.5), ("b", True)])
            same = ("C", e[1], e[2]) if e[0] == "c" else ("B", e[1])
            other = ("C", Fr(3), Fr(3)) if e[0] == "c" else ("B", not e[1])
            pick = lambda: same if rng.random() < 0.7 else rng.choice([other, ("N",), ("S", "w")])  # noqa
            c = rng.choice([("L", []), ("L", [pick()]), ("L", [("L", [pick()])]), ("L", [pick(), pick()]), ("L", [("L", [same, same]), ("L", [same])]), ("L", [same, ("L", [same])])])
            if not isinstance(flat_of(c), str) and kind_of(flat_of(c)[1]) is None:
                continue
        else:  # ragged computed under a numeric / array leaf
            kind = rng.choice(["f", "f", "i", "s"])
            def el(kind=kind, np_=False):
                t = {"f": "f" if np_ else "F", "i": "i" if np_ else "I", "s": "S"}[kind]
                return (t, pick_ref(rng, True)) if kind == "f" else (t, rng.choice([0, 1, 2])) if kind == "i" else (t, rng.choice(["a", "b"]))
            e = rng.choice([("A", kind, [2, 2], [el(np_=True) for _ in range(4)]), ("A", kind, [3], [el(np_=True) for _ in range(3)])]) if kind != "f" or rng.random() < 0.6 else el()
            c = rng.choice([("L", [("L", [el(), el()]), ("L", [el()])]), ("L", [el(), ("L", [el()])]), ("L", [("L", [el(), el()]), el()])])
        e, c, segs = embed(rng, e, c, KEYS_W if rng.random() < 0.3 else KEYS)
        opts = _opts_for(rng, atol, rtol, segs)
        if not wide_modelled(e, c) or not rec_safe2(e, c, atol, rtol):
            continue
        made += 1
        yield "W:" + fam, make_line("W", opts, e, c)


def rename_keys(t, mp):
    if t[0] == "D":
        return ("D", [(mp.get(k, k), rename_keys(v, mp)) for k, v in t[1]])
    if t[0] == "L":
        return ("L", [rename_keys(v, mp) for v in t[1]])
    return t


def rename_path(p, mp):
    return ".".join(mp.get(x, x) for x in p.split("."))


def gen_W_keys(ctx: Ctx, n):
    """arbitrary dictionary keys: the random R stream with keys renamed to dotted / 'root' / blank-holding ones, plus
    hand-shaped alias families (a key 'a.b' beside a nested a -> b; a key 'a.x' beside a forgiven 'a'; a key 'root')"""
    rng = ctx.rng
    made = 0
    while made < n:
        if rng.random() < 0.5:
            opts, e, c = gen_R_case(rng)
            if not modelled_pair(e, c) or not rec_safe(e, c, opts["atol"], opts["rtol"]):
                continue
            tgt = rng.sample(KEYS_W, len(KEYS))
            mp = {k: t for k, t in zip(KEYS, tgt) if rng.random() < 0.6}
            if len(set(mp.get(k, k) for k in KEYS)) < len(KEYS):
                continue  # keep keys unique
            e, c = rename_keys(e, mp), rename_keys(c, mp)
            fix = lambda ps: None if ps is None else [("root." + rename_path(p[5:], mp)) if p.startswith("root.") else rename_path(p, mp) for p in ps]  # noqa
            opts = dict(opts, forgive=fix(opts["forgive"]), equal_phase=fix(opts["equal_phase"]) if isinstance(opts["equal_phase"], list) else opts["equal_phase"])
            made += 1
            yield "Wk:renamed", make_line("W", opts, e, c)
            continue
        atol, rtol = pick_tols(rng, True)
        x = pick_ref(rng, True)
        good = perturb(rng, x, atol, rtol, rng.choice(["same", "at", "ulp_below"]))
        bad = perturb(rng, x, atol, rtol, rng.choice(["ulp_above", "rel_above", "far"]))
        v = lambda: ("F", rng.choice([good, bad]))  # noqa
        k1, k2 = rng.choice([("a", "b"), ("a", "x"), ("b", "0"), ("root", "a"), ("MP2", "5")])
        dotted = k1 + "." + k2
        fam = rng.choice(["both", "sibling", "rootkey", "deep", "phase"])
        phase = False
        if fam == "both":  # a key 'k1.k2' beside the nested k1 -> k2: one dotted name for two nodes
            e = ("D", [(dotted, ("F", x)), (k1, ("D", [(k2, ("F", x))]))])
            c = ("D", [(dotted, v()), (k1, ("D", [(k2, v())]))])
            forgive = rng.choice([[dotted], [k1], None, ["root." + dotted], [k2]])
        elif fam == "sibling":  # forgiving k1 must not excuse the sibling key 'k1.k2'
            e = ("D", [(k1, ("F", x)), (dotted, ("F", x))])
            c = ("D", [(k1, v()), (dotted, v())])
            forgive = rng.choice([[k1], [k1], [dotted], None, [k1, "nokey"]])
        elif fam == "rootkey":  # a key literally named 'root'
            e = ("D", [("root", ("D", [("a", ("F", x))])), ("a", ("F", x))])
            c = ("D", [("root", ("D", [("a", v())])), ("a", v())])
            forgive = rng.choice([["root"], ["root.a"], ["root.root.a"], ["a"], ["root.root"], None])
        elif fam == "deep":
            e = ("D", [(k1, ("D", [(dotted, ("F", x)), (k2, ("L", [("F", x)]))]))])
            c = ("D", [(k1, ("D", [(dotted, v()), (k2, ("L", [v()]))]))])
            forgive = rng.choice([[k1 + "." + k2], [k1 + "." + dotted], [k1 + "." + k2 + ".0"], [k1], None])
        else:
            e = ("D", [(k1, ("F", x)), (dotted, ("F", x))])
            flipg = xr_neg(good) if x != 0 else bad
            c = ("D", [(k1, ("F", rng.choice([flipg, good]))), (dotted, ("F", rng.choice([flipg, good, bad])))])
            phase = rng.choice([True, [k1], [dotted], [k1, dotted]])
            forgive = rng.choice([None, None, [k1]])
        opts = dict(atol=atol, rtol=rtol, equal_phase=phase, forgive=forgive)
        if not rec_safe2(e, c, atol, rtol):
            continue
        made += 1
        yield "Wk:" + fam, make_line("W", opts, e, c)


# ---- ProtoModel.compare and compare_molrecs ---------------------------------------------

_models = {}


def get_models():
    if _models:
        return _models
    from typing import List, Optional

    from qcelemental.models.basemodels import ProtoModel
    from qcelemental.models.types import Array

    class C19Inner(ProtoModel):
        v: float
        n: int
        tag: Optional[str] = None

    class C19Outer(ProtoModel):
        x: float
        arr: Array[float]
        inner: C19Inner
        items: List[float]
        name: str
        flag: bool
        opt: Optional[C19Inner] = None

    ns = dict(List=List, Optional=Optional, Array=Array, C19Inner=C19Inner)
    C19Inner.update_forward_refs(**ns)
    C19Outer.update_forward_refs(**ns)
    _models.update(Inner=C19Inner, Outer=C19Outer)
    return _models


def stream_models(ctx: Ctx, out: Outcome, pending):
    rng = ctx.rng
    M = get_models()
    for _ in range(ctx.scale(150, 1200)):
        atol, rtol = pick_tols(rng, True)
        x, v = pick_ref(rng, True), pick_ref(rng, True)
        arr = [pick_ref(rng, True) for _ in range(3)]
        items = [pick_ref(rng, True) for _ in range(2)]
        base = dict(x=float(x), arr=[float(a) for a in arr], inner=dict(v=float(v), n=3, tag="abc"), items=[float(a) for a in items], name="He", flag=True)
        if rng.random() < 0.4:
            base["opt"] = dict(v=1.0, n=1)
        other = copy.deepcopy(base)
        cls = rng.choice(["same", "at", "ulp_below", "ulp_above", "far"])
        site = rng.choice(["x", "arr", "inner.v", "items", "inner.n", "name", "flag", "none"])
        if site == "x":
            other["x"] = float(perturb(rng, x, atol, rtol, cls))
        elif site == "arr":
            other["arr"][1] = float(perturb(rng, arr[1], atol, rtol, cls))
        elif site == "inner.v":
            other["inner"]["v"] = float(perturb(rng, v, atol, rtol, cls))
        elif site == "items":
            other["items"][0] = float(perturb(rng, items[0], atol, rtol, cls))
        elif site == "inner.n":
            other["inner"]["n"] = 4
        elif site == "name":
            other["name"] = "Ne"
        elif site == "flag":
            other["flag"] = False
        E, C = M["Outer"](**base), M["Outer"](**other)
        forgive = rng.choice([None, None, [site], ["inner"], ["arr"]])
        opts = dict(atol=atol, rtol=rtol, equal_phase=False, forgive=forgive)
        es, cs = to_spec(E.dict()), to_spec(C.dict())
        if not rec_safe(es, cs, atol, rtol):
            continue
        pending.append(("M", make_line("R", opts, es, cs), ("model", E, C)))


def massage_oracle(d):
    """independent statement of compare_molrecs' normalisation (testing.py:512-536)"""
    d = copy.deepcopy(d)
    if "fragment_files" in d:
        d["fragment_files"] = [str(f) for f in d["fragment_files"]]
    if "fragment_separators" in d:
        d["fragment_separators"] = [None if s is None else int(s) for s in d["fragment_separators"]]
    if "provenance" in d:
        d["provenance"] = {k: v for k, v in d["provenance"].items() if k != "version"}
    if "connectivity" in d:
        d["connectivity"] = sorted((min(a, b), max(a, b), bo) for a, b, bo in d["connectivity"])
    return d


MOLS = [
    "He 0 0 0",
    "H 0 0 0\nH 0 0 0.74",
    "O 0 0 0.1\nH 0 0.75 -0.45\nH 0 -0.75 -0.45",
    "Ne 0 0 0\n--\nHe 0 0 3.5",
]


def stream_molrecs(ctx: Ctx, out: Outcome, pending):
    import qcelemental as qcel

    rng = ctx.rng
    for _ in range(ctx.scale(60, 400)):
        s = rng.choice(MOLS)
        rec = qcel.molparse.from_string(s)["qm"]
        nat = len(rec["elem"])
        if nat >= 2 and rng.random() < 0.7:
            rec["connectivity"] = [(0, 1, 1.0)] + ([(1, 2, 1.0)] if nat >= 3 and rng.random() < 0.5 else [])
        other = copy.deepcopy(rec)
        atol, rtol = pick_tols(rng, True)
        site = rng.choice(["none", "geom", "version", "bond_swap", "charge", "elem", "mass", "seps"])
        cls = rng.choice(["same", "at", "ulp_below", "ulp_above", "far"])
        if site == "geom":
            i = rng.randrange(3 * nat)
            other["geom"][i] = float(perturb(rng, Fr(float(rec["geom"][i])), atol, rtol, cls))
        elif site == "version":
            other["provenance"]["version"] = "0_0_0"
        elif site == "bond_swap" and "connectivity" in other:
            other["connectivity"] = [(b, a, bo) for a, b, bo in other["connectivity"]]
        elif site == "charge":
            other["molecular_charge"] = float(perturb(rng, Fr(float(rec["molecular_charge"])), atol, rtol, cls))
        elif site == "elem":
            other["elem"] = np.array(["Xe"] + list(other["elem"][1:]))
        elif site == "mass":
            other["mass"][0] = float(perturb(rng, Fr(float(rec["mass"][0])), atol, rtol, cls))
        elif site == "seps" and len(rec["fragment_separators"]):
            other["fragment_separators"] = [np.int64(x) for x in other["fragment_separators"]]
        forgive = rng.choice([None, None, ["geom"], ["mass"], ["provenance"]])
        opts = dict(atol=atol, rtol=rtol, equal_phase=False, forgive=forgive)
        try:
            es, cs = to_spec(massage_oracle(rec)), to_spec(massage_oracle(other))
        except ValueError:
            continue
        if not rec_safe(es, cs, atol, rtol) or not modelled_pair(es, cs):
            continue
        pending.append(("Mol", make_line("R", opts, es, cs), ("molrecs", rec, other)))



# ---- extension: ProtoModel.compare on real models (P lines), compare_molrecs on RAW records (M lines) ----


def construct_from_dict(cls, d):
    """rebuild a model from its .dict() tree without validation (replay only)"""
    amap = {f.alias: n for n, f in cls.__fields__.items()}
    dd = {amap.get(k, k): v for k, v in d.items()}
    return cls.construct(_fields_set=set(dd), **dd)


_mol_cache = {}


def _mol(s):
    import qcelemental as qcel

    if s not in _mol_cache:
        _mol_cache[s] = qcel.models.Molecule.from_data(s)
    return _mol_cache[s]


def _upd(m, **kw):
    return m.copy(update=kw)


def stream_proto(ctx: Ctx, out: Outcome, pending):
    import qcelemental as qcel

    rng = ctx.rng
    Molecule, AtomicInput, Provenance = qcel.models.Molecule, qcel.models.AtomicInput, qcel.models.Provenance
    for _ in range(ctx.scale(500, 4000)):
        atol, rtol = (None, None) if rng.random() < 0.5 else pick_tols(rng, True)
        if atol is not None and rng.random() < 0.3:
            rtol = None
        ea, er = eff_tols(dict(atol=atol, rtol=rtol))
        cls = rng.choice(["same", "at", "ulp_below", "ulp_above", "rel_above", "half", "far"])
        # (Molecule overrides .compare with a deprecated hash-based `==`: not ProtoModel.compare; it enters nested)
        which = rng.choice(["AtomicInput", "AtomicInput", "AtomicResult", "AtomicResult", "Provenance"])
        flip = False
        try:
            m = _mol(rng.choice(MOLS))
            extras = {"MP2.5 TOTAL ENERGY": -76.25, "nested": {"a.b": 1.5, "a": {"b": 2.5}}, "tags": ["x", "y"]} if rng.random() < 0.5 else None
            if extras is not None:
                m = _upd(m, extras=extras)
            site = rng.choice(["none", "geometry", "geometry", "molecular_charge", "name", "symbols", "fix_com", "extras.dot", "extras.nested", "provenance.version", "flip"])
            m2 = m
            if site == "geometry":
                g = np.array(m.geometry, copy=True)
                i, j = rng.randrange(g.shape[0]), rng.randrange(3)
                g[i, j] = float(perturb(rng, Fr(float(g[i, j])), ea, er, cls))
                m2 = _upd(m, geometry=g)
            elif site == "flip":
                m2 = _upd(m, geometry=-np.array(m.geometry))
                flip = True
            elif site == "molecular_charge":
                m2 = _upd(m, molecular_charge=float(perturb(rng, Fr(float(m.molecular_charge)), ea, er, cls)))
            elif site == "name":
                m2 = _upd(m, name="other")
            elif site == "symbols":
                m2 = _upd(m, symbols=np.array(["Xe"] + list(m.symbols[1:])))
            elif site == "fix_com":
                m2 = _upd(m, fix_com=not m.fix_com)
            elif site == "extras.dot" and extras is not None:
                ex = copy.deepcopy(extras)
                ex["MP2.5 TOTAL ENERGY"] = float(perturb(rng, Fr(-76.25), ea, er, cls))
                m2 = _upd(m, extras=ex)
            elif site == "extras.nested" and extras is not None:
                ex = copy.deepcopy(extras)
                ex["nested"][rng.choice(["a.b", "a"])] = rng.choice([float(perturb(rng, Fr(1.5), ea, er, cls)), {"b": float(perturb(rng, Fr(2.5), ea, er, cls))}])
                m2 = _upd(m, extras=ex)
            elif site == "provenance.version":
                m2 = _upd(m, provenance=_upd(m.provenance, version="0.0.0"))
            fsite = "molecule." + {"extras.dot": "extras.MP2.5 TOTAL ENERGY", "extras.nested": "extras.nested.a", "flip": "geometry"}.get(site, site)
            if which in ("AtomicInput", "AtomicResult"):
                kw = {"e_convergence": 1.0e-7, "maxiter": 50, "frozen": True, "guess": "sad"}
                a1 = AtomicInput(molecule=m, driver="energy", model={"method": "scf", "basis": "sto-3g"}, keywords=kw)
                s2 = rng.choice(["molecule", "molecule", "keywords", "driver", "basis", "none"])
                kw2 = dict(kw)
                if s2 == "keywords":
                    kw2["e_convergence"] = float(perturb(rng, Fr(1.0e-7), ea, er, cls))
                a2 = AtomicInput(molecule=m, driver="gradient" if s2 == "driver" else "energy", model={"method": "scf", "basis": "6-31g" if s2 == "basis" else "sto-3g"}, keywords=kw2)
                if s2 == "molecule":
                    a2 = _upd(a2, molecule=m2)
                else:
                    flip = False
                E, C = a1, a2
                fcand = [None, None, None, ["molecule"], ["molecule.geometry"], ["keywords"], ["driver"], ["model.basis"], ["molecule.provenance"], [fsite],
                         ["molecule.extras"], ["molecule.extras.nested.a"], ["molecule.extras.MP2"]]
                if which == "AtomicResult":
                    AtomicResult = qcel.models.AtomicResult
                    rr = -76.0265
                    props = {"return_energy": rr, "scf_total_energy": rr, "calcinfo_natom": len(m.symbols), "scf_iterations": 9}
                    s3 = rng.choice(["none", "return_result", "props", "success_extras"])
                    rr2 = float(perturb(rng, Fr(rr), ea, er, cls)) if s3 in ("return_result", "props") else rr
                    props2 = dict(props, scf_total_energy=rr2) if s3 == "props" else props
                    prov = {"creator": "prog", "version": "1.0", "routine": "r"}
                    ex1 = {"qcvars": {"CCSD(T) TOTAL ENERGY": -76.3, "MP2.5 TOTAL ENERGY": -76.25}}
                    ex2 = {"qcvars": {"CCSD(T) TOTAL ENERGY": -76.3, "MP2.5 TOTAL ENERGY": float(perturb(rng, Fr(-76.25), ea, er, cls))}} if s3 == "success_extras" else ex1
                    r1 = AtomicResult(**{**a1.dict(), **dict(properties=props, return_result=rr, success=True, provenance=prov, extras=ex1)})
                    r2 = AtomicResult(**{**a2.dict(), **dict(properties=props2, return_result=rr2 if s3 == "return_result" else rr, success=True, provenance=prov, extras=ex2)})
                    E, C = r1, r2
                    fcand += [["return_result"], ["properties"], ["properties.scf_total_energy"], ["extras.qcvars"], ["extras.qcvars.MP2"], ["extras.qcvars.MP2.5 TOTAL ENERGY"]]
            else:
                E = Provenance(creator="QCElemental", version="1.0", routine="r")
                C = Provenance(creator=rng.choice(["QCElemental", "other"]), version=rng.choice(["1.0", "1.1"]), routine="r")
                fcand = [None, None, ["version"], ["creator"]]
                flip = False
            forgive = rng.choice(fcand)
            phase = rng.choice([True, ["geometry"], ["molecule.geometry"], ["molecule"]]) if (flip or rng.random() < 0.05) else False
            opts = dict(atol=atol, rtol=rtol, equal_phase=phase, forgive=forgive)
            es, cs = to_spec(E.dict()), to_spec(C.dict())
        except ValueError:
            out.count("proto:skipped")
            continue
        if not rec_safe2(es, cs, ea, er) or not wide_modelled(es, cs):
            out.count("proto:unsafe")
            continue
        pending.append(("P:" + which, make_line("P", opts, es, cs), ("proto", E, C, which)))


def stream_molrecs_raw(ctx: Ctx, out: Outcome, pending):
    """RAW molecule records through compare_molrecs: the normalisation itself is part of the tie"""
    import qcelemental as qcel

    rng = ctx.rng
    for _ in range(ctx.scale(700, 5000)):
        s = rng.choice(MOLS)
        rec = qcel.molparse.from_string(s)["qm"]
        nat = len(rec["elem"])
        atol, rtol = (None, None) if rng.random() < 0.4 else pick_tols(rng, True)
        ea, er = eff_tols(dict(atol=atol, rtol=rtol))
        cls = rng.choice(["same", "at", "ulp_below", "ulp_above", "far"])
        bonds = []
        if nat >= 2 and rng.random() < 0.75:
            bonds = [(0, 1, 1.0)] + ([(rng.choice([0, 1]), 2, rng.choice([1.0, 2.0]))] if nat >= 3 and rng.random() < 0.7 else [])
            rec["connectivity"] = list(bonds)
        if rng.random() < 0.3:
            rec["fragment_files"] = ["a.xyz", "dir/b c.xyz"][: rng.randint(0, 2)]
        if rng.random() < 0.15:
            rec["geom"] = [float(x) for x in rec["geom"]]  # a plain list where the other side may hold an ndarray
        other = copy.deepcopy(rec)
        site = rng.choice(["none", "geom", "version", "bond_swap", "bond_perm", "bond_types", "bond_order", "bond_extra", "bond_bad", "charge", "elem", "mass",
                           "seps", "seps_float", "seps_none", "units", "prov_other", "prov_nover", "files", "key_drop", "geom_list"])
        if site == "geom":
            i = rng.randrange(3 * nat)
            g = copy.deepcopy(other["geom"])
            g[i] = float(perturb(rng, Fr(float(rec["geom"][i])), ea, er, cls))
            other["geom"] = g
        elif site == "geom_list":
            other["geom"] = [float(x) for x in other["geom"]] if isinstance(other["geom"], np.ndarray) else np.array(other["geom"])
        elif site == "version":
            other["provenance"]["version"] = "0_0_0"
        elif site == "prov_other":
            other["provenance"]["creator"] = "someone"
        elif site == "prov_nover":
            tgt = rng.choice([rec, other])
            tgt["provenance"].pop("version")
        elif site == "bond_swap" and bonds:
            other["connectivity"] = [(b, a, bo) if rng.random() < 0.7 else (a, b, bo) for a, b, bo in other["connectivity"]]
        elif site == "bond_perm" and len(bonds) >= 2:
            other["connectivity"] = list(reversed(other["connectivity"]))
        elif site == "bond_types" and bonds:
            other["connectivity"] = [(np.int64(a) if rng.random() < 0.5 else a, np.int64(b) if rng.random() < 0.5 else b, bo) for a, b, bo in other["connectivity"]]
            if rng.random() < 0.5:
                other["connectivity"] = [list(t) for t in other["connectivity"]]
        elif site == "bond_order" and bonds:
            a, b, bo = other["connectivity"][0]
            other["connectivity"][0] = (a, b, float(perturb(rng, Fr(bo), ea, er, cls)))
        elif site == "bond_extra" and nat >= 3:
            other["connectivity"] = list(other.get("connectivity", [])) + [(2, 0, 1.0)]
        elif site == "bond_bad" and bonds:
            other["connectivity"] = rng.choice([[(0, 1)], [(0, 1, 1.0, 5)], None, [5]])
        elif site == "charge":
            other["molecular_charge"] = float(perturb(rng, Fr(float(rec["molecular_charge"])), ea, er, cls))
        elif site == "elem":
            other["elem"] = np.array(["Xe"] + list(other["elem"][1:]))
        elif site == "mass":
            other["mass"][0] = float(perturb(rng, Fr(float(rec["mass"][0])), ea, er, cls))
        elif site == "seps" and len(rec["fragment_separators"]):
            other["fragment_separators"] = rng.choice([[np.int64(x) for x in other["fragment_separators"]], np.array(other["fragment_separators"]), [float(x) for x in other["fragment_separators"]]])
        elif site == "seps_float" and len(rec["fragment_separators"]):
            other["fragment_separators"] = [float(x) + rng.choice([0.25, 0.75, -0.0]) for x in other["fragment_separators"]]
            if rng.random() < 0.15:
                other["fragment_separators"] = [float("nan")]
        elif site == "seps_none":
            rec["fragment_separators"] = [None] + list(rec["fragment_separators"])
            other["fragment_separators"] = [None] + list(other["fragment_separators"]) if rng.random() < 0.7 else [0] + list(other["fragment_separators"])
        elif site == "units":
            other["units"] = "Bohr"
        elif site == "files" and "fragment_files" in other:
            other["fragment_files"] = [f + "x" for f in other["fragment_files"]] if rng.random() < 0.5 else np.array(other["fragment_files"]) if other["fragment_files"] else []
        elif site == "key_drop":
            other.pop(rng.choice(["fix_com", "elbl", "connectivity", "provenance"]), None)
        if rng.random() < 0.5:
            rec, other = other, rec
        forgive = rng.choice([None, None, None, ["geom"], ["mass"], ["provenance"], ["connectivity"], ["connectivity.0"], ["units"], ["fragment_separators"]])
        opts = dict(atol=atol, rtol=rtol, relative_geoms=rng.choice(["exact", "exact", "exact", "other"]), forgive=forgive)
        try:
            es, cs = to_spec(rec), to_spec(other)
        except ValueError:
            out.count("molrecs:skipped")
            continue
        try:
            me, mc = massage_spec(es, True), massage_spec(cs, True)
            if not rec_safe2(me, mc, ea, er) or not wide_modelled(me, mc):
                out.count("molrecs:unsafe")
                continue
        except _NoDemand:
            pass  # the normalisation raises / is outside the molrec shape: model tie only
        pending.append(("Mraw:" + site, make_line("M", opts, es, cs), ("molrecs_raw", rec, other)))
    # directed: the same bonds listed in another order (ties on the first atom included) must compare equal; a changed bond must not
    for _ in range(ctx.scale(60, 400)):
        nb = rng.randint(2, 4)
        bonds = []
        while len(bonds) < nb:
            a, b = rng.sample(range(4), 2)
            if (min(a, b), max(a, b)) not in [(min(x, y), max(x, y)) for x, y, _ in bonds]:
                bonds.append((a, b, rng.choice([1.0, 1.5, 2.0])))
        rec = {"elem": np.array(["C", "H", "H", "H"]), "connectivity": list(bonds), "units": "Bohr"}
        perm = list(bonds)
        rng.shuffle(perm)
        perm = [(b, a, bo) if rng.random() < 0.5 else (a, b, bo) for a, b, bo in perm]
        m = rng.choice(["perm", "perm", "perm", "order", "atom"])
        if m == "order":
            a, b, bo = perm[0]
            perm[0] = (a, b, bo + 0.5)
        elif m == "atom":
            a, b, bo = perm[0]
            perm[0] = (a, 4, bo)
        other = dict(rec, connectivity=perm)
        opts = dict(atol=None, rtol=None, relative_geoms="exact", forgive=None)
        pending.append(("Mraw:bond_listing", make_line("M", opts, to_spec(rec), to_spec(other)), ("molrecs_raw", rec, other)))


def known_predicate(finding, entry) -> bool:
    """the one open finding (dotted-key path aliasing) matches only the narrowly classified class it names"""
    case = finding.case if isinstance(finding.case, dict) else {}
    if entry.get("kind") != NEW_TWEAK_KIND["dotted_alias"] or case.get("classified_by") != ["dotted_alias"]:
        return False
    _, _, e, c = parse_line(case.get("line", ""))

    def dotted(t):
        return (t[0] == "D" and any("." in k or dotted(v) for k, v in t[1])) or (t[0] == "L" and any(dotted(v) for v in t[1]))

    return finding.observed == "T" and finding.expected == "F" and (dotted(e) or dotted(c))


# ======================================================================================


# --------------------------------------------------------------------------------------
# narrow numeric dtypes (oracle only: the Lean model's arrays are float64 / int64 / complex128 / bool / str)


def _narrow_case(case):
    dt = np.dtype(case["dtype"])
    exp = np.array(case["expected"], dtype=dt).reshape(tuple(case["shape"]))
    cpt = np.array(case["computed"], dtype=np.dtype(case["cdtype"])).reshape(tuple(case["shape"]))
    return exp, cpt


def narrow_check(out: Outcome, case):
    """One expected/computed pair of a narrow dtype (float32 / float16 / int32 / int16 / uint8 ...): every value is exactly
    representable, the one perturbed element is off by 2^-9 (inside atol = 1e-2 by a factor 5) or by 2^-5 (outside by a
    factor 3), so the verdict the property demands does not depend on rounding."""
    import qcelemental as qcel

    exp, cpt = _narrow_case(case)
    want = "T" if case["inside"] else "F"
    atol = 1.0e-2
    calls = [("compare_values", lambda: impl_call(qcel.testing.compare_values, exp, cpt, atol=atol, quiet=True))]
    wrap = case["wrap"]
    if wrap == "dict":
        e, c = {"a": exp, "b": 1}, {"a": cpt, "b": 1}
    elif wrap == "nested":
        e, c = {"x": {"y": [exp, "s"]}, "n": 2}, {"x": {"y": [cpt, "s"]}, "n": 2}
    else:
        e, c = [exp, 3], [cpt, 3]
    calls.append(("compare_recursive", lambda: impl_call(qcel.testing.compare_recursive, e, c, atol=atol, quiet=True)))
    for name, f in calls:
        got = canon(f())
        out.evaluations += 1
        out.count(f"narrow:{case['dtype']}->{case['cdtype']}:{'inside' if case['inside'] else 'outside'}")
        out.nontrivial("narrow" + repr(sorted(case.items())) + name)
        if got != want:
            out.violations.append(Finding("oracle:narrow_dtype_verdict", {"narrow": case, "call": name}, observed=got, expected=want,
                                          detail=f"{name} on a {case['dtype']} expected array (computed {case['cdtype']}): the one differing element is off by "
                                                 f"{'2^-9 < atol' if case['inside'] else '2^-5 > atol'} = 1e-2, verdict must be {want}"))


def stream_narrow(ctx, out: Outcome):
    rng = ctx.rng
    for _ in range(ctx.scale(400, 4000)):
        dtype = rng.choice(["float32", "float16", "float32", "float16", "int32", "int16", "uint8", "int8"])
        shape = rng.choice([[3], [2, 2], [1], [2, 3], [4]])
        n = int(np.prod(shape))
        isf = dtype.startswith("float")
        vals = [rng.randint(-7, 7) / 8.0 for _ in range(n)] if isf else [rng.randint(0, 100) for _ in range(n)]
        inside = rng.random() < 0.5
        comp = list(vals)
        k = rng.randrange(n)
        if isf:
            cdtype = rng.choice([dtype, "float64"])
            comp[k] = vals[k] + rng.choice([-1, 1]) * (2.0**-9 if inside else 2.0**-5)
        else:
            # integer expected arrays fall under the exact rule; an integer-vs-float pair that differs within the tolerance is a
            # case the statement leaves open (see ASSUMPTIONS), so the computed side stays an integer array here
            cdtype = rng.choice([dtype, "int64"])
            if not inside:
                comp[k] = comp[k] + 1
        narrow_check(out, {"dtype": dtype, "cdtype": cdtype, "shape": shape, "expected": vals, "computed": comp, "inside": inside,
                           "wrap": rng.choice(["dict", "nested", "list"])})



def run(ctx: Ctx) -> Outcome:
    out = Outcome()
    cases = []
    cases += list(gen_V(ctx, ctx.scale(20000, 90000)))
    cases += list(gen_V_fringe(ctx, ctx.scale(500, 4000)))
    cases += list(gen_E(ctx, ctx.scale(8000, 40000)))
    cases += list(gen_R(ctx, ctx.scale(20000, 90000)))
    cases += list(gen_R_directed(ctx))
    cases += list(gen_W_directed(ctx, ctx.scale(6000, 40000)))
    cases += list(gen_W_keys(ctx, ctx.scale(4000, 25000)))
    cases = [(b, l, None) for b, l in cases]
    stream_models(ctx, out, cases)
    stream_molrecs(ctx, out, cases)
    stream_proto(ctx, out, cases)
    stream_molrecs_raw(ctx, out, cases)
    stream_narrow(ctx, out)
    model = [None] * len(cases)
    if ctx.model_available:
        model = ctx.run_model(DRIVER, [l for _, l, _ in cases])
    for (block, line, via), ml in zip(cases, model):
        check_line(ctx, out, block.split(":")[0] if block.startswith("Mraw") else block, line, ml, via=via, variant_rng=ctx.rng)
    # how sharp was the edge testing?  count element pairs exactly at / one ulp around the bound
    out.exhaustive = False
    out.notes.append("all blocks sampled from VERIF_SEED; numeric cases kept only when float evaluation is exact or decided by a 2^-40 relative margin")
    return out


def replay(ctx: Ctx, case) -> Outcome:
    out = Outcome()
    if isinstance(case, dict) and "narrow" in case:
        narrow_check(out, case["narrow"])
        return out
    line = case["line"] if isinstance(case, dict) else case
    ml = ctx.run_model(DRIVER, [line])[0] if ctx.model_available else None
    via = None
    if isinstance(case, dict) and case.get("via") == "model":
        # rebuild the models from the dict trees
        M = get_models()
        _, _, e, c = parse_line(line)
        via = ("model", M["Outer"](**build(e)), M["Outer"](**build(c)))
    if isinstance(case, dict) and case.get("via") == "proto":
        import qcelemental as qcel

        _, _, e, c = parse_line(line)
        try:
            cls = getattr(qcel.models, case.get("cls", ""))
            via = ("proto", construct_from_dict(cls, build(e)), construct_from_dict(cls, build(c)), case.get("cls"))
            if enc(to_spec(via[1].dict())) != enc(e) or enc(to_spec(via[2].dict())) != enc(c):
                via = None
        except Exception:  # noqa
            via = None  # falls back to compare_recursive on the two .dict() trees with the keyword defaults (the same call path)
    if isinstance(case, dict) and case.get("via") == "molrecs_raw":
        _, _, e, c = parse_line(line)
        via = ("molrecs_raw", build(e), build(c))
    # a molrecs case replays through compare_recursive on the normalised dictionaries (same verdict path)
    check_line(ctx, out, "replay", line, ml, via=via, variant_rng=ctx.rng)
    return out
