"""C12 — alignment: optimal proper rigid motion, recovery of applied motions, mirror only on request.

Correspondence: every `B787` call (outer and the nested mirror pre-test) and every direct `kabsch_align`
call is replayed through the Lean models (`Driver/C12.lean`, ops K / B / P and, for the default atom-ordering
search `algorithm='hungarian_uno'`, M / U / O) on the very doubles the implementation saw (as exact rationals);
the eigenvector `numpy.linalg.eigh` produced is captured by wrapping `numpy.linalg.eigh` from here (no source
hook) and *certified* by the proved checker `isTopEig`; the cost matrix handed to `linear_sum_assignment`, its
reduced matrix, and the edges handed to / matchings returned by `uno` are captured by wrapping the module-level
names `align.linear_sum_assignment` and `align.uno`.
The library's own random-motion generator `util.random_rotation_matrix` is replayed through `Model/RandRot.lean` (op R) on the
three uniform numbers captured from numpy's seeded generator.
Oracle: a direct Python statement of the property on the implementation's outputs (independent of Lean).
"""
from __future__ import annotations

import contextlib
import inspect
import io
import itertools
import math
from fractions import Fraction

import numpy as np

from common import Ctx, Finding, Outcome, err_class
import c12_src

def _nx_importable() -> bool:
    """networkx on the path (./check puts the private .work/site there) — QCEL_VERIF_NO_NX=1 forces the fallback (used
    to test that the check still passes without the optional package)"""
    import os

    if os.environ.get("QCEL_VERIF_NO_NX"):
        return False
    try:
        import networkx  # noqa

        return True
    except Exception:
        return False


NX_AT_IMPORT = _nx_importable()

PROPERTY = "C12"
LEAN_TARGETS = ["QcelVerif.Props.C12", "QcelVerif.Lemmas.QuatSurj", "QcelVerif.Lemmas.RigidMotion", "QcelVerif.Props.C12Full",
                "QcelVerif.Model.UnoOrderings", "QcelVerif.Lemmas.UnoEnum", "QcelVerif.Lemmas.UnoAssemble", "QcelVerif.Props.C12Uno",
                "QcelVerif.Model.KabschUnique", "QcelVerif.Lemmas.RotUnique", "QcelVerif.Props.C12Unique",
                "QcelVerif.Props.C12Shift", "QcelVerif.Model.KabschMirror", "QcelVerif.Props.C12Mirror",
                "QcelVerif.Model.RandRot", "QcelVerif.Props.C12RandRot",
                "QcelVerif.Model.KabschAst", "QcelVerif.Model.B787Ast", "QcelVerif.Gen.KabschSrc", "QcelVerif.Gen.B787Src",
                "QcelVerif.Props.C12Src",
                "QcelVerif.Driver.C12"]
TRANSLATORS = [c12_src.gen_align_src]  # lean/QcelVerif/Gen/KabschSrc.lean, Gen/B787Src.lean <- qcelemental/molutil/align.py (ast), on every run
DRIVER = "QcelVerif/Driver/C12.lean"
THEOREMS = [
    ("QcelVerif.Kabsch.quatRot_orthogonal", "|q|^2 = 1 -> U(q) U(q)^T = I and U(q)^T U(q) = I for the nine entries written at align.py:544-552 (any commutative ring)"),
    ("QcelVerif.Kabsch.quatRot_det", "|q|^2 = 1 -> det U(q) = +1 (in general det U(q) = |q|^6): never a reflection"),
    ("QcelVerif.Kabsch.rotOf_proper", "for every p with |p|^2 != 0, U(p)/|p|^2 is orthogonal with det +1 (the rational rotations over Q, all quaternion-form rotations over R)"),
    ("QcelVerif.Kabsch.trace_identity", "q^T F(cov) q = tr(U(q) cov) for every 3x3 cov and every q: the 4x4 matrix of align.py:523-535 is the right one for the rotation of align.py:544-552"),
    ("QcelVerif.Kabsch.sumDot_eq_quad", "sum_i r_i . (c_i U(q)) = q^T F(cov(R,C)) q for any number of atoms"),
    ("QcelVerif.Kabsch.rmsd2_formula", "||R - C U(q)||^2 = sum|r|^2 + |q|^4 sum|c|^2 - 2 q^T F q (any atoms, any q); N rmsd^2 for unit q"),
    ("QcelVerif.Kabsch.posDef4_sound", "exact fraction-free pivot test positive -> quadratic form >= 0 at every 4-vector"),
    ("QcelVerif.Kabsch.isTopEig_sound", "certificate accepted -> ||q|^2-1| <= delta and p^T F p <= (q^T F q + eps)|p|^2 for every p"),
    ("QcelVerif.Kabsch.kabsch_optimal_partial", "certificate accepted -> residual of U(q) <= residual of every rotation U(p)/|p|^2 (p != 0) + 2 eps + delta(2+delta) sum|c|^2, over every ordered field (incl. Q, where the driver runs); lifted to 'every proper rotation' over R by kabsch_optimal"),
    ("QcelVerif.Kabsch.quatRot_surjective", "over R: R R^T = I and det R = 1 -> exists q with |q|^2 = 1 and quatRot q = R, for exactly the nine entries of align.py:544-552 (Shepperd construction; all four branches, incl. trace = -1)"),
    ("QcelVerif.Kabsch.quatRot_surjective_of_sqrt", "the same over every linearly ordered field in which positive elements have square roots"),
    ("QcelVerif.Kabsch.transpose_mul_of_rot", "R R^T = I and det R = 1 -> R^T R = I (via R = cofactor matrix of R), any commutative ring"),
    ("QcelVerif.Kabsch.properRot_iff_quat", "over R: (R R^T = I and det R = 1) <-> R = quatRot q for some unit quaternion q"),
    ("QcelVerif.Kabsch.kabsch_optimal", "FULL over R: certificate accepted -> residual of U(q) <= residual of EVERY proper rotation (orthogonal, det +1) + 2 eps + delta(2+delta) sum|c|^2"),
    ("QcelVerif.Kabsch.recovery_full", "over R: if some proper rotation superimposes the centred sets exactly, the certified answer has residual <= 2 eps + delta(2+delta) sum|c|^2"),
    ("QcelVerif.Kabsch.centred_le_motion", "for any matrix U and shift s and equal-length geometries: centred residual of U <= sum_i |r_i - (c_i - s) U|^2 (uncentred, as align_coordinates applies a recipe)"),
    ("QcelVerif.Kabsch.kabsch_optimal_rigid", "FULL over R: certificate accepted -> centred residual of U(q) <= residual of EVERY proper rigid motion c -> (c - s) R on the uncentred geometries + slack"),
    ("QcelVerif.Kabsch.kabschAlign_optimal", "the same on the model's output record: head-off not fired and certificate accepted -> res2 <= residual of every proper rigid motion + 2 eps + delta(2+delta) sc2"),
    ("QcelVerif.Kabsch.recovery_rigid", "over R: if the reference is the concern geometry moved by a proper rotation and a shift, the certified answer has residual <= 2 eps + delta(2+delta) sum|c~|^2"),
    ("QcelVerif.Kabsch.recovery", "if some rotation U(p)/|p|^2 superimposes the centred sets exactly, the certified answer has residual <= 2 eps + delta(2+delta) sum|c|^2"),
    ("QcelVerif.Kabsch.recipe_pointwise", "with T = cbar - U rbar and U orthogonal, (c - T)U - r = (c - cbar)U - (r - rbar): the RMSD B787 recomputes from the recipe is the one Kabsch minimised"),
    ("QcelVerif.Kabsch.centroid_shift_optimal", "for a fixed rotation the centroid-matching shift minimises the residual (completing the square)"),
    ("QcelVerif.Kabsch.shortcut_exact", "when the exact-equality head-off (align.py:483-486) fires, identity / zero shift / RMSD 0 is exact: every atom maps onto itself and the residual is 0"),
    ("QcelVerif.B787.mirror_only_on_request", "unless run_mirror and not superimposable, the held recipe never has mirror=True, whatever the trial RMSDs"),
    ("QcelVerif.B787.loop_best_le", "the trial loop ends with best <= every eligible trial RMSD, or it stopped early with best < a_convergence and run_to_completion off"),
    ("QcelVerif.B787.best_is_min", "run_to_completion: best (rounded to 1e-8 A) is <= every plain trial and every mirrored trial when the mirror pass is on"),
    ("QcelVerif.B787.sel_attains_best", "the held recipe is one of the trials and best is exactly that trial's rounded RMSD"),
    # --- the default atom-ordering search algorithm='hungarian_uno' (Props/C12Uno.lean, Model/UnoOrderings.lean)
    ("QcelVerif.Uno.enum_complete_sound", "for every k and every bipartite graph on k rows x k columns, the model's enumeration `matchings` lists exactly the perfect matchings (sub[j] = row matched to column j: length k, rows distinct and < k, every (sub[j], j) an edge) and lists each once"),
    ("QcelVerif.Uno.mem_zeroEdges", "(i,j) is in the model's edge list iff i,j < k and reduced[i,j] < uno_cutoff (np.argwhere(reducedcost < uno_cutoff), align.py:386)"),
    ("QcelVerif.Uno.optimal_is_candidate", "if the solver's (assignment, reduced matrix) is an exact C14 certificate for the k x k class cost matrix and uno_cutoff > 0, every minimum-cost complete assignment is among the enumerated candidates (via C14's optimal_on_zeros)"),
    ("QcelVerif.Uno.near_optimal_is_candidate", "same hypotheses, quantitative: every complete assignment whose cost is < optimum + uno_cutoff is among the enumerated candidates (what the cutoff is for)"),
    ("QcelVerif.Uno.rigid_copy_preserves_dist2", "c_a = r_a.A + s, c_b = r_b.A + s with A.A^T = I  =>  |c_a - c_b|^2 = |r_a - r_b|^2 (any commutative ring): a rigid copy has the same interatomic distances"),
    ("QcelVerif.Uno.true_class_cost_zero", "the class cost is (sumCC[i]-sumRR[j])^2 with sum[x] = 100 * sum of reciprocal distances from x to the atoms of its own class; if the true atom map carries the class onto the class and preserves the reciprocal-distance matrix, its within-class form is a bijection, reads back as the true map, and every entry costs exactly 0"),
    ("QcelVerif.Uno.true_class_is_candidate", "per class: exact certificate + cutoff > 0 + true map preserving class and distances => the true map restricted to the class is one of the orderings filter_hungarian_uno yields"),
    ("QcelVerif.Uno.true_map_is_candidate", "for any number of atoms and classes: if the true map is a bijection respecting labels and all reciprocal distances (exact rigid copy + permutation), every class's solver answer is an exact certificate and uno_cutoff > 0, then candidatesUno (classes, per-class matchings, product, assembly — align.py:318-328,386-400,426-431) returns a list containing [pi 0, ..., pi (n-1)]"),
    ("QcelVerif.Uno.uno_recovery_best_le", "with B787.best_is_min: if the search runs to completion over candidate list L and the true map is in L, the returned rounded RMSD is <= the trial RMSD of the true map (which Kabsch.recovery_rigid bounds by the certificate slack)"),
    # --- the uniqueness clause "for non-collinear molecules the rotation and shift are those that were applied" (Props/C12Unique.lean)
    ("QcelVerif.Kabsch.rotation_unique_of_fixes_two", "a 3x3 matrix with U U^T = I and det U = +1 that fixes (row action, as geom.dot(U)) two vectors a, b with a x b != 0 is the identity (it preserves cross products, so it fixes a x b; Cramer in the basis a, b, a x b) — every linearly ordered field"),
    ("QcelVerif.Kabsch.rotation_unique_of_fixes_two_field", "the same over EVERY field, with the non-degeneracy stated as |a x b|^2 != 0"),
    ("QcelVerif.Kabsch.rotation_unique_of_fixes_two_col", "the same in the column convention U a = a, U b = b"),
    ("QcelVerif.Kabsch.nonCollinear_iff_not_onLine", "NonCollinear c (two position vectors with a x b != 0) <-> not all position vectors of c on one line through the origin (any field)"),
    ("QcelVerif.Kabsch.nonCollinear_centre_iff", "NonCollinear (centre g) <-> the atoms of g are not all on one line through the centroid of g"),
    ("QcelVerif.Kabsch.nonCollinear_centre_iff_no_line", "for a non-empty geometry: NonCollinear (centre g) <-> the atoms are not all on one line through ANY point (the centroid of points of a line lies on it)"),
    ("QcelVerif.Kabsch.recovery_rotation_unique", "two proper rotations R1, R2 with c.R1 = c.R2 for every atom c of a NonCollinear geometry are equal"),
    ("QcelVerif.Kabsch.motion_unique", "if every reference atom r, moved to c = r.A + t (A proper) and sent through the recipe (c - T).U (U proper), comes back to r EXACTLY and the reference is non-collinear about its centroid, then U = A^T (= A^-1) and T = t"),
    ("QcelVerif.Kabsch.align_recovers_motion", "on the model's alignCoords (models/align.py:70-87): second geometry = rotated, translated and (through the atom map) shuffled copy, alignCoords false T U amap C = some R exactly, reference NonCollinear about its centroid => rotation U = A^T and shift T = t, the applied ones in the code's convention aligned = (c - shift).rotation"),
    ("QcelVerif.Kabsch.align_recovers_motion_fixed_map", "fixed (identity) atom map: additionally the shift is the one kabsch_align computes from the centroids, T = cbar - U.rbar (align.py:496)"),
    ("QcelVerif.Kabsch.kabschAlign_recovers_motion", "the same stated on the output record of the model kabschAlign for any unit eigenvector q: if its recipe superimposes the moved copy exactly, its U is A^T and its T is t"),
    ("QcelVerif.Kabsch.shift_determined_by_centroids", "for a moved copy c = r.A + t of a non-empty geometry: t = cbar - A^T rbar (centroid of the copy minus rotated centroid of the reference)"),
    ("QcelVerif.Kabsch.rotation_close_of_close_on_two", "quantitative: R1, R2 proper, |a.R1 - a.R2|^2 <= e2, |b.R1 - b.R2|^2 <= e2, |a|^2,|b|^2 <= L2, g = |a x b|^2 > 0 => g |v.R1 - v.R2|^2 <= 16 L2 e2 for every v with |v|^2 <= 1, i.e. |v.(R1-R2)| <= (4 L / sqrt g) eps; no square roots, holds over Q"),
    ("QcelVerif.Kabsch.rotation_entries_close", "hence every one of the nine entries d of R1 - R2 satisfies |a x b|^2 d^2 <= 16 L2 e2 (|d| <= C(L,g) eps with C = 4L/sqrt g)"),
    ("QcelVerif.Kabsch.recovery_rotation_close", "on a geometry: residual^2 <= e2 and |c|^2 <= L2 for every atom, NonCollinearBy m (two atoms with |a x b|^2 >= m > 0) => m |row of R1-R2|^2 <= 16 L2 e2"),
    ("QcelVerif.Kabsch.collinear_not_unique", "negative side: for a collinear centred set (all position vectors on one line through the origin) there are two DIFFERENT proper rotations agreeing on every atom (identity and the half-turn about the line)"),
    ("QcelVerif.Kabsch.rotation_determined_iff_nonCollinear", "the proper rotation is determined by its action on the atoms of c if and only if NonCollinear c: the qualifier of the property is exactly right"),
    ("QcelVerif.Kabsch.maxCross2_pos_iff", "the driver's exact margin maxCross2 c = max over pairs of |a x b|^2 is positive iff NonCollinear c"),
    ("QcelVerif.Kabsch.nonCollinearBy_iff_le_maxCross2", "for m > 0: two atoms with |a x b|^2 >= m exist iff m <= maxCross2 c (the oracle's class g >= G_MIN is NonCollinearBy G_MIN)"),
    ("QcelVerif.Kabsch.maxCross2_map_rowMul", "the margin of a rotated copy equals the margin of the original (proper rotations preserve |a x b|^2)"),
    # --- quantitative recovery of the SHIFT (Props/C12Shift.lean)
    ("QcelVerif.Kabsch.shift_error_eq", "identity, U U^T = I only: for the copy c = r.A + t and the recipe (c - T).U, T - t = p.A - p.U^T - d.U^T for every point p with d = its residual (recipe(copy p) - p): the shift error is the rotation error applied to the reference centroid plus the rotated-back centroid residual"),
    ("QcelVerif.Kabsch.centred_residual_nrm2", "|dev r - dev p|^2 = |(r-p).A - (r-p).U^T|^2 for proper U: the centred per-atom residual the harness measures is the quantity recovery_rotation_close is about (R1 = A, R2 = U^T)"),
    ("QcelVerif.Kabsch.mean_residual_eq", "the mean of the per-atom residuals (centroid of aligned atoms - centroid of reference) is the residual of the centroid (the composite map is affine)"),
    ("QcelVerif.Kabsch.nrm2_add_le_sq", "square-root-free triangle inequality: |x|^2 <= X^2, |y|^2 <= Y^2, X, Y >= 0 => |x + y|^2 <= (X + Y)^2, every linearly ordered field"),
    ("QcelVerif.Kabsch.rotation_close_of_close_on_two_any", "rotation_close_of_close_on_two for a vector v of ANY length: |a x b|^2 |v.R1 - v.R2|^2 <= 16 L2 e2 |v|^2 (over Q a vector cannot be normalised, so this is proved, not deduced from the unit-ball statement)"),
    ("QcelVerif.Kabsch.rotation_error_on_vector", "on a geometry with margin m (NonCollinearBy m), residual^2 <= e2 and |c|^2 <= L2 on every atom: m |w.R1 - w.R2|^2 <= 16 L2 e2 |w|^2 for every vector w"),
    ("QcelVerif.Kabsch.recovery_shift_close", "quantitative shift recovery: copy c = r.A + t, recipe (c - T).U, A and U proper, centred residual^2 <= e2 and |r - rbar|^2 <= L2 on every atom, two atoms with |a x b|^2 >= m > 0 about the centroid => T - t = rbar.(A - U^T) - dbar.U^T, m |rbar.(A - U^T)|^2 <= 16 L2 e2 |rbar|^2, and |T - t|^2 <= (X + Y)^2 for all X, Y >= 0 with 16 L2 e2 |rbar|^2 <= m X^2 and |dbar|^2 <= Y^2 (i.e. |T - t| <= 4 L eps |rbar| / sqrt m + |dbar|); every linearly ordered field, no square roots"),
    ("QcelVerif.Kabsch.recovery_shift_close_on_two", "the two-atom form the harness evaluates: two centred atoms a, b with |a|^2,|b|^2 <= L2, centred residuals^2 <= e2, g = |a x b|^2 > 0, any point p with residual d: |T - t|^2 <= (X + Y)^2 whenever 16 L2 e2 |p|^2 <= g X^2 and |d|^2 <= Y^2"),
    ("QcelVerif.Kabsch.recovery_shift_close_residuals", "the same with the hypotheses stated on what is measured: per-atom residuals of the recipe centred by their mean (<= e2) and the mean residual (<= Y^2)"),
    ("QcelVerif.Kabsch.centroid_nrm2_le", "the centroid of vectors of square length <= e2 has square length <= e2 (|sum|^2 <= n^2 e2 by induction, no square roots)"),
    ("QcelVerif.Kabsch.recovery_shift_close_uniform", "explicit from ONE number: |recipe(copy r) - r|^2 <= e2 for every atom (uncentred), radius L2, margin m > 0 => |T - t|^2 <= (X + Y)^2 whenever 64 L2 e2 |rbar|^2 <= m X^2 and e2 <= Y^2, i.e. |T - t| <= (8 L |rbar| / sqrt m + 1) eps"),
    ("QcelVerif.Kabsch.recovery_shift_exact", "e2 = 0 and zero mean residual => T = t (consistency with motion_unique)"),
    # --- recipes with mirror = True, and 'mirror images are matched only when requested' (Props/C12Mirror.lean)
    ("QcelVerif.Kabsch.alignCoords_true_eq", "the model mirrors first (models/align.py:80-83): alignCoords true T U amap g = alignCoords false T U amap (g with y -> -y)"),
    ("QcelVerif.Kabsch.mirror_recipe_composite", "one atom under a mirror=True recipe: (mirrorY c - T).U = c.(S.U) - T.U with S = diag(1,-1,1), and det(S.U) = -det U: one affine map with an improper linear part"),
    ("QcelVerif.Kabsch.align_recovers_motion_mirror", "mirror=True on the model's alignCoords: second geometry = mirror image (y -> -y) of the rotated, translated and (through the atom map) shuffled copy, alignCoords true T U amap C = some R exactly, reference NonCollinear about its centroid => U = A^T and T = t (those of the underlying proper motion), and the recipe's linear part S.U = (A.S)^T is the inverse of the improper map that was applied, det -1"),
    ("QcelVerif.Kabsch.align_recovers_motion_mirror_of_reference", "the other reading, second geometry = rigid copy of the MIRRORED reference c = mirrorY(r).A + t: the mirror=True recipe has U = (S A S)^T and T = mirrorY t"),
    ("QcelVerif.Kabsch.nonPlanar_iff_not_planar", "three position vectors with non-zero triple product exist iff no plane through the origin contains all position vectors (every linearly ordered field)"),
    ("QcelVerif.Kabsch.planar_mirror_is_rotation", "a planar centred set coincides with a properly rotated copy of its mirror image: there is P orthogonal with det +1 and mirrorY(a).P = a for every atom (two reflections make a rotation)"),
    ("QcelVerif.Kabsch.mirror_never_needed_for_planar", "on alignCoords: reference planar about its centroid, second geometry the mirror image of a rigid copy (any proper A, any t, any atom map of the right length) => some recipe with mirror=False and a PROPER rotation superimposes it exactly — the oracle's 'flat' exemption"),
    ("QcelVerif.Kabsch.no_rotation_onto_mirror_image", "det argument: for a non-planar set no matrix of determinant +1 maps the mirror image back atom by atom (S.P would fix three independent vectors, so det(S.P) = 1, but det(S.P) = -1)"),
    ("QcelVerif.Kabsch.chiral_needs_mirror", "on alignCoords: reference non-planar about its centroid, second geometry the mirror image of a rigid copy with atom correspondence amap => NO recipe with mirror=False (any shift, any matrix of determinant +1) superimposes it exactly with that correspondence; with B787.mirror_only_on_request: mirror images are matched only when mirror matching is requested"),
    # --- the library's random-motion generator util.random_rotation_matrix (Model/RandRot.lean, Props/C12RandRot.lean)
    ("QcelVerif.RandRot.random_rotation_is_proper", "|v|^2 = 1 and st^2 + ct^2 = 1 => M = (2 v v^T - I).R_z(theta).R_z(pi) has M M^T = I and det M = +1 (any commutative ring)"),
    ("QcelVerif.RandRot.random_rotation_is_proper_source", "the same in the source's normalisation |V|^2 = 2, M = (V V^T - I).R.R_z_pi exactly as np_rand3drot.py:60 writes it"),
    ("QcelVerif.RandRot.assemble_eq_assembleUnit", "the two forms are the same matrix when V = s v with s^2 = 2"),
    ("QcelVerif.RandRot.poleVector_nrm2", "the source's V = (sin(phi) r, cos(phi) r, w) has |V|^2 = 2 as soon as sin^2 + cos^2 = 1, r^2 = z, w^2 = 2 - z"),
    ("QcelVerif.RandRot.randomRotationMatrix_proper", "the whole model function (three numbers and deflection as arguments; sin, cos, sqrt, 2 pi as parameters): proper rotation for EVERY deflection / numbers whenever sin^2 + cos^2 = 1 at the two angles and sqrt(x)^2 = x at z and 2 - z"),
    ("QcelVerif.RandRot.randomRotationMatrix_proper_real", "over R with Real.sin, Real.cos, Real.sqrt, 2 pi: proper rotation whenever 0 <= u3 * 2 * deflection <= 2"),
    ("QcelVerif.RandRot.randomRotationMatrix_proper_unit_interval", "in particular for all deflection in [0,1], u3 in [0,1], any u1, u2"),
    ("QcelVerif.RandRot.randomRotationMatrix_deflection_zero", "deflection = 0 gives the identity matrix (docstring: 'For 0, no rotation') — what the factor R_z(pi) is for"),
    # --- align.py re-read by harness/c12_src.py on every run (Gen/KabschSrc.lean, Gen/B787Src.lean) and proved equal to the hand models (Props/C12Src.lean)
    ("QcelVerif.KabschAst.F_src", "[regenerated from align.py] the 16 assignments F[i, j] = ... of kabsch_quaternion (chained targets expanded), run in source order on np.zeros((4,4)), give in BOTH triangles the symmetric matrix Fmat(cov) of the hand model, for every cov"),
    ("QcelVerif.KabschAst.U_src", "[regenerated from align.py] the 9 assignments U[i, j] = ... of kabsch_quaternion give quatRot q of the hand model, for every q"),
    ("QcelVerif.KabschAst.kabschAlign_src_partial", "[regenerated from align.py] the translated body of kabsch_align (weight=None: array_equal head-off and its returned identity/zeros, the two centroids sum/N, np.subtract, the operands of cov = Q.dot(P.T) for the call kabsch_quaternion(C.T, R.T), TT = Ccentroid - RR.dot(Rcentroid), C.dot(RR), the matrix inside np.linalg.norm) evaluates to the hand model kabschAlign for all geometries of equal length and every q; partial: equal lengths are a hypothesis (the source divides both column sums by rgeom.shape[0])"),
    ("QcelVerif.KabschAst.kabschAlignSrc_rotation_proper", "source-derived kabsch_align, unit q, equal lengths: the returned rotation U satisfies U U^T = I, U^T U = I, det U = +1 (head-off or not)"),
    ("QcelVerif.KabschAst.dist2_recipe", "for U^T U = I and T = cbar - U rbar: squared distance between the reference and the whole concern geometry sent through (c - T).U equals the centred residual (recipe_pointwise lifted to geometries of any length)"),
    ("QcelVerif.KabschAst.kabschAlignSrc_rmsd_obtained", "source-derived kabsch_align, unit q, equal lengths, head-off not fired: the reported squared residual res2 (= N rmsd^2 / bohr2angstroms^2) is EXACTLY the squared distance between the reference and the concern geometry sent through the returned recipe (c - TT).RR - reported RMSD = RMSD obtained in exact arithmetic"),
    ("QcelVerif.KabschAst.kabschAlignSrc_shortcut_exact", "source-derived kabsch_align: when the head-off fires, identity / zero shift / residual 0 are exact (shortcut_exact restated)"),
    ("QcelVerif.KabschAst.kabschAlignSrc_optimal", "over R, source-derived kabsch_align: head-off not fired and the captured eigenvector accepted by the proved checker on the SOURCE-derived F => res2 <= residual of every proper rigid motion + 2 eps + delta(2+delta) sc2 (kabschAlign_optimal restated)"),
    ("QcelVerif.KabschAst.kabschAlignSrc_recovers_motion", "source-derived kabsch_align, unit q: if its recipe superimposes a rotated+translated copy of a reference that is non-collinear about its centroid exactly, its rotation is A^T and its shift is t (kabschAlign_recovers_motion restated)"),
    ("QcelVerif.B787Ast.filter_src", "[regenerated from align.py] the translated filter_permutative (bnbn / cncn chains over zip(s, s[1:]), itertools.permutations(cgp), np.allclose(bnbn, cncn), yield pm) evaluates to the hand model filterPermutative for all matrices, tolerances and index groups"),
    ("QcelVerif.B787Ast.candidates_src", "hence the permutative candidate list built with the source-derived filter equals the hand model's candidates"),
    ("QcelVerif.B787Ast.update_src_plain", "[regenerated from align.py] the best-so-far block of the plain trial (test temp_rmsd < best_rmsd, stores best_rmsd = temp_rmsd and hold_solution = temp_solution, break test not run_to_completion and best_rmsd < a_convergence) evaluates to the hand model's update for every state and trial"),
    ("QcelVerif.B787Ast.update_src_mir", "the same for the best-so-far block of the mirror trial"),
    ("QcelVerif.B787Ast.mirror_flags_src", "[regenerated from align.py] the plain trial builds AlignmentMill(..., mirror=False), the mirror trial mirror=True"),
    ("QcelVerif.B787Ast.loop_src", "the trial loop assembled from the two translated blocks equals the hand model's loop for all configurations, candidate lists, start indices and states"),
    ("QcelVerif.B787Ast.run_src", "B787's search over the translated blocks returns exactly what the hand model run returns (never ill-typed)"),
    ("QcelVerif.B787Ast.runSrc_mirror_only_on_request", "over the source-derived loop: unless run_mirror and not superimposable, the held recipe never has mirror=True"),
    ("QcelVerif.B787Ast.runSrc_best_is_min", "over the source-derived loop: run_to_completion => best <= every plain trial and every mirrored trial when the mirror pass is on"),
    ("QcelVerif.B787Ast.runSrc_sel_attains_best", "over the source-derived loop: the held recipe is one of the trials and best is exactly that trial's rounded RMSD (the stored map is updated together with the stored RMSD)"),
]
NX_TEXT_ABSENT = (
    "networkx is absent: algorithm='hungarian_uno' cannot run; wherever the code would ask for it (B787's mirror pre-test hard-codes the default, "
    "Molecule.align never forwards `algorithm`) the harness substitutes 'permutative' by wrapping the module-level _plausible_atom_orderings — so "
    "candidate generation by Hungarian/Uno is NOT exercised, everything downstream of the candidate list is"
)
NX_TEXT_PRESENT = (
    "networkx is available to the check (private .work/site): B787's DEFAULT search algorithm='hungarian_uno' runs unsubstituted wherever the code "
    "asks for it (explicitly, by default, in the mirror pre-test with its hard-coded uno_cutoff=0.1, in Molecule.align/scramble) and every such "
    "candidate generation is replayed through Model/UnoOrderings.lean; end to end it is exercised on shuffled rigid copies of 2-30 atoms "
    "(symmetric molecules with classes of 1-5 equivalent atoms, so up to 120 matchings per class; class sizes are bounded because ALL k! "
    "within-class maps of k equivalent atoms are candidates) with uno_cutoff in {default 1e-3, 0.1, 1e-2, 1e-5}; smaller cutoffs, cutoffs placed "
    "exactly at / one ulp above an entry of the reduced matrix, and cutoffs up to 2000 are used only on the direct route "
    "(_plausible_atom_orderings, candidate set vs model) — the property does not speak of uno_cutoff, and a cutoff at the float-noise level "
    "(~1e-20) can exclude the true map by design; uno's enumeration ORDER is not modelled: B787's result depends on it only through ties "
    "(first of several equally good maps is held; mols_align stops at the first candidate below a_convergence — the known finding), "
    "so the trial-loop model is fed the implementation's order"
)
NX_TEXT = NX_TEXT_PRESENT if NX_AT_IMPORT else NX_TEXT_ABSENT
TRUSTED_BASE = [
    "Lean 4.33 kernel + Mathlib (ring, linear_combination, linarith, nlinarith, field_simp, norm_num; Real.sqrt from Mathlib.Analysis.Real.Sqrt for the surjectivity theorem); axioms per theorem audited on every run",
    "hand-written models Model/Kabsch.lean (align.py:473-554, models/align.py:70-87) and Model/B787.lean (align.py:143-241, 296-345, 423-431), tied by differential correspondence on the generated stream; for the parts listed next the tie is NO LONGER by sampling only",
    "REGENERATED FROM THE SOURCE on every run (harness/c12_src.py, Python ast -> Gen/KabschSrc.lean, Gen/B787Src.lean) and PROVED equal to the hand model for all inputs (Props/C12Src.lean): kabsch_quaternion's 16 F-assignments and 9 U-assignments (F_src, U_src); kabsch_align's weight=None body - head-off guard and return, centroids, centring, covariance operands, TT, C.dot(RR), the matrix under np.linalg.norm (kabschAlign_src_partial, equal lengths assumed); filter_permutative (filter_src); the two `if temp_rmsd < best_rmsd:` blocks of B787's trial loop incl. both stores and the break test, and the mirror= literals of the two AlignmentMill constructions (update_src_plain/mir, mirror_flags_src, loop_src, run_src). Still trusted on this link: (i) the translator harness/c12_src.py (strict: each statement / expression form is matched explicitly, anything else raises Unsupported and the check reports a broken obligation); it cancels `.T.T` itself when it reads kabsch_quaternion(C.T, R.T) / Q.dot(P.T), accepts `R *= np.sqrt(w[:, None])` with w = np.ones(...) verbatim as the identity, demands `np.linalg.norm(X) * constants.bohr2angstroms / np.sqrt(np.sum(w))`, `ew, ev = np.linalg.eigh(F)`, `q = ev[:, -1]`, the loop header over _plausible_atom_orderings_wrapper and the guard `run_mirror and not superimposable` verbatim, ignores `if verbose >= k: print(...)`, and does NOT interpret the other statements of the loop body (ocount, np.asarray(ordering), the kabsch_align / align_coordinates calls, the np.around of the trial RMSD, icgeom[:, 1] *= -1.0 - these stay hand-modelled + differential); (ii) the evaluators Model/KabschAst.lean and Model/B787Ast.lean, i.e. the numpy/Python meaning given to each constructor (A[i, j] = v on an array, .dot by shapes, broadcasting of a (3,) vector over rows, zip / s[1:] / list comprehension, itertools.permutations = the hand model's perms, np.allclose = the hand model's allcloseL, comparison and assignment of the loop's local variables); (iii) the scalar conversion norm -> RMSD (bohr2angstroms, sqrt(N)) and np.around(…, 8) are not translated. (ii) is what the three-way run (implementation / hand model op K,B,P / source-derived op KS,BS,PS on every such line, answers demanded identical) still samples",
    "numpy.linalg.eigh is NOT modelled and NOT trusted: its eigenvector is captured per call and certified by the proved checker isTopEig (exact rational arithmetic) — accepted certificate => optimality theorem applies to that call",
    "numpy elementwise IEEE arithmetic / np.linalg.norm / np.around / distance_matrix (sqrt): compared against exact rational values under stated tolerances, distance matrices and per-trial rounded RMSDs are inputs of the discrete models",
    "harness/c12.py: generators, the capture wrappers (numpy.linalg.eigh, align.kabsch_align, align.B787, align._plausible_atom_orderings, align.linear_sum_assignment, align.uno), the Python oracle (uses numpy.linalg.svd for the independent optimum)",
    "Model/KabschUnique.lean (cross product, NonCollinear, maxCross2 / collinearityMargin: definitions the theorems of Props/C12Unique.lean are about) — executed by driver op N on the reference's doubles; the harness recomputes the same number with Python integers and any difference in the value, the attaining pair or its two square norms is a model/harness disagreement (mismatch:N)",
    "hand-written model Model/UnoOrderings.lean of the hungarian_uno candidate generation (align.py:296-328, 346-400, 407-431), tied by differential correspondence per call: cost matrix handed to the solver (exact (sumCC[i]-sumRR[j])^2 from independently computed reciprocal distances vs the captured doubles, tolerance 2|a-b|d + d^2 with d = 1e-12(|a|+|b|+1)), zero-edge list (exact), set of matchings (exact, with multiplicity), candidate orderings (exact, as a multiset)",
    "the Hungarian solver (linear_sum_assignment) is property C14's subject: here its reduced matrix is an input of the model, and C14's exact checker certGap is evaluated on every class call (gap <= 1e-9 * (1 + max cost) * k demanded); theorems (b),(c) assume an EXACT certificate — the float gap between 'certGap small' and 'certOK' is not bridged by proof",
    "uno (gph_uno_bipartite.py, networkx simple_cycles etc.) is NOT modelled as an algorithm: only its output SET is, and it is compared per call with the model's proved-complete enumeration; distance_matrix / np.reciprocal (sqrt, division) are inputs of the model",
    "Model/KabschMirror.lean (reflY = diag(1,-1,1), Planar, NonPlanar, triple product, reflection through a plane): definitions the theorems of Props/C12Mirror.lean are about; the mirror=True recipes themselves are executed by the existing op K (alignCoords true) on every mirrored trial",
    "hand-written model Model/RandRot.lean of util/np_rand3drot.py:random_rotation_matrix (lines 31-60, every arithmetic step; sin, cos, sqrt and 2 pi are PARAMETERS of the model), tied by differential correspondence (driver op R) on the three uniform doubles captured from numpy's seeded generator: entrywise agreement to 1e-12 with the implementation's matrix on every case of the random-motion stream",
    "the rational approximations the driver instantiates those parameters with (Model/RandRot.lean: 40-term Taylor series for sin/cos with roundings to 2^-200, floor integer square root scaled by 4^100, 2 pi to 60 decimals) are NOT proved accurate: the driver reports, per case, how far they are from satisfying the hypotheses of randomRotationMatrix_proper (sin^2+cos^2-1 at both angles, |V|^2-2) and how far the model's own matrix is from orthogonal / det 1, and the harness demands all five <= 1e-25 (a larger defect is a model/harness disagreement, mismatch:R); numpy's sin/cos/sqrt and its Mersenne-Twister stream are third-party behaviour taken as input (the uniforms are captured, not modelled)",
]
ASSUMPTIONS = [
    "weight=None (the only way B787 calls kabsch_align); do_plot off; verbose=0",
    NX_TEXT,
    "permutative search only up to 7 atoms and class sizes <= 4 (cost n!); unrelated pairs are aligned with the fixed map only (the property speaks of a known correspondence)",
    "geometries of 2-30 atoms, pairwise distance > 0.5 bohr, coordinates within about +-12 bohr before the shift in [-10,10]^3 (pivot block: shift = pv - pv.U, redrawn until inside that cube); no 'nearly collinear' (1e-7 off-axis) inputs — exactly collinear, planar, symmetric, generic and moderately thin ones (family 'thin': atoms within w of a line, 3e-3 <= w <= 0.3 bohr, rigid copies with the fixed atom map only) are generated",
    "'mirror images are matched only when requested' is read in both directions: unrequested -> mirror flag never set (all inputs); requested + chiral generic geometry (third singular value >= 0.3 bohr) -> the mirror match is found (kind oracle:mirror_requested_not_found). Proved side (Props/C12Mirror.lean): for a reference that is non-planar about its centroid no mirror=False recipe superimposes the mirror image exactly with the applied atom correspondence (chiral_needs_mirror), and for a planar one a mirror=False recipe always does (mirror_never_needed_for_planar: the oracle's exemption of the families 'planar' and 'collinear'); NOT proved: the quantitative version (how large the RMSD of the best mirror=False recipe is for a molecule that is only nearly planar) and anything about OTHER atom correspondences (an achiral non-planar molecule such as methane is matched onto its mirror image by a different atom map)",
    "random-motion stream: deflection in {1, 0.75, 0.5, 0.3, 0.1, 0.02} (the quantifier's proper rotations as the library itself draws them), three uniform numbers from numpy's global generator seeded per case; deflection outside [0, 1] (z = u3*2*deflection may leave [0, 2] and numpy returns nan) is outside the model's domain (driver answers 'err domain') and is not generated",
    "the degenerate-atom-order mirror block generates only clearly chiral geometries (third singular value >= 0.35 bohr): for a NEARLY planar molecule with a fixed atom map, mols_align=True accepts the unmirrored trial (RMSD below a_convergence = 1e-3 A) before the mirror trial is made and B787's own 1e-4 post-check raises — the fixed-map sibling of C12-molsalign-truncation, seen once (replays/C12-6108cfd6b97c.json), reported and not generated",
    "known finding C12-molsalign-truncation: with mols_align truthy the permutation search stops at the first candidate below a_convergence; a deliberate nearly-symmetric block exercises it and the class is matched on the recorded trial RMSDs only",
    "full optimality over SO(3) is proved over R (Props/C12Full.lean: surjectivity of unit quaternions onto SO(3), optimality against every proper rotation and every proper rigid motion); over Q, where the driver executes, the comparison family is the rational rotations U(p)/|p|^2",
    "uniqueness clause (Props/C12Unique.lean): PROVED for exact superposition over every linearly ordered field (rotation = A^T, shift = t = cbar - U rbar, on the model's alignCoords, any atom map that is the applied one; NonCollinear shown necessary and sufficient), and quantitatively for a superposition to within eps (|entry of rotation - A^T| <= 4 L eps / sqrt g). The shift is now bounded quantitatively too (Props/C12Shift.lean recovery_shift_close: |T - t| <= 4 L eps |rbar| / sqrt g + |mean residual|, from the proved identity T - t = rbar (A - U^T) - dbar U^T; the harness uses the tighter of this and its former tolerance max(1e-7, hand-derived bound with an extra factor sqrt 3), i.e. outside the former singular-value class the proved bound plus float allowances IS the shift tolerance, typically 1e-11..1e-8 bohr), and the mirror=True recipe is covered (Props/C12Mirror.lean align_recovers_motion_mirror: the code mirrors first, so rotation/shift of a mirror=True recipe are those of the underlying proper motion — what the oracle compares against). Consequently, outside the former singular-value class the clauses oracle:recovery_rotation / oracle:recovery_shift hold for ANY returned recipe with that measured residual (they are theorem bounds evaluated at the measured eps): what an implementation can actually fail there is 'RMSD ~ 0' / atom-by-atom superposition / reported RMSD = applied RMSD, and a finding of the two kinds in that class would point at the harness's float allowances, not at the code (checked by a harness self-test with a deliberately inconsistent shift). NOT proved: that the floating-point aligner reaches a given eps (the residual is measured per case) and the float allowances the harness adds to the proved bounds (orthogonality defect of the returned matrix, 1e-14/1e-12 x coordinate scale)",
    "recovery of rotation and shift is demanded exactly on the class g >= G_MIN = 1e-5 bohr^4, g = max_{i<j} |(r_i - rbar) x (r_j - rbar)|^2 computed exactly by the Lean driver (op N) on the reference's doubles, and only when the returned atom map / mirror flag are the applied ones; tolerances 1e-8 (rotation entries) / 1e-7 bohr (shift) on the former singular-value class (s1 >= 0.3, s1 >= 0.03 s0 — contained in the margin class for n <= 30), and max(those, theorem bound with the measured residual + orthogonality defect) on the rest of the margin class; below the margin (exactly or nearly collinear: the family 'collinear' has g ~ 1e-28 from rounding) nothing is demanded of rotation and shift",
    "the permutative filter (np.allclose, atol=1.0) is modelled with exact rational comparison; knife-edge inputs (difference within one ulp of the tolerance) are not generated",
    "source tie of kabsch_align (Props/C12Src.lean kabschAlign_src_partial): the weight=None path only (an explicit weight vector is outside the translated body: the translator accepts the weight branch verbatim and reads `R *= np.sqrt(w[:, None])` as the identity for w = ones), geometries of equal length (B787 refuses unequal shapes at align.py:109; numpy raises at R - C); the eigenvector is supplied, as in the hand model",
]
RULE = (
    "cases = (reference geometry family {generic, planar, collinear, symmetric polyhedra/polygons, lattice, chain, thin} of 2-30 atoms with class labels, "
    "applied motion = exact rational rotation U(p)/|p|^2 from an integer quaternion (identity and tiny rotations included) x shift in [-10,10]^3 x "
    "atom permutation (<= 7 atoms) x optional mirror, or an unrelated / noisy second geometry) x call route {kabsch_align, B787 fixed map, "
    "B787 permutative, B787 run_mirror, Molecule.scramble(do_test)+Molecule.align} x flags {mols_align, run_to_completion, run_resorting}. "
    "Besides independently drawn (rotation, shift) pairs, a 'pivot' block (about a quarter of the cases, all routes and families) ties the shift "
    "to the geometry, s = pv - pv.U for a non-identity rotation about a point pv: IN PLACE about the molecule's own off-origin centroid (the two "
    "centroids coincide to ~1e-15 while neither is at the origin), about one of its atoms, about an arbitrary point; copy centred at the origin, "
    "reference centred at the origin, both; centroids opposite, equal in two Cartesian components, or 1e-8..1e-4 bohr apart; unrelated and noisy "
    "second geometries are translated into the same centroid relations (shift always kept inside [-10,10]^3). The relation actually seen by the "
    "implementation is tallied under centroids:* and the class requested under pivot:*. "
    "A 'special rotation' block (all routes): exactly 180 (also 90, 120, 270, 60) degrees about a coordinate axis, about a principal axis of the "
    "reference (given in its principal-axis frame or as is) or about a generic axis, on elongated chain-like (family 'chain'), planar, compact, "
    "symmetric, lattice and collinear molecules — the cases where the R/C covariance matrix is symmetric (tallied under special:*, with the sign "
    "of its trace). A 'mirror-degenerate-order' block: clearly chiral molecules whose three atoms listed first / last in the SECOND geometry are "
    "collinear, or whose first four are coplanar (axially chiral allene / alkyne backbones listed first), mirrored or not, run_mirror mostly "
    "requested, B787 (both searches) and Molecule routes. "
    "A 'thin' block (appended last): moderately thin molecules (atoms within w of a line, 3e-3 <= w <= 0.3 bohr, 3-30 atoms), rigid copies, "
    "kabsch_align and B787 with the fixed map, a quarter of them with pivot placements — inside the margin class g >= 1e-5 bohr^4 of the "
    "uniqueness theorems but mostly outside the former singular-value class; every rigid case sends one N line (exact margin) to the driver. "
    "Every K / B / P model line (one per kabsch_align call, per B787 trial loop, per permutative candidate generation) is sent a second time as "
    "KS / BS / PS and answered by the functions regenerated from align.py; the two answers must be identical text (three-way). "
    "A case is distinct by (family, n, motion, permutation, route, flags[, pivot class, first atom of the second geometry, special rotation, "
    "degenerate prefix]) and non-trivial when the motion is not the identity, or the pair is unrelated/noisy. "
    "A 'random motion' stream (60 quick / 600 thorough): util.random_rotation_matrix(deflection) and Molecule.scramble(do_rotate=True, "
    "do_shift=True, deflection) on 3-7 atom generic molecules with numpy's generator seeded per case; one R line per case (the model of "
    "random_rotation_matrix on the captured uniform numbers); distinct by (deflection, numpy seed, geometry)."
    + (" With networkx: four further blocks through the DEFAULT search hungarian_uno — shuffled rigid copies of 2-30 atoms via B787 (default and "
       "explicit algorithm, uno_cutoff default/1e-3/0.1/1e-2/1e-5, run_resorting on ordered atoms, symmetric molecules with classes of 1-5 "
       "equivalent atoms, pivot placements), mirror images (chiral/achiral, run_mirror on/off), Molecule.scramble+align on 5-14 atoms, and direct "
       "calls of _plausible_atom_orderings on rigid / noisy / unrelated / nearly symmetric pairs with uno_cutoff literal (1e-6 .. 2000) or placed "
       "exactly AT an entry of the reduced matrix (edge excluded by `<`) or one ulp above it (edge included); every such call yields one M line "
       "(cost matrices; every call up to 14 atoms, one in three beyond), one U line per atom class (edges, matchings, certGap) and one O line "
       "(orderings)." if NX_AT_IMPORT else "")
)
LEVEL_TEXT = (
    "source tie (Props/C12Src.lean): kabsch_quaternion's matrix constructions, kabsch_align's arithmetic (weight=None), filter_permutative and the "
    "best-so-far blocks of B787's trial loop are re-read from align.py on every run and proved equal to the hand models for all inputs (equal "
    "geometry lengths assumed for kabsch_align), and the headline theorems - returned rotation proper, reported RMSD = RMSD obtained (exact "
    "arithmetic), optimality given the certified eigen step, exact rigid copies recovered, mirror only on request, best = minimum over trials, held "
    "map = the best trial's - are restated over the source-derived functions; partial: the translator and the AST evaluators are trusted, the rest "
    "of the loop body and the float conversions stay hand-modelled + differential. "
    "proof, partial: ring-identity and ordered-field theorems for every input about the model of kabsch_quaternion/kabsch_align/"
    "align_coordinates and the B787 trial loop; optimality holds for every call whose captured eigenvector passes the proved certificate "
    "checker (checked on every generated call), against every proper rotation and every proper rigid motion over R (surjectivity of unit "
    "quaternions onto SO(3) is proved); eigh itself, the float rounding "
    "are not proved; the uniqueness clause is proved (Props/C12Unique.lean): a recipe that superimposes a rotated+translated(+shuffled) copy of a "
    "molecule that is non-collinear about its centroid EXACTLY has rotation = inverse of the applied one and shift = the applied one (= cbar - U rbar), "
    "stated on the model's alignCoords; non-collinearity is necessary and sufficient (explicit second rotation for collinear sets); and a recipe "
    "that superimposes to within eps has every rotation entry within 4 L eps / sqrt(g) of the applied inverse (g = |a x b|^2 of two atoms about the "
    "centroid, L their larger norm) and its shift within 4 L eps |rbar| / sqrt(g) + |mean residual| of the applied one "
    "(Props/C12Shift.lean recovery_shift_close, from the proved identity T - t = rbar (A - U^T) - dbar U^T; also explicit from the worst "
    "per-atom residual alone: |T - t| <= (8 L |rbar| / sqrt g + 1) eps) — partial: that the float aligner reaches a small eps is measured per "
    "case, not proved; the oracle demands recovery exactly on the class g >= 1e-5 bohr^4 with g evaluated exactly by the Lean driver, the shift "
    "tolerance outside the former singular-value class being the proved bound (tighter than the former hand-derived one); "
    "recipes with mirror=True are covered (Props/C12Mirror.lean): the model mirrors first, a mirror=True recipe that superimposes the mirror "
    "image of a rigid copy exactly has the rotation and shift of the underlying proper motion (linear part of the whole recipe = inverse of the "
    "improper map applied, det -1), uniquely for non-collinear molecules; a molecule planar about its centroid is always superimposed on its "
    "mirror image by some mirror=False recipe with a proper rotation, and for a non-planar one no mirror=False recipe does so exactly with the "
    "applied atom correspondence (det argument) — with mirror_only_on_request the clause 'mirror images are matched only when requested'; "
    "partial: exact statements only (no bound on the best unmirrored RMSD of a nearly planar chiral molecule), same atom correspondence only; "
    "the library's generator of random proper rotations util.random_rotation_matrix is modelled (Model/RandRot.lean, transcendental functions as "
    "parameters) and proved to return an orthogonal matrix of determinant +1 for every deflection and every three numbers under the source's "
    "normalisation (sin^2+cos^2 = 1, sqrt(x)^2 = x), over R with the real functions for every deflection, u3 in [0,1]; the model is tied to the "
    "code per case on the captured uniform numbers (entries to 1e-12) — numpy's sin/cos/sqrt/generator and the driver's rational approximations "
    "of them are not proved; "
    + ("the default search hungarian_uno is modelled (Model/UnoOrderings.lean) and proved, for every size, to enumerate exactly the perfect "
       "matchings of the zero-edge graph and — given an exact C14 certificate per class, a positive cutoff and an exact rigid copy + permutation — "
       "to contain the true atom map among its candidates (cost (sumCC-sumRR)^2 is exactly 0 along it), so that with best_is_min the returned RMSD "
       "is bounded by the true map's trial; partial: exactness replaces the floats there (solver certificate only certGap-small, class cost "
       "~1e-20 instead of 0, absorbed by uno_cutoff — kept differential: per-call certGap, edge list, matching set and candidate set compared "
       "exactly with the model, applied map looked up among the candidates), uno's algorithm/order and the Hungarian solver itself (C14) are not "
       "re-proved here." if NX_AT_IMPORT else
       "hungarian_uno candidate generation is modelled and proved (Props/C12Uno.lean) but NOT exercised in this run (networkx absent: 'permutative' substituted).")
)
TECHNIQUE = "Lean 4 proof (source -> AST translation of kabsch_quaternion / kabsch_align / filter_permutative / the B787 best-so-far blocks with equality proofs to the hand models + ring identities + exact certificate checker soundness + matching-enumeration completeness + rotation/shift uniqueness and stability on non-collinear sets + mirror/planarity determinant argument + properness of the random-rotation generator) + per-call certification of numpy.linalg.eigh + differential correspondence + Python oracle"

B2A = None  # filled from qcelemental.constants on first use
DELTA = Fraction(1, 10**11)  # | |q|^2 - 1 | allowed in the certificate
EPS_REL = Fraction(1, 10**11)  # eps = EPS_REL * (sum|r|^2 + sum|c|^2)  (+ tiny)

# ------------------------------------------------------------------------------------------------
# capture wrappers (installed once; active only while REC is set)

_A = None  # qcelemental.molutil.align module
_ORIG = {}
REC = None
HAVE_NX = False
_UNO_CACHE = {}  # (geometries, labels, cutoff) -> capture_uno result; the search is a deterministic function of these
UNO_SINK = None  # while a list: every linear_sum_assignment / uno call made from align.py is appended (capture_uno)


class Recorder:
    def __init__(self):
        self.stack = []
        self.calls = []  # top-level B787 calls
        self.direct = []  # kabsch_align calls outside any B787
        self.cur_kabsch = None
        self.substituted = 0
        self.plaus = []  # every hungarian_uno call of _plausible_atom_orderings: args + orderings actually yielded


def _install():
    global _A, HAVE_NX, B2A
    if _A is not None:
        return
    import qcelemental as qcel
    from qcelemental.molutil import align as A

    _A = A
    B2A = qcel.constants.bohr2angstroms
    HAVE_NX = _nx_importable()
    _ORIG["eigh"] = np.linalg.eigh
    _ORIG["lsa"] = A.linear_sum_assignment
    _ORIG["uno"] = A.uno
    _ORIG["kabsch_align"] = A.kabsch_align
    _ORIG["B787"] = A.B787
    _ORIG["plaus"] = A._plausible_atom_orderings
    sig = inspect.signature(A.B787)

    def eigh_w(a, *args, **kw):
        r = _ORIG["eigh"](a, *args, **kw)
        if REC is not None and REC.cur_kabsch is not None:
            REC.cur_kabsch["eigh"].append((np.array(a, dtype=float), np.array(r[0]), np.array(r[1])))
        return r

    def kabsch_w(rgeom, cgeom, weight=None):
        if REC is None:
            return _ORIG["kabsch_align"](rgeom, cgeom, weight=weight)
        ent = {"R": np.array(rgeom, dtype=float), "C": np.array(cgeom, dtype=float), "eigh": [], "out": None}
        prev = REC.cur_kabsch
        REC.cur_kabsch = ent
        try:
            out = _ORIG["kabsch_align"](rgeom, cgeom, weight=weight)
        finally:
            REC.cur_kabsch = prev
        ent["out"] = (float(out[0]), np.array(out[1], dtype=float), np.array(out[2], dtype=float))
        (REC.stack[-1]["kabsch"] if REC.stack else REC.direct).append(ent)
        return out

    def b787_w(*a, **k):
        if REC is None:
            return _ORIG["B787"](*a, **k)
        ba = sig.bind(*a, **k)
        ba.apply_defaults()
        ent = {"args": dict(ba.arguments), "kabsch": [], "children": [], "result": None, "error": None}
        for key in ("cgeom", "rgeom"):
            ent["args"][key] = np.array(ent["args"][key], dtype=float)
        parent = REC.stack[-1] if REC.stack else None
        REC.stack.append(ent)
        try:
            res = _ORIG["B787"](*a, **k)
            ent["result"] = res
            return res
        except BaseException as e:  # noqa
            ent["error"] = e
            raise
        finally:
            REC.stack.pop()
            (parent["children"] if parent is not None else REC.calls).append(ent)

    def plaus_w(ref, current, rgeom, cgeom, algorithm="hungarian_uno", verbose=1, uno_cutoff=1.0e-3):
        if algorithm == "hungarian_uno" and not HAVE_NX:
            algorithm = "permutative"
            if REC is not None:
                REC.substituted += 1
        gen = _ORIG["plaus"](ref, current, rgeom, cgeom, algorithm=algorithm, verbose=verbose, uno_cutoff=uno_cutoff)
        if REC is None or algorithm != "hungarian_uno":
            return gen
        ent = {"uno_cutoff": float(uno_cutoff), "yielded": []}
        (REC.stack[-1].setdefault("plaus", []) if REC.stack else REC.plaus).append(ent)

        def relay():
            for x in gen:
                ent["yielded"].append([int(v) for v in x])
                yield x

        return relay()

    def lsa_w(cost, *args, **kw):
        if UNO_SINK is None:
            return _ORIG["lsa"](cost, *args, **kw)
        if not kw.get("return_cost", False) or args:
            return _ORIG["lsa"](cost, *args, **kw)
        cin = np.array(cost, dtype=float, copy=True)
        res = _ORIG["lsa"](cost, *args, **kw)
        (rows, cols), red = res
        UNO_SINK.append(("lsa", {"cost": cin, "rows": [int(x) for x in rows], "cols": [int(x) for x in cols],
                                 "red": np.array(red, dtype=float, copy=True)}))
        return res

    def uno_w(edges, match=None, *args, **kw):
        res = _ORIG["uno"](edges, match, *args, **kw)
        if UNO_SINK is not None:
            UNO_SINK.append(("uno", {"edges": [(int(e[0]), int(e[1])) for e in edges],
                                     "match": None if match is None else [(int(m[0]), int(m[1])) for m in match],
                                     "out": [[(int(p[0]), int(p[1])) for p in m] for m in res]}))
        return res

    np.linalg.eigh = eigh_w
    A.kabsch_align = kabsch_w
    A.B787 = b787_w
    A._plausible_atom_orderings = plaus_w
    A.linear_sum_assignment = lsa_w
    A.uno = uno_w
    import qcelemental.molutil as mu

    if getattr(mu, "B787", None) is _ORIG["B787"]:
        mu.B787 = b787_w
    if getattr(mu, "kabsch_align", None) is _ORIG["kabsch_align"]:
        mu.kabsch_align = kabsch_w


def capture_uno(runiq, cuniq, R, C, uno_cutoff):
    """Run the real `_plausible_atom_orderings(..., algorithm='hungarian_uno')` to exhaustion and return
    (candidate orderings in the implementation's order, per-class records).  One record per atom class, in the order
    the classes are processed (first appearance in `runiq`): the matrix handed to `linear_sum_assignment`, its answer
    (rows, cols, reduced matrix), and the `edges` / starter match / output of `uno` — captured by wrapping the two
    module-level names `align.linear_sum_assignment` and `align.uno` (no source hook)."""
    global UNO_SINK
    _install()
    key = (np.asarray(R, dtype=float).tobytes(), np.asarray(C, dtype=float).tobytes(), tuple(str(x) for x in runiq), tuple(str(x) for x in cuniq), float(uno_cutoff))
    if key in _UNO_CACHE:
        return _UNO_CACHE[key]
    prev, UNO_SINK = UNO_SINK, []
    try:
        with contextlib.redirect_stdout(io.StringIO()):
            cands = [[int(x) for x in c] for c in
                     _ORIG["plaus"](runiq, cuniq, R, C, algorithm="hungarian_uno", verbose=0, uno_cutoff=uno_cutoff)]
        log = UNO_SINK
    finally:
        UNO_SINK = prev
    classes = []
    for kind, rec in log:
        if kind == "lsa":
            classes.append(dict(rec))
        elif kind == "uno" and classes and "edges" not in classes[-1]:
            classes[-1].update(rec)
    if len(_UNO_CACHE) > 8:
        _UNO_CACHE.clear()
    _UNO_CACHE[key] = (cands, classes)
    return cands, classes


@contextlib.contextmanager
def recording():
    global REC
    _install()
    REC = Recorder()
    try:
        with contextlib.redirect_stdout(io.StringIO()):
            yield REC
    finally:
        REC = None


# ------------------------------------------------------------------------------------------------
# small numeric helpers (oracle side: plain numpy, independent of the code under test)


def fr(x) -> str:
    f = Fraction(float(x))
    return f"{f.numerator}/{f.denominator}" if f.denominator != 1 else str(f.numerator)


def frs(arr) -> str:
    return " ".join(fr(x) for x in np.asarray(arr, dtype=float).ravel())


def parse_rat(s: str) -> Fraction:
    return Fraction(s)


def quat_rot_exact(p):
    """U(p)/|p|^2 as a float matrix from an integer quaternion (entries are correctly rounded rationals)."""
    w, x, y, z = [int(v) for v in p]
    n = w * w + x * x + y * y + z * z
    m = [
        [w * w + x * x - y * y - z * z, 2 * (x * y - w * z), 2 * (x * z + w * y)],
        [2 * (x * y + w * z), w * w - x * x + y * y - z * z, 2 * (y * z - w * x)],
        [2 * (x * z - w * y), 2 * (y * z + w * x), w * w - x * x - y * y + z * z],
    ]
    return np.array([[float(Fraction(v, n)) for v in row] for row in m])


def rots_from_quats(Q):
    Q = Q / np.linalg.norm(Q, axis=1)[:, None]
    w, x, y, z = Q[:, 0], Q[:, 1], Q[:, 2], Q[:, 3]
    M = np.empty((len(Q), 3, 3))
    M[:, 0, 0] = w * w + x * x - y * y - z * z
    M[:, 0, 1] = 2 * (x * y - w * z)
    M[:, 0, 2] = 2 * (x * z + w * y)
    M[:, 1, 0] = 2 * (x * y + w * z)
    M[:, 1, 1] = w * w - x * x + y * y - z * z
    M[:, 1, 2] = 2 * (y * z - w * x)
    M[:, 2, 0] = 2 * (x * z - w * y)
    M[:, 2, 1] = 2 * (y * z + w * x)
    M[:, 2, 2] = w * w - x * x - y * y + z * z
    return M


def apply_recipe(C, shift, rot, amap, mirror):
    X = np.array(C, dtype=float)
    if mirror:
        X[:, 1] = -X[:, 1]
    X = (X - np.asarray(shift, dtype=float)) @ np.asarray(rot, dtype=float)
    return X[np.asarray(amap, dtype=int)]


def rmsd_A(X, R):
    d = np.asarray(X) - np.asarray(R)
    return math.sqrt(float(np.sum(d * d)) / len(R)) * B2A


def svd_opt_res2(Rt, Ct):
    """min over proper rotations A of ||Rt - Ct A||_F^2 (classic Kabsch via SVD), independent of the quaternion route."""
    H = Ct.T @ Rt  # maximise tr(A^T H)
    U, s, Vt = np.linalg.svd(H)
    d = np.sign(np.linalg.det(U @ Vt))
    if d == 0:
        d = 1.0
    best = s[0] + s[1] + d * s[2]
    return float(np.sum(Rt * Rt) + np.sum(Ct * Ct) - 2 * best)


def aconv_units(mols_align) -> int:
    if mols_align is True:
        a = 1.0e-3
    elif mols_align is False:
        a = 0.0
    else:
        a = float(mols_align)
    k = int(math.ceil(a * 1e8))
    while (k - 1) / 1e8 >= a:
        k -= 1
    while k / 1e8 < a:
        k += 1
    return k


# ------------------------------------------------------------------------------------------------
# geometry generators


def min_dist(G):
    G = np.asarray(G)
    if len(G) < 2:
        return 9.0
    d = np.sqrt(((G[:, None, :] - G[None, :, :]) ** 2).sum(-1))
    d[np.diag_indices(len(G))] = 9e9
    return float(d.min())


def gen_geometry(rng, fam, n):
    """returns (n,3) float array with pairwise distance > 0.5"""
    for _ in range(200):
        if fam == "generic":
            G = np.array([[rng.uniform(-6, 6) for _ in range(3)] for _ in range(n)])
        elif fam == "decimal":  # coordinates with few decimals (typical of inputs)
            G = np.array([[round(rng.uniform(-8, 8), rng.choice([1, 2, 3, 6])) for _ in range(3)] for _ in range(n)])
        elif fam == "planar":
            a = np.array([rng.uniform(-1, 1) for _ in range(3)])
            b = np.array([rng.uniform(-1, 1) for _ in range(3)])
            o = np.array([rng.uniform(-3, 3) for _ in range(3)])
            if rng.random() < 0.4:
                a, b, o = np.array([1.0, 0, 0]), np.array([0, 0, 1.0]), np.array([0, rng.choice([0.0, 1.5]), 0])
            G = np.array([o + rng.uniform(-7, 7) * a + rng.uniform(-7, 7) * b for _ in range(n)])
        elif fam == "collinear":
            a = np.array([rng.uniform(-1, 1) for _ in range(3)])
            if rng.random() < 0.4:
                a = np.array(rng.choice([[1.0, 0, 0], [0, 1.0, 0], [0, 0, 1.0], [1.0, 1.0, 0]]))
            a = a / np.linalg.norm(a)
            o = np.array([rng.uniform(-2, 2) for _ in range(3)]) if rng.random() < 0.6 else np.zeros(3)
            ts = sorted(rng.sample(range(-12, 13), n)) if n <= 25 else list(range(-15, -15 + n))
            G = np.array([o + (0.9 * t + rng.uniform(-0.1, 0.1)) * a for t in ts])
        elif fam == "symmetric":
            G = symmetric_shape(rng, n)
        elif fam == "nearsym":
            # nearly isosceles: atoms 1 and 2 are equivalent up to d; further atoms sit on the (near-)symmetry axis
            d = rng.choice([5e-5, 3e-4, 1e-3, 1.5e-3, 1e-2])
            h = rng.uniform(0.8, 2.5)
            base = [(0.0, 0.0, 0.0), (rng.uniform(1.5, 4.0), h, 0.0)]
            base.append((base[1][0], -h - d, 0.0))
            base += [(-1.7, 0.0, 0.0), (6.1, 0.0, 0.0), (-3.9, 0.0, 0.0)]
            A0 = quat_rot_exact(gen_quat(rng))
            G = np.array(base[:n], dtype=float) @ A0 + np.array([rng.uniform(-3, 3) for _ in range(3)])
        elif fam == "lattice":
            pts = list(itertools.product(range(-2, 3), repeat=3))
            sel = rng.sample(pts, n)
            G = np.array(sel, dtype=float) * rng.choice([1.0, 1.5, 2.0])
        elif fam == "thin":
            # moderately thin, NOT collinear: atoms within w of a line, w in [3e-3, 0.3] bohr (second singular value of the centred
            # geometry ~ w, so mostly outside the former s1 >= 0.3 / s1 >= 0.03 s0 class, while the margin
            # max |r~_i x r~_j|^2 ~ (L w)^2 stays >= 1e-5: the class Props/C12Unique.lean adds to the oracle's demand)
            a = np.array([rng.uniform(-1, 1) for _ in range(3)])
            if rng.random() < 0.3:
                a = np.array(rng.choice([[1.0, 0, 0], [0, 1.0, 0], [0, 0, 1.0], [1.0, 1.0, 0]]))
            a = a / np.linalg.norm(a)
            u = np.cross(a, np.array([0.3, -0.5, 0.8]))
            u = u / np.linalg.norm(u)
            v = np.cross(a, u)
            w = 10.0 ** rng.uniform(math.log10(3e-3), math.log10(0.3))
            o = np.array([rng.uniform(-2, 2) for _ in range(3)]) if rng.random() < 0.6 else np.zeros(3)
            ts = sorted(rng.sample(range(-12, 13), n)) if n <= 25 else list(range(-15, -15 + n))
            G = np.array([o + (0.9 * t + rng.uniform(-0.1, 0.1)) * a + rng.uniform(-w, w) * u + rng.uniform(-w, w) * v for t in ts])
            k = rng.randrange(n)  # one atom at the full width, so that the width is attained
            G[k] = G[k] + w * u
        elif fam == "chain":
            # elongated, chain-like, non-collinear: zigzag / helix along an axis (second moment along the axis dominates)
            step = rng.uniform(1.0, 1.6)
            amp = rng.uniform(0.25, 0.9)
            dphi = rng.choice([math.pi, 2 * math.pi / 3, math.pi / 2, rng.uniform(0.3, 3.0)])
            G = np.array([[amp * math.cos(i * dphi + rng.uniform(-0.05, 0.05)), amp * math.sin(i * dphi + rng.uniform(-0.05, 0.05)),
                           step * i + rng.uniform(-0.1, 0.1)] for i in range(n)])
            G = G @ quat_rot_exact(gen_quat(rng)) + np.array([rng.uniform(-3, 3) for _ in range(3)])
        else:
            raise ValueError(fam)
        if G is not None and len(G) == n and min_dist(G) > 0.55:
            return np.ascontiguousarray(G, dtype=float)
    # fallback: jittered lattice always satisfies the distance constraint
    pts = list(itertools.product(range(-2, 3), repeat=3))
    sel = rng.sample(pts, n)
    return np.array(sel, dtype=float) * 1.7 + np.array([[rng.uniform(-0.2, 0.2) for _ in range(3)] for _ in range(n)])


def symmetric_shape(rng, n):
    s = rng.uniform(1.0, 3.0)
    shapes = {
        3: [[(1, 0, 0), (-0.5, math.sqrt(3) / 2, 0), (-0.5, -math.sqrt(3) / 2, 0)]],
        4: [[(1, 1, 1), (1, -1, -1), (-1, 1, -1), (-1, -1, 1)], [(1, 0, 0), (0, 1, 0), (-1, 0, 0), (0, -1, 0)]],
        5: [[(0, 0, 0), (1, 1, 1), (1, -1, -1), (-1, 1, -1), (-1, -1, 1)]],
        6: [[(1, 0, 0), (-1, 0, 0), (0, 1, 0), (0, -1, 0), (0, 0, 1), (0, 0, -1)]],
        7: [[(0, 0, 0), (1, 0, 0), (-1, 0, 0), (0, 1, 0), (0, -1, 0), (0, 0, 1), (0, 0, -1)]],
        8: [list(itertools.product((-1, 1), repeat=3))],
        12: [[(math.cos(k * math.pi / 3), math.sin(k * math.pi / 3), 0) for k in range(6)]
             + [(2.2 * math.cos(k * math.pi / 3), 2.2 * math.sin(k * math.pi / 3), 0) for k in range(6)]],
    }
    if n in shapes:
        return np.array(rng.choice(shapes[n]), dtype=float) * s
    # regular polygon (+ axis atoms)
    k = n if n < 9 else n - 2
    G = [(s * 2 * math.cos(2 * math.pi * i / k), s * 2 * math.sin(2 * math.pi * i / k), 0.0) for i in range(k)]
    if n >= 9:
        G += [(0, 0, 1.3), (0, 0, -1.3)]
    return np.array(G, dtype=float)


def gen_classes(rng, n, maxsize=None):
    """class labels (strings) per atom; with maxsize every class has at most that many atoms"""
    pool = ["H", "C", "N", "O", "F", "He", "Li", "S"]
    while True:
        k = rng.choice([1, 2, 2, 3, 3, 4])
        labs = [rng.choice(pool[:k]) for _ in range(n)]
        if maxsize is None or max(labs.count(x) for x in set(labs)) <= maxsize:
            return labs


def gen_quat(rng):
    mode = rng.random()
    if mode < 0.08:
        return (1, 0, 0, 0)
    if mode < 0.16:  # 90/180 degree rotations about axes
        return rng.choice([(0, 1, 0, 0), (0, 0, 1, 0), (0, 0, 0, 1), (1, 1, 0, 0), (1, 0, 0, 1), (1, 1, 1, 1), (0, 1, 1, 0)])
    if mode < 0.28:  # small rotations (well outside np.allclose's 1e-5 window)
        return (rng.choice([50, 200, 1000]), rng.randint(-3, 3), rng.randint(-3, 3), rng.choice([1, 2, -1]))
    if mode < 0.36:  # nearly 180 degrees (q0 small)
        return (rng.choice([0, 1]), rng.randint(-40, 40), rng.randint(-40, 40), rng.randint(1, 40))
    while True:
        p = tuple(rng.randint(-9, 9) for _ in range(4))
        if any(p):
            return p


def gen_shift(rng):
    m = rng.random()
    if m < 0.1:
        return [0.0, 0.0, 0.0]
    if m < 0.2:
        return [float(rng.choice([-10, 10, 3, -1])), 0.0, float(rng.choice([0, 10, -10]))]
    return [round(rng.uniform(-10, 10), rng.choice([1, 3, 12])) for _ in range(3)]


def hexl(arr):
    return [[float(x).hex() for x in row] for row in np.asarray(arr, dtype=float)]


def unhex(rows):
    return np.array([[float.fromhex(x) for x in row] for row in rows], dtype=float).reshape(-1, 3)


PIVOTS = ["centroid", "centroid", "centroid", "centroid", "nearcentroid", "atom", "point", "ccentroid0", "rcentroid0", "both0",
          "opposite", "axis"]
PIVOTS_PAIR = ["centroid", "centroid", "centroid", "nearcentroid", "ccentroid0", "both0", "opposite", "axis"]


def nonidentity_quat(rng):
    while True:
        p = gen_quat(rng)
        if any(p[1:]):
            return p


def tiny_vec(rng):
    m = rng.choice([1e-8, 1e-6, 1e-4])
    return np.array([rng.choice([-1.0, 0.0, 1.0, 0.5]) * m for _ in range(3)]) + np.array([m, 0.0, 0.0])


def pivot_shift(rng, R, A, pivot):
    """the shift s of the motion c = r.A + s that realises the requested relation between the two centroids /
    fixed point; a rotation about a point pv is c = (r - pv).A + pv, i.e. s = pv - pv.A"""
    cen = R.mean(0)
    if pivot in ("centroid", "both0"):  # rotation in place about the molecule's own centroid: the centroids coincide
        return cen - cen @ A
    if pivot == "nearcentroid":  # centroids differ by 1e-8 .. 1e-4 bohr
        return cen - cen @ A + tiny_vec(rng)
    if pivot == "atom":  # rotation about one of the atoms (that atom is a fixed point)
        pv = R[rng.randrange(len(R))]
        return pv - pv @ A
    if pivot == "point":  # rotation about an arbitrary point of space
        pv = np.array([round(rng.uniform(-5, 5), rng.choice([0, 1, 6])) for _ in range(3)])
        return pv - pv @ A
    if pivot == "ccentroid0":  # the copy ends up centred at the origin
        return -(cen @ A)
    if pivot == "opposite":  # the copy's centroid is minus the reference's
        return -cen - cen @ A
    if pivot == "axis":  # centroids coincide in two Cartesian components, differ in the third
        e = np.zeros(3)
        e[rng.randrange(3)] = rng.choice([-3.0, -0.5, 0.25, 2.0, 7.5])
        return cen - cen @ A + e
    if pivot == "rcentroid0":  # reference centred at the origin, generic shift
        return np.array(gen_shift(rng))
    raise ValueError(pivot)


def pair_target_centroid(rng, R, pivot):
    cen = R.mean(0)
    if pivot in ("ccentroid0", "both0"):
        return np.zeros(3)
    if pivot == "opposite":
        return -cen
    if pivot == "nearcentroid":
        return cen + tiny_vec(rng)
    if pivot == "axis":
        e = np.zeros(3)
        e[rng.randrange(3)] = rng.choice([-3.0, -0.5, 0.25, 2.0])
        return cen + e
    return cen


def principal_axes(G):
    """eigenvectors (columns) of the unit-weighted second-moment tensor about the centroid"""
    X = np.asarray(G, dtype=float) - np.mean(G, axis=0)
    _, V = np.linalg.eigh(X.T @ X)
    if np.linalg.det(V) < 0:
        V[:, 0] = -V[:, 0]
    return V


def rodrigues(axis, deg):
    """proper rotation by `deg` degrees about `axis` (float matrix; exact 0/+-1 entries for coordinate axes and multiples of 90)"""
    a = np.asarray(axis, dtype=float)
    a = a / np.linalg.norm(a)
    th = math.radians(deg)
    c, sn = (round(math.cos(th)), round(math.sin(th))) if deg % 90 == 0 else (math.cos(th), math.sin(th))
    Kx = np.array([[0, -a[2], a[1]], [a[2], 0, -a[0]], [-a[1], a[0], 0]])
    return c * np.eye(3) + sn * Kx + (1 - c) * np.outer(a, a)


SPECIAL_ANGLES = [180, 180, 180, 180, 90, 120, 270, 60]


def gen_special(rng):
    return {"frame": rng.choice(["principal", "principal", "asis"]), "axis": rng.choice(["coord", "principal", "principal", "generic"]),
            "k": rng.randrange(3), "deg": rng.choice(SPECIAL_ANGLES)}


def special_rotation(rng, R, special):
    """the rotation matrix A (row-vector convention c = r.A + s) of a special motion: exactly 180 / 90 / 120 ... degrees about a
    coordinate axis, about a principal axis of the reference, or about a generic axis"""
    if special["axis"] == "coord":
        ax = np.eye(3)[special["k"]]
    elif special["axis"] == "principal":
        ax = principal_axes(R)[:, special["k"]]
    else:
        while True:
            ax = np.array([rng.uniform(-1, 1) for _ in range(3)])
            if np.linalg.norm(ax) > 0.2:
                break
    return np.ascontiguousarray(rodrigues(ax, special["deg"]).T)


def degenerate_prefix(rng, B, kind):
    """make the listed-first (or listed-last) atoms of B degenerate: three collinear, or four coplanar; None if the distance
    constraint cannot be kept"""
    B = np.array(B, dtype=float)
    n = len(B)
    idx = list(range(n)) if kind in ("first3", "coplanar4") else list(range(n - 1, -1, -1))
    for _ in range(40):
        G = B.copy()
        if kind in ("first3", "last3"):
            u = np.array([rng.uniform(-1, 1) for _ in range(3)])
            u = u / (np.linalg.norm(u) or 1.0)
            if rng.random() < 0.3:
                u = np.eye(3)[rng.randrange(3)]
            t1, t2 = rng.uniform(0.9, 1.6), rng.uniform(2.0, 3.2)
            if rng.random() < 0.5:
                t1 = -t1  # middle atom of the triple listed first / second
            G[idx[1]] = G[idx[0]] + t1 * u
            G[idx[2]] = G[idx[0]] + t2 * u
        else:
            a, b = rng.uniform(-1.5, 1.5), rng.uniform(-1.5, 1.5)
            G[idx[3]] = G[idx[0]] + a * (G[idx[1]] - G[idx[0]]) + b * (G[idx[2]] - G[idx[0]])
        if min_dist(G) > 0.55:
            return G
        B = B + np.array([[rng.uniform(-0.3, 0.3) for _ in range(3)] for _ in range(n)])
    return None


def case_rotation(case):
    """the applied rotation matrix A (c = r.A + s) of a rigid case"""
    if "rotfloat" in case:
        return unhex(case["rotfloat"]).reshape(3, 3)
    return quat_rot_exact(case["quat"])


def make_case(rng, route, fam, n, *, related="rigid", perm=False, mirror=False, flags=None, maxclass=None, tag=None, pivot=None,
              special=None, prefix=None, labs=None):
    R = gen_geometry(rng, fam, n)
    labs = list(labs) if labs is not None else ["O", "H", "H", "C", "N", "F"][:n] if fam == "nearsym" else gen_classes(rng, n, maxclass)
    pm_pre = None
    if prefix:
        # the SECOND geometry's atom order is C[i] = moved(R[pm[i]]): the degenerate atoms must be listed first/last THERE
        pm_pre = list(range(n))
        if perm:
            rng.shuffle(pm_pre)
        # clearly chiral geometries only (third singular value >= 0.35 bohr, cf. ASSUMPTIONS): a NEARLY planar molecule nearly
        # coincides with its mirror image, and mols_align=True then accepts the unmirrored trial below a_convergence before
        # the mirror trial is made (the fixed-map sibling of known finding C12-molsalign-truncation; seen on seed 3)
        Bd = None
        for _ in range(60):
            Bd = degenerate_prefix(rng, R, prefix)
            if Bd is not None and len(Bd) >= 4 and collinearity(Bd)[2] >= 0.35:
                break
            Bd = None
            R = gen_geometry(rng, fam, n)
        if Bd is not None:
            R = np.empty_like(Bd)
            for i in range(n):
                R[pm_pre[i]] = Bd[i]
            R = np.ascontiguousarray(R)
    if special and special.get("frame") == "principal":
        cen = R.mean(0)
        R = np.ascontiguousarray((R - cen) @ principal_axes(R) + (cen if rng.random() < 0.6 else 0.0))
    case = {"route": route, "fam": fam, "n": n, "related": related, "runiq": labs, "flags": dict(flags or {}), "R": hexl(R)}
    if tag:
        case["tag"] = tag
    if special:
        case["special"] = dict(special)
    if prefix:
        case["prefix"] = prefix
    if pivot:
        # placement of the reference: centred at the origin, or with its centroid well away from it
        case["pivot"] = pivot
        if pivot in ("rcentroid0", "both0"):
            R = R - R.mean(0)
        elif related == "rigid" and (float(np.max(np.abs(R.mean(0)))) < 0.3 or rng.random() < 0.5):
            R = R + np.array([round(rng.uniform(-4, 4), 1) or 1.5 for _ in range(3)])
        if route == "molecule":  # what Molecule(geometry=...) keeps (float_prep, 8 decimals): the motion is built on those numbers
            R = np.around(R, 8)
            R[np.abs(R) < 5.0 ** (-9)] = 0.0
        R = np.ascontiguousarray(R, dtype=float)
        case["R"] = hexl(R)
    if related in ("rigid", "noisy", "near"):
        p = gen_quat(rng)
        s = gen_shift(rng)
        Asp = special_rotation(rng, R, special) if special else None
        if pivot:
            for attempt in range(60):
                p = nonidentity_quat(rng) if attempt < 59 else (50, 1, 2, 1)
                s = [float(x) for x in pivot_shift(rng, R, Asp if Asp is not None else quat_rot_exact(p), pivot)]
                if max(abs(x) for x in s) <= 10.0:  # the quantifier's shift range
                    break
            else:
                if Asp is not None:
                    s = gen_shift(rng)
        if related == "near":
            p = (1, 0, 0, 0)
            # geometry away from the coordinate planes so that rtol*|c| dominates
            R = R + np.sign(R + 1e-9) * 2.0
            R = R + np.array([rng.choice([0.0, 4.0]), 0.0, 0.0])
            if min_dist(R) <= 0.55:
                R = gen_geometry(rng, "lattice", n) * 1.0 + 7.0
            case["R"] = hexl(R)
            s = [rng.choice([1e-6, 2e-5, -1e-5]), rng.choice([0.0, 1e-5]), 0.0]
        A = quat_rot_exact(p)
        if Asp is not None:
            A = Asp
            p = (0, 0, 0, 0)  # marker: the rotation is the float matrix stored under "rotfloat"
            case["rotfloat"] = hexl(A)
        C0 = R @ A + np.array(s)
        if related == "near" and rng.random() < 0.4:  # tiny rotation instead of tiny shift
            th = rng.choice([2e-6, 5e-6])
            A = np.array([[math.cos(th), -math.sin(th), 0], [math.sin(th), math.cos(th), 0], [0, 0, 1.0]])
            s = [0.0, 0.0, 0.0]
            C0 = R @ A
            case["rotfloat"] = hexl(A)
        if related == "noisy":
            amp = rng.choice([1e-6, 1e-3, 0.05, 0.3])
            C0 = C0 + np.array([[rng.uniform(-amp, amp) for _ in range(3)] for _ in range(n)])
            if pivot and pivot != "rcentroid0":  # the noise moved the centroid: put it back where the pivot class wants it
                C0 = C0 + ((R @ A + np.array(s)).mean(0) - C0.mean(0))
        if mirror:
            C0 = C0.copy()
            C0[:, 1] = -C0[:, 1]
        pm = list(range(n))
        if pm_pre is not None:
            pm = pm_pre
        elif perm:
            rng.shuffle(pm)
        C = C0[pm]
        case.update({"quat": list(p), "shift": [float(x).hex() for x in s], "perm": pm, "mirrored": bool(mirror),
                     "C": hexl(C), "cuniq": [labs[i] for i in pm]})
    else:  # unrelated second geometry, same classes, fixed map
        C = gen_geometry(rng, rng.choice(["generic", "decimal", "planar", "lattice"]), n)
        if pivot and pivot != "rcentroid0":  # unrelated geometry translated so that the centroids are in the requested relation
            tgt = pair_target_centroid(rng, R, pivot)
            for _ in range(20):
                C = C - C.mean(0) + tgt
                if float(np.max(np.abs(C))) <= 12.5:
                    break
                C = gen_geometry(rng, rng.choice(["generic", "decimal", "planar", "lattice"]), n)
            C = np.ascontiguousarray(C - C.mean(0) + tgt, dtype=float)
        case.update({"C": hexl(C), "cuniq": list(labs), "perm": list(range(n)), "mirrored": False})
    return case


ELEMENT_OF = {"H": "H", "C": "C", "N": "N", "O": "O", "F": "F", "He": "He", "Li": "Li", "S": "S"}


def gen_cases(ctx: Ctx):
    rng = ctx.rng
    fams = ["generic", "decimal", "planar", "collinear", "symmetric", "lattice"]
    sc = lambda q, t: ctx.scale(q, t)  # noqa
    # --- K: direct kabsch_align
    for _ in range(sc(600, 2500)):
        fam = rng.choice(fams)
        n = rng.randint(2, 30)
        rel = rng.choice(["rigid", "rigid", "unrelated", "noisy"])
        yield make_case(rng, "kabsch", fam, n, related=rel)
    # --- F: B787, fixed map (atoms_map=True): all sizes, rigid / unrelated / noisy
    for _ in range(sc(1600, 7000)):
        fam = rng.choice(fams)
        n = rng.randint(2, 30)
        rel = rng.choice(["rigid", "rigid", "rigid", "unrelated", "noisy"])
        fl = {"atoms_map": True, "mols_align": rng.choice([False, False, True]) if rel == "rigid" else False}
        yield make_case(rng, "b787", fam, n, related=rel, flags=fl)
    # --- P: B787 permutative, <= 7 atoms, shuffled rigid copies
    for _ in range(sc(600, 2600)):
        fam = rng.choice(fams)
        n = rng.randint(2, 7)
        fl = {"atoms_map": False, "algorithm": "permutative",
              "mols_align": rng.choice([False, True, True, 1e-5]), "run_to_completion": rng.random() < 0.3}
        yield make_case(rng, "b787", fam, n, related="rigid", perm=True, flags=fl, maxclass=4)
    # --- P': ONE large class (5-7 atoms of one kind, optionally one odd atom out): the full n! enumeration of a like-atom space,
    #         every shuffle equally likely (the blocks above cap classes at 4-5 atoms, i.e. at most 120 orderings per space)
    for _ in range(sc(60, 300)):
        n = rng.randint(5, 7)
        labs = [rng.choice(["Ar", "H", "C"])] * n
        if n < 7 and rng.random() < 0.3:
            labs[rng.randrange(n)] = "O"
        fl = {"atoms_map": False, "algorithm": "permutative", "mols_align": rng.choice([False, True, True]), "run_to_completion": rng.random() < 0.2}
        yield make_case(rng, "b787", rng.choice(["generic", "decimal", "generic", "lattice"]), n, related="rigid", perm=True, flags=fl, labs=labs, tag="bigclass")
    # run_resorting with a fixed map (resorting machinery although atoms are ordered)
    for _ in range(sc(120, 600)):
        n = rng.randint(2, 6)
        fl = {"atoms_map": True, "run_resorting": True, "algorithm": "permutative", "mols_align": rng.choice([False, True])}
        yield make_case(rng, "b787", rng.choice(fams), n, related="rigid", perm=False, flags=fl, maxclass=3)
    # --- M: mirror images (chiral: generic/decimal n>=4; achiral: planar/collinear/symmetric)
    for _ in range(sc(500, 2200)):
        fam = rng.choice(["generic", "decimal", "generic", "planar", "collinear", "symmetric"])
        n = rng.randint(4, 6) if fam in ("generic", "decimal") else rng.randint(2, 6)
        mirrored = rng.random() < 0.7
        run_mirror = rng.random() < 0.65
        perm = rng.random() < 0.6
        sure = (not mirrored) or fam in ("planar", "collinear") or (fam == "generic" and run_mirror)
        fl = {"atoms_map": not perm, "algorithm": "permutative", "run_mirror": run_mirror,
              "mols_align": rng.choice([False, True]) if sure else False,
              "run_to_completion": rng.random() < 0.2}
        yield make_case(rng, "b787", fam, n, related="rigid", perm=perm, mirror=mirrored, flags=fl, maxclass=3, tag="mirror")
    # --- S: nearly symmetric molecules: an almost-equivalent wrong atom map exists (mols_align truncation)
    for _ in range(sc(80, 400)):
        n = rng.randint(3, 6)
        # a FLOAT mols_align is the caller's own convergence criterion: below the near-symmetric distortion (1e-6, 1e-7 A) the search
        # must go on to the applied map (RMSD ~ 0); at 1e-3 it behaves like True (the known truncation class)
        fl = {"atoms_map": False, "algorithm": "permutative", "mols_align": rng.choice([True, True, 1e-3, False, 1e-6, 1e-7]),
              "run_to_completion": rng.random() < 0.15}
        yield make_case(rng, rng.choice(["b787", "b787", "molecule"]) if fl["mols_align"] not in (1e-6, 1e-7) else "b787", "nearsym", n, related="rigid", perm=True, flags=fl, tag="nearsym")
    # --- N: near-coincident geometries (np.allclose head-off)
    for _ in range(sc(80, 300)):
        n = rng.randint(2, 12)
        yield make_case(rng, rng.choice(["b787", "kabsch"]), rng.choice(["generic", "lattice", "decimal"]), n, related="near",
                        flags={"atoms_map": True}, tag="near")
    # --- W: Molecule.scramble(do_test) + Molecule.align wrappers
    for _ in range(sc(250, 1200)):
        fam = rng.choice(["generic", "decimal", "planar", "symmetric", "lattice", "collinear"])
        n = rng.randint(2, 6)
        perm = rng.random() < 0.5
        mirrored = rng.random() < 0.3 and n >= 4 and fam in ("generic", "planar")
        fl = {"run_mirror": mirrored or rng.random() < 0.15, "run_resorting": rng.random() < 0.2}
        yield make_case(rng, "molecule", fam, n, related="rigid", perm=perm, mirror=mirrored, flags=fl, maxclass=3)
    # --- O: motions whose shift is tied to the geometry (every other block draws rotation and shift independently, so the
    #        two centroids are never in any special relation): rotation IN PLACE about the molecule's own off-origin centroid
    #        (centroids coincide), about an atom / an arbitrary point, copy or reference centred at the origin, centroids
    #        opposite / equal in two components / 1e-8..1e-4 apart; and unrelated or noisy pairs translated likewise.
    #        All routes, all families.
    for _ in range(sc(1400, 5600)):
        u = rng.random()
        fam = rng.choice(fams)
        if u < 0.24:
            rel = rng.choice(["rigid", "rigid", "unrelated", "noisy"])
            pv = rng.choice(PIVOTS if rel == "rigid" else PIVOTS_PAIR)
            yield make_case(rng, "kabsch", fam, rng.randint(2, 30), related=rel, pivot=pv, tag="pivot")
        elif u < 0.58:
            rel = rng.choice(["rigid", "rigid", "rigid", "unrelated", "noisy"])
            pv = rng.choice(PIVOTS if rel == "rigid" else PIVOTS_PAIR)
            fl = {"atoms_map": True, "mols_align": rng.choice([False, False, True]) if rel == "rigid" else False}
            yield make_case(rng, "b787", fam, rng.randint(2, 30), related=rel, flags=fl, pivot=pv, tag="pivot")
        elif u < 0.76:
            fl = {"atoms_map": False, "algorithm": "permutative",
                  "mols_align": rng.choice([False, True, True, 1e-5]), "run_to_completion": rng.random() < 0.3}
            yield make_case(rng, "b787", fam, rng.randint(2, 7), related="rigid", perm=True, flags=fl, maxclass=4,
                            pivot=rng.choice(PIVOTS), tag="pivot")
        elif u < 0.86:
            fam = rng.choice(["generic", "decimal", "generic", "planar", "collinear", "symmetric"])
            n = rng.randint(4, 6) if fam in ("generic", "decimal") else rng.randint(2, 6)
            mirrored = rng.random() < 0.7
            run_mirror = rng.random() < 0.65
            perm = rng.random() < 0.6
            sure = (not mirrored) or fam in ("planar", "collinear") or (fam == "generic" and run_mirror)
            fl = {"atoms_map": not perm, "algorithm": "permutative", "run_mirror": run_mirror,
                  "mols_align": rng.choice([False, True]) if sure else False,
                  "run_to_completion": rng.random() < 0.2}
            yield make_case(rng, "b787", fam, n, related="rigid", perm=perm, mirror=mirrored, flags=fl, maxclass=3,
                            pivot=rng.choice(PIVOTS), tag="pivot-mirror")
        else:
            fam = rng.choice(["generic", "decimal", "planar", "symmetric", "lattice", "collinear"])
            n = rng.randint(2, 6)
            perm = rng.random() < 0.5
            mirrored = rng.random() < 0.3 and n >= 4 and fam in ("generic", "planar")
            fl = {"run_mirror": mirrored or rng.random() < 0.15, "run_resorting": rng.random() < 0.2}
            yield make_case(rng, "molecule", fam, n, related="rigid", perm=perm, mirror=mirrored, flags=fl, maxclass=3,
                            pivot=rng.choice(PIVOTS), tag="pivot")
    # --- SR: special rotations — exactly 180 (also 90, 120, 270, 60) degrees about coordinate axes, about principal axes of
    #         the reference (given in its principal-axis frame or as is) and about generic axes, on elongated chain-like,
    #         planar, compact and symmetric molecules: there the R/C covariance matrix is symmetric, q = (1,0,0,0) is an
    #         eigenvector of F but not the leading one, eigenvalues of F pair up
    for _ in range(sc(700, 3000)):
        fam = rng.choice(["chain", "chain", "chain", "planar", "generic", "decimal", "symmetric", "lattice", "collinear"])
        sp = gen_special(rng)
        u = rng.random()
        pv = rng.choice(PIVOTS) if rng.random() < 0.3 else None
        nlo = 3 if fam == "chain" else 2
        if u < 0.3:
            yield make_case(rng, "kabsch", fam, rng.randint(nlo, 30), related="rigid", special=sp, pivot=pv, tag="special-rotation")
        elif u < 0.65:
            fl = {"atoms_map": True, "mols_align": rng.choice([False, False, True])}
            yield make_case(rng, "b787", fam, rng.randint(nlo, 30), related="rigid", flags=fl, special=sp, pivot=pv, tag="special-rotation")
        elif u < 0.88:
            fl = {"atoms_map": False, "mols_align": rng.choice([False, True, True, 1e-5]), "run_to_completion": rng.random() < 0.3}
            if not HAVE_NX or rng.random() < 0.5:
                fl["algorithm"] = "permutative"
            big = "algorithm" not in fl and fam in ("chain", "generic", "decimal")  # default search: larger molecules
            n = rng.randint(nlo, 14 if big else 7)
            yield make_case(rng, "b787", fam, n, related="rigid", perm=True, flags=fl, maxclass=(5 if big else 4),
                            special=sp, pivot=pv, tag="special-rotation")
        else:
            fl = {"run_mirror": rng.random() < 0.15, "run_resorting": rng.random() < 0.2}
            yield make_case(rng, "molecule", fam, rng.randint(nlo, 6), related="rigid", perm=rng.random() < 0.5, flags=fl, maxclass=3,
                            special=sp, pivot=pv, tag="special-rotation")
    # --- MD: mirror images of chiral molecules whose atom ORDER is degenerate in the second geometry: the three atoms listed
    #         first (or last) are collinear, or the first four coplanar (axially chiral allenes X2C=C=CY2, X-C#C-..., listed
    #         backbone first); run_mirror mostly requested
    for _ in range(sc(300, 1300)):
        n = rng.randint(5, 7)
        mirrored = rng.random() < 0.8
        run_mirror = rng.random() < 0.8
        perm = rng.random() < 0.6
        sure = (not mirrored) or run_mirror
        fl = {"atoms_map": not perm, "run_mirror": run_mirror, "mols_align": rng.choice([False, True]) if sure else False,
              "run_to_completion": rng.random() < 0.2}
        if not HAVE_NX or rng.random() < 0.5:
            fl["algorithm"] = "permutative"
        yield make_case(rng, "b787", "generic", n, related="rigid", perm=perm, mirror=mirrored, flags=fl, maxclass=3,
                        prefix=rng.choice(["first3", "first3", "last3", "coplanar4"]), tag="mirror-degenerate-order",
                        pivot=(rng.choice(PIVOTS) if rng.random() < 0.2 else None))
    for _ in range(sc(60, 300)):
        n = rng.randint(5, 6)
        mirrored = rng.random() < 0.7
        fl = {"run_mirror": mirrored or rng.random() < 0.3, "run_resorting": rng.random() < 0.2}
        yield make_case(rng, "molecule", "generic", n, related="rigid", perm=rng.random() < 0.5, mirror=mirrored, flags=fl, maxclass=3,
                        prefix=rng.choice(["first3", "last3", "coplanar4"]), tag="mirror-degenerate-order")
    def thin_block():
        # --- T: moderately thin (nearly but not collinear) molecules, rigid copies, known atom map: the margin class of
        #        Props/C12Unique.lean beyond the former singular-value class (appended after every other block)
        for _ in range(sc(260, 1200)):
            n = rng.randint(3, 30)
            if rng.random() < 0.4:
                yield make_case(rng, "kabsch", "thin", n, related="rigid", tag="thin",
                                pivot=(rng.choice(PIVOTS) if rng.random() < 0.25 else None))
            else:
                fl = {"atoms_map": True, "mols_align": rng.choice([False, False, True])}
                yield make_case(rng, "b787", "thin", n, related="rigid", flags=fl, tag="thin",
                                pivot=(rng.choice(PIVOTS) if rng.random() < 0.25 else None))

    if not HAVE_NX:
        yield from thin_block()
        return
    # ================= blocks that need networkx: B787's DEFAULT search algorithm='hungarian_uno' =================
    # (appended after every other block, so the stream above is the same with and without networkx)

    def sym_n():
        n = rng.choice([3, 4, 4, 5, 6, 6, 7, 8, 8, 10, 12])
        return n, (5 if n <= 6 else 4 if n <= 8 else 3)  # class sizes bounded: all k! within-class maps are candidates

    # --- U: shuffled rigid copies through the default search, 2-30 atoms; symmetric molecules with classes of 1-5
    #        equivalent atoms (several matchings per class); default / explicit algorithm; uno_cutoff default or given
    for _ in range(sc(650, 3400)):
        fam = rng.choice(["generic", "generic", "decimal", "planar", "collinear", "lattice", "symmetric", "symmetric", "symmetric"])
        if fam == "symmetric":
            n, mc = sym_n()
        else:
            n, mc = rng.randint(2, 30), rng.choice([None, None, 6, 3, 2])
            if mc is not None and n > 4 * mc:
                mc = None
        fl = {"atoms_map": False, "mols_align": rng.choice([False, True, True, 1e-5]), "run_to_completion": rng.random() < 0.3}
        perm = True
        u = rng.random()
        if u < 0.12:  # resorting machinery although the atoms are ordered
            fl.update({"atoms_map": True, "run_resorting": True})
            perm = False
        if rng.random() < 0.5:
            fl["algorithm"] = "hungarian_uno"
        if rng.random() < 0.4:
            fl["uno_cutoff"] = rng.choice([1.0e-3, 0.1, 1.0e-2, 1.0e-5])
        yield make_case(rng, "b787", fam, n, related="rigid", perm=perm, flags=fl, maxclass=mc, tag="uno",
                        pivot=(rng.choice(PIVOTS) if rng.random() < 0.3 else None))
    # --- UM: mirror images through the default search (chiral: generic n>=4; achiral: planar/collinear/symmetric)
    for _ in range(sc(200, 900)):
        fam = rng.choice(["generic", "decimal", "generic", "planar", "collinear", "symmetric"])
        if fam == "symmetric":
            n, mc = sym_n()
        else:
            n, mc = (rng.randint(4, 12) if fam in ("generic", "decimal") else rng.randint(2, 12)), 4
        mirrored = rng.random() < 0.7
        run_mirror = rng.random() < 0.65
        perm = rng.random() < 0.7
        sure = (not mirrored) or fam in ("planar", "collinear") or (fam == "generic" and run_mirror)
        fl = {"atoms_map": not perm, "run_mirror": run_mirror, "mols_align": rng.choice([False, True]) if sure else False,
              "run_to_completion": rng.random() < 0.2}
        yield make_case(rng, "b787", fam, n, related="rigid", perm=perm, mirror=mirrored, flags=fl, maxclass=mc, tag="uno-mirror")
    # --- UW: Molecule.scramble + Molecule.align (always the default search) on larger molecules
    for _ in range(sc(120, 600)):
        fam = rng.choice(["generic", "decimal", "planar", "symmetric", "lattice", "collinear"])
        if fam == "symmetric":
            n, mc = sym_n()
        else:
            n, mc = rng.randint(5, 14), 5
        fl = {"run_mirror": rng.random() < 0.15, "run_resorting": rng.random() < 0.2}
        yield make_case(rng, "molecule", fam, n, related="rigid", perm=rng.random() < 0.8, flags=fl, maxclass=mc, tag="uno")
    # --- UP: the candidate generator called directly: thresholds exactly AT / one ulp ABOVE an entry of the reduced
    #        matrix (near-ties just outside / inside uno_cutoff), literal cutoffs from 1e-6 to 50, rigid copies, noisy
    #        copies, nearly symmetric and unrelated second geometries (many distinct reduced-matrix entries)
    for _ in range(sc(550, 3000)):
        fam = rng.choice(["generic", "decimal", "planar", "collinear", "lattice", "symmetric", "symmetric", "nearsym"])
        rel = rng.choice(["rigid", "rigid", "noisy", "unrelated"]) if fam != "nearsym" else "rigid"
        big = rng.random() < 0.25 and fam not in ("symmetric", "nearsym")
        if fam == "symmetric":
            n, mc = sym_n()
        elif fam == "nearsym":
            n, mc = rng.randint(3, 6), None
        elif big:
            n, mc = rng.randint(13, 30), None
        else:
            n, mc = rng.randint(2, 12), (5 if rng.random() < 0.8 else None)
        m = rng.random()
        if m < 0.2:
            cm = {"kind": "literal", "value": 1.0e-3}
        elif m < 0.3:
            cm = {"kind": "literal", "value": 0.1}
        elif m < 0.4 and not big and mc is not None:
            cm = {"kind": "literal", "value": rng.choice([1.0e-6, 1.0, 50.0, 2000.0])}
        else:
            cm = {"kind": rng.choice(["entry", "entry+ulp"]), "rank": rng.randint(0, 5 if big else 12)}
        c = make_case(rng, "plaus", fam, n, related=rel, perm=(rel != "unrelated"), flags={}, maxclass=mc, tag="uno-direct")
        c["cutmode"] = cm
        yield c
    yield from thin_block()


# ------------------------------------------------------------------------------------------------
# evaluation of one case: implementation + oracle; returns the model lines with their comparators


class Pending:
    """one model line and the function that compares the model's answer with the implementation"""

    def __init__(self, line, cmp):
        self.line = line
        self.cmp = cmp


def collinearity(R):
    Rt = R - R.mean(0)
    s = np.linalg.svd(Rt, compute_uv=False)
    return s  # singular values, descending


def classify_near(R, Cord):
    return bool(np.allclose(R, Cord) and not np.array_equal(R, Cord))


def k_line(R, C, amap, mirror, q):
    S = float(np.sum((R - R.mean(0)) ** 2) + np.sum((C - C.mean(0)) ** 2))
    eps = EPS_REL * Fraction(S) + Fraction(1, 10**30)
    return "|".join([
        "K", "1" if mirror else "0", " ".join(str(int(i)) for i in amap), frs(R), frs(C), frs(q),
        f"{DELTA.numerator}/{DELTA.denominator}", f"{eps.numerator}/{eps.denominator}",
    ])


def parse_kv(line):
    d = {}
    for tok in line.split()[1:]:
        k, v = tok.split("=", 1)
        d[k] = v
    return d


def cmp_kabsch(case_id, R, C, amap, mirror, kab, impl_rot, impl_shift, impl_final_rmsd, impl_kabsch_rmsd, out: Outcome, where):
    """comparator for a K line. kab = recorded kabsch_align call (or None)"""
    n = len(R)
    scale = max(1.0, float(np.max(np.abs(R))), float(np.max(np.abs(C))))

    def cmp(ans):
        if not ans.startswith("ok "):
            out.mismatches.append(Finding("mismatch:K", case_id, observed="impl ok", expected=ans, detail=f"{where}: model refused"))
            return
        d = parse_kv(ans)
        U = np.array([float(parse_rat(x)) for x in d["U"].split(",")]).reshape(3, 3)
        T = np.array([float(parse_rat(x)) for x in d["T"].split(",")])
        short_model = d["sc"] == "1"
        short_impl = kab is not None and not kab["eigh"]
        out.count("K:shortcut" if short_model else "K:eigen")
        bad = []
        if short_model != short_impl:
            bad.append(f"exact-equality head-off: model {short_model} impl {short_impl}")
        if np.max(np.abs(U - impl_rot)) > 1e-12:
            bad.append(f"rotation differs from exact U(q) by {np.max(np.abs(U - impl_rot)):.3e}")
        if np.max(np.abs(T - impl_shift)) > 1e-11 * scale:
            bad.append(f"shift differs from exact cbar - U rbar by {np.max(np.abs(T - impl_shift)):.3e}")
        tolF = 1e-11 * math.sqrt(n) * scale
        if impl_final_rmsd is not None:
            fin = math.sqrt(float(parse_rat(d["fin2"])))
            got = impl_final_rmsd / B2A * math.sqrt(n)
            if abs(fin - got) > tolF:
                bad.append(f"RMSD of applied recipe: impl ||.||={got:.15e} exact {fin:.15e}")
        if impl_kabsch_rmsd is not None:
            res = math.sqrt(float(parse_rat(d["res2"])))
            got = impl_kabsch_rmsd / B2A * math.sqrt(n)
            if abs(res - got) > tolF:
                bad.append(f"kabsch_align rmsd: impl ||.||={got:.15e} exact {res:.15e}")
        if kab is not None and kab["eigh"]:
            Fi = kab["eigh"][0][0]
            Fm = [float(parse_rat(x)) for x in d["F"].split(",")]
            idx = {(0, 0): 0, (0, 1): 1, (0, 2): 2, (0, 3): 3, (1, 1): 4, (1, 2): 5, (1, 3): 6, (2, 2): 7, (2, 3): 8, (3, 3): 9}
            S = float(parse_rat(d["sr2"]) + parse_rat(d["sc2"])) + 1.0
            for i in range(4):
                for j in range(4):
                    mval = Fm[idx[(min(i, j), max(i, j))]]
                    if abs(Fi[i, j] - mval) > 1e-12 * S:
                        bad.append(f"F[{i},{j}] impl {Fi[i, j]!r} exact {mval!r}")
            if d["cert"] != "1":
                bad.append("certificate REFUSED: the eigenvector used is not certified as top eigenvector of F (|q|^2=%s)" % float(parse_rat(d["n2"])))
            else:
                out.count("K:certified")
        for b in bad:
            out.mismatches.append(Finding("mismatch:K", case_id, observed=b, expected="agreement with exact model", detail=where))

    return cmp


def class_positions(runiq, cuniq):
    """(keys in order of first appearance in runiq, where, cwhere) as align.py:318-328 builds them"""
    keys = []
    for u in runiq:
        if u not in keys:
            keys.append(u)
    where = [[i for i, u in enumerate(runiq) if u == k] for k in keys]
    cwhere = [[i for i, u in enumerate(cuniq) if u == k] for k in keys]
    return keys, where, cwhere


def nre_independent(G):
    """reciprocal-distance matrix with zero diagonal, computed here (not with the library's distance_matrix)"""
    G = np.asarray(G, dtype=float)
    d = np.sqrt(((G[:, None, :] - G[None, :, :]) ** 2).sum(-1))
    with np.errstate(divide="ignore"):
        r = 1.0 / d
    r[np.diag_indices(len(G))] = 0.0
    return r


def mat_str(M):
    return ";".join(frs(row) for row in np.asarray(M, dtype=float))


def parse_mat(sx):
    return [[parse_rat(x) for x in row.split()] for row in sx.split(";")]


def uno_lines(runiq, cuniq, R, C, cutoff, cands, classes, case_id, out: Outcome, pend, where):
    """correspondence for one hungarian_uno candidate generation (align.py:346-431) against Model/UnoOrderings.lean:
    M — the cost matrix handed to the solver per class (exact model value vs the captured doubles, tolerance stated);
    U — per class: zero-edge list (exact), the SET of perfect matchings uno enumerated (exact, multiplicities included),
        C14's exact optimality gap of the solver's answer on that matrix;
    O — the candidate atom orderings (as a sorted multiset)."""
    keys, where_r, where_c = class_positions(list(runiq), list(cuniq))
    if len(classes) != len(keys) or any("edges" not in c for c in classes):
        out.mismatches.append(Finding("mismatch:U", case_id, observed=f"{len(classes)} solver/uno call pairs", expected=f"{len(keys)} atom classes",
                                      detail=f"{where}: not exactly one linear_sum_assignment + uno call per atom class"))
        return
    out.count("uno:calls")
    out.count("uno:candidates:" + ("1" if len(cands) == 1 else "2-6" if len(cands) <= 6 else "7-50" if len(cands) <= 50 else ">50"))
    cut = Fraction(float(cutoff))
    cuts = f"{cut.numerator}/{cut.denominator}"
    rcode = " ".join(str(keys.index(u)) for u in runiq)
    ccode = " ".join(str(keys.index(u)) for u in cuniq)
    # ---- M: cost matrices
    nR, nC = nre_independent(R), nre_independent(C)
    lineM = "|".join(["M", rcode, ccode, mat_str(nR), mat_str(nC)])
    # 2 n^2 exact rationals per line: every call up to 14 atoms, one call in three beyond (chosen by the data, not the PRNG)
    do_M = len(R) <= 14 or int(abs(float(np.sum(R))) * 1e6) % 3 == 0

    def cmpM(ans):
        out.count("M:lines")
        if not ans.startswith("ok "):
            out.mismatches.append(Finding("mismatch:M", case_id, observed="impl built cost matrices", expected=ans[:200], detail=where))
            return
        mats = ans[3:].split("#")
        if len(mats) != len(classes):
            out.mismatches.append(Finding("mismatch:M", case_id, observed=len(classes), expected=len(mats), detail=f"{where}: number of classes"))
            return
        for ic, (ms, cl) in enumerate(zip(mats, classes)):
            exact = parse_mat(ms)
            got = cl["cost"]
            k = len(where_r[ic])
            if got.shape != (k, k) or len(exact) != k:
                out.mismatches.append(Finding("mismatch:M", case_id, observed=list(got.shape), expected=[k, k], detail=f"{where}: class {ic} cost matrix shape (rows = concern atoms, columns = reference atoms)"))
                return
            sC = [100.0 * float(np.sum(nC[np.ix_(where_c[ic], where_c[ic])][:, i])) for i in range(k)]
            sR = [100.0 * float(np.sum(nR[np.ix_(where_r[ic], where_r[ic])][:, j])) for j in range(k)]
            for i in range(k):
                for j in range(k):
                    ex = float(exact[i][j])
                    dl = 1e-12 * (abs(sC[i]) + abs(sR[j]) + 1.0)
                    tol = 2.0 * math.sqrt(ex) * dl + dl * dl
                    if abs(float(got[i, j]) - ex) > tol:
                        out.mismatches.append(Finding("mismatch:M", case_id, observed=float(got[i, j]), expected=ex,
                                                      detail=f"{where}: class {ic} cost[{i},{j}] handed to the solver differs from (sumCC[i]-sumRR[j])^2 by more than {tol:.2e}"))
                        return

    if do_M:
        pend.append(Pending(lineM, cmpM))
    else:
        out.count("M:not_sampled(n>14)")
    # ---- U: per class
    for ic, cl in enumerate(classes):
        k = len(where_r[ic])
        out.count("uno:class_size:" + (str(k) if k <= 5 else "6-10" if k <= 10 else "11-30"))
        if cl["red"].shape != (k, k) or cl["cost"].shape != (k, k):
            out.mismatches.append(Finding("mismatch:U", case_id, observed=list(cl["red"].shape), expected=[k, k], detail=f"{where}: class {ic} reduced matrix shape"))
            continue
        pairs = ";".join(f"{r},{c}" for r, c in zip(cl["rows"], cl["cols"]))
        lineU = "|".join(["U", cuts, str(k), mat_str(cl["red"]), mat_str(cl["cost"]), pairs])
        impl_edges = ";".join(f"{i},{j}" for i, j in cl["edges"])
        impl_ms = []
        shape_ok = True
        for m in cl["out"]:
            mm = sorted(m, key=lambda pq: pq[1])
            if [pq[1] for pq in mm] != list(range(k)):
                shape_ok = False
            impl_ms.append([pq[0] for pq in mm])
        nm = len(impl_ms)
        out.count("uno:matchings_per_class:" + ("1" if nm == 1 else "2" if nm == 2 else "3-24" if nm <= 24 else "25+"))
        scale = 1.0 + float(np.max(np.abs(cl["cost"]))) if k else 1.0

        def cmpU(ans, ic=ic, k=k, impl_edges=impl_edges, impl_ms=impl_ms, shape_ok=shape_ok, scale=scale):
            out.count("U:lines")
            if not ans.startswith("ok "):
                out.mismatches.append(Finding("mismatch:U", case_id, observed="impl enumerated matchings", expected=ans[:200], detail=f"{where}: class {ic}"))
                return
            d = parse_kv(ans)
            if d["edges"] != impl_edges:
                out.mismatches.append(Finding("mismatch:U", case_id, observed=impl_edges[:300], expected=d["edges"][:300],
                                              detail=f"{where}: class {ic}: edges handed to uno differ from argwhere(reduced < uno_cutoff={float(cutoff)!r})"))
            model_ms = sorted([int(x) for x in m.split(",")] for m in d["m"].split(";")) if d["m"] else []
            if not shape_ok or sorted(impl_ms) != model_ms:
                out.mismatches.append(Finding("mismatch:U", case_id, observed=str(sorted(impl_ms))[:400], expected=str(model_ms)[:400],
                                              detail=f"{where}: class {ic}: matchings enumerated by uno are not exactly the perfect matchings of the zero-edge graph (each once)"))
            if d["gap"] == "notassign" or float(parse_rat(d["gap"])) > 1e-9 * scale * max(k, 1):
                out.mismatches.append(Finding("mismatch:U", case_id, observed=d["gap"][:80], expected=f"<= {1e-9 * scale * max(k, 1):.2e}",
                                              detail=f"{where}: class {ic}: the solver's (assignment, reduced matrix) is not an optimality certificate for the matrix it was handed (C14 certGap)"))
            else:
                out.count("U:certified_gap_ok")

        pend.append(Pending(lineU, cmpU))
    # ---- O: the orderings
    lineO = "|".join(["O", cuts, rcode, ccode, "#".join(mat_str(cl["red"]) for cl in classes)])
    exp = sorted(cands)

    def cmpO(ans):
        out.count("O:lines")
        if not ans.startswith("ok"):
            out.mismatches.append(Finding("mismatch:O", case_id, observed=f"{len(exp)} orderings", expected=ans[:200], detail=where))
            return
        body = ans[3:]
        got = sorted([int(x) for x in c.split(",")] for c in body.split(";")) if body else []
        if got != exp:
            out.mismatches.append(Finding("mismatch:O", case_id, observed=str(exp)[:400], expected=str(got)[:400],
                                          detail=f"{where}: hungarian_uno candidate orderings (as a multiset) differ from the model's"))

    pend.append(Pending(lineO, cmpO))


def process_b787_call(ent, case_id, out: Outcome, pend, depth=0):
    """correspondence for one recorded B787 call (recursively for the nested mirror pre-test)"""
    a = ent["args"]
    for ch in ent["children"]:
        process_b787_call(ch, case_id, out, pend, depth + 1)
    if ent["error"] is not None:
        return
    R, C = a["rgeom"], a["cgeom"]
    n = len(R)
    runiq, cuniq = a["runiq"], a["cuniq"]
    if runiq is None:
        runiq = cuniq = np.array([""] * n)
    run_resorting = bool(a["run_resorting"] or not a["atoms_map"])
    algo = a["algorithm"] if (a["algorithm"] != "hungarian_uno" or HAVE_NX) else "permutative"
    final_rmsd, sol = ent["result"]
    where = f"B787 depth {depth}"
    out.count(f"B787:depth{depth}")
    # (a) candidate orderings
    if run_resorting and algo == "hungarian_uno":
        # networkx present: the DEFAULT search runs; its candidate generation is modelled by Model/UnoOrderings.lean
        cands, classes = capture_uno(runiq, cuniq, R, C, a["uno_cutoff"])
        seen = [y for pl in ent.get("plaus", []) for y in pl["yielded"]]
        if seen != cands[:len(seen)] or not seen:
            out.mismatches.append(Finding("mismatch:O", case_id, observed=str(seen[:4])[:300], expected=str(cands[:4])[:300],
                                          detail=f"{where}: the orderings B787 consumed are not a prefix of a second, exhaustive run of the same search"))
        uno_lines(runiq, cuniq, R, C, a["uno_cutoff"], cands, classes, case_id, out, pend, where)
        if not cands:
            return
    elif run_resorting:
        with contextlib.redirect_stdout(io.StringIO()):
            cands = [list(int(x) for x in c) for c in _ORIG["plaus"](runiq, cuniq, R, C, algorithm="permutative", verbose=0)]
        keys = []
        for u in runiq:
            if u not in keys:
                keys.append(u)
        for u in cuniq:
            if u not in keys:
                keys.append(u)
        from qcelemental.util import distance_matrix

        rr, cc = distance_matrix(R, R), distance_matrix(C, C)
        line = "|".join(["P", fr(1e-5), fr(1.0), " ".join(str(keys.index(u)) for u in runiq), " ".join(str(keys.index(u)) for u in cuniq),
                         ";".join(frs(row) for row in rr), ";".join(frs(row) for row in cc)])
        exp = "ok " + ";".join(",".join(str(i) for i in c) for c in cands)

        def cmpP(ans, exp=exp):
            out.count("P:lines")
            if ans != exp:
                out.mismatches.append(Finding("mismatch:P", case_id, observed=exp[:400], expected=ans[:400], detail=f"{where}: permutative candidate list"))

        pend.append(Pending(line, cmpP))
    else:
        cands = [list(range(n))]
    out.count("candidates:" + ("1" if len(cands) == 1 else "2-6" if len(cands) <= 6 else "7-50" if len(cands) <= 50 else ">50"))
    # (b) trial loop
    superimp = False
    mirror_on = False
    if a["run_mirror"]:
        if ent["children"] and ent["children"][0]["result"] is not None:
            superimp = bool(ent["children"][0]["result"][0] < 1.0e-6)
        mirror_on = not superimp
    trials = []
    for c in cands:
        vals = []
        for mir in ([False, True] if mirror_on else [False]):
            vals.append(trial_units(R, C, c, mir))
        trials.append((vals[0], vals[1] if mirror_on else 0))
    line = "|".join(["B", "1" if a["run_mirror"] else "0", "1" if superimp else "0", "1" if a["run_to_completion"] else "0",
                     str(aconv_units(a["mols_align"])), ";".join(f"{p},{m}" for p, m in trials)])
    amap_impl = [int(x) for x in sol.atommap]
    ncalls = len(ent["kabsch"])
    best_impl = int(round(float(np.around(final_rmsd, decimals=8)) * 1e8))

    def cmpB(ans):
        out.count("B:lines")
        if not ans.startswith("ok "):
            out.mismatches.append(Finding("mismatch:B", case_id, observed="impl returned a solution", expected=ans, detail=where))
            return
        d = parse_kv(ans)
        sel, mir, best, oc = int(d["sel"]), d["mirror"] == "1", int(d["best"]), int(d["ocount"])
        bad = []
        if cands[sel] != amap_impl:
            bad.append(f"held ordering: impl {amap_impl} model {cands[sel]} (trial {sel})")
        if mir != bool(sol.mirror):
            bad.append(f"mirror flag: impl {sol.mirror} model {mir}")
        if oc != ncalls:
            bad.append(f"number of Kabsch trials: impl {ncalls} model ocount {oc}")
        if best != best_impl:
            bad.append(f"best rounded RMSD [1e-8 A]: impl {best_impl} model {best}")
        for b in bad:
            out.mismatches.append(Finding("mismatch:B", case_id, observed=b, expected="agreement with loop model", detail=where + " line=" + line[:300]))

    pend.append(Pending(line, cmpB))
    # (c) the held Kabsch trial, exactly
    kab = None
    for kc in ent["kabsch"]:
        if np.array_equal(kc["out"][1], np.asarray(sol.rotation)) and np.array_equal(kc["out"][2], np.asarray(sol.shift)):
            g = np.copy(C)
            if sol.mirror:
                g[:, 1] *= -1.0
            if np.array_equal(kc["C"], g[np.asarray(amap_impl)]):
                kab = kc
                break
    if kab is None:
        out.mismatches.append(Finding("mismatch:K", case_id, observed="held recipe is not the output of any recorded kabsch_align call", detail=where))
        return
    q = kab["eigh"][0][2][:, -1] if kab["eigh"] else np.array([1.0, 0, 0, 0])
    pend.append(Pending(k_line(R, C, amap_impl, bool(sol.mirror), q),
                        cmp_kabsch(case_id, R, C, amap_impl, bool(sol.mirror), kab, np.asarray(sol.rotation), np.asarray(sol.shift),
                                   float(final_rmsd), None, out, where)))


def trial_units(R, C, cand, mir):
    """rounded RMSD (units of 1e-8 A) of one trial, computed as align.py:194-201 / 219-228 do, with the real code"""
    n = len(R)
    g = np.copy(C)
    if mir:
        g[:, 1] *= -1.0
    ordd = np.asarray(cand)
    with contextlib.redirect_stdout(io.StringIO()):
        _, RR, TT = _ORIG["kabsch_align"](R, g[ordd, :], weight=None)
    tg = apply_like_mill(C, TT, RR, ordd, mir)
    t = np.around(np.linalg.norm(tg - R) * B2A / np.sqrt(n), decimals=8)
    return int(round(float(t) * 1e8))


def truncation_info(ent):
    """does this B787 call fall in the class 'search truncated by mols_align at a near-equivalent wrong candidate'?"""
    a = ent["args"]
    if not a["mols_align"] or a["run_to_completion"] or not (a["run_resorting"] or not a["atoms_map"]):
        return None
    R, C = a["rgeom"], a["cgeom"]
    try:
        if a["algorithm"] == "hungarian_uno" and HAVE_NX:  # the search this call actually ran
            cands, _ = capture_uno(a["runiq"], a["cuniq"], R, C, a["uno_cutoff"])
        else:
            with contextlib.redirect_stdout(io.StringIO()):
                cands = [list(int(x) for x in c) for c in _ORIG["plaus"](a["runiq"], a["cuniq"], R, C, algorithm="permutative", verbose=0)]
    except Exception:
        return None
    mirror_on = False
    if a["run_mirror"]:
        ch = ent["children"]
        if not ch or ch[0]["result"] is None:
            return None
        mirror_on = not bool(ch[0]["result"][0] < 1.0e-6)
    seq = [trial_units(R, C, c, mir) for c in cands for mir in ([False, True] if mirror_on else [False])]
    ac = aconv_units(a["mols_align"])
    first = next((u for u in seq if u < ac), None)
    if first is None or not seq:
        return None
    if first > 100 and min(seq) <= 100:
        return {"first_units": first, "min_units": min(seq), "aconv": ac, "mols_align": True if a["mols_align"] is True else float(a["mols_align"]),
                "ncandidates": len(cands)}
    return None


def find_truncation(entries):
    for ent in entries:
        t = truncation_info(ent) or find_truncation(ent["children"])
        if t:
            return t
    return None


def apply_like_mill(C, TT, RR, ordd, mir):
    """temp_solution.align_coordinates(cgeom) through the real AlignmentMill (align.py:196-197)"""
    from qcelemental.models import AlignmentMill

    return AlignmentMill(shift=TT, rotation=RR, atommap=ordd, mirror=mir).align_coordinates(C, reverse=False)


def oracle_recipe(case, case_id, out: Outcome, R, C, runiq, cuniq, rmsd, rot, shift, amap, mirror, *, run_mirror, known_map, route):
    """the property, stated directly on what came back"""
    n = len(R)
    V = out.violations
    rot = np.asarray(rot, dtype=float)
    shift = np.asarray(shift, dtype=float)
    amap = [int(x) for x in np.asarray(amap).ravel()]
    if rot.shape != (3, 3) or shift.shape != (3,) or sorted(amap) != list(range(n)):
        V.append(Finding("oracle:shape", case_id, observed=f"rotation {rot.shape} shift {shift.shape} atommap {amap}", detail="not a rotation/shift/permutation"))
        return
    near = classify_near(R, (C * np.array([1.0, -1.0 if mirror else 1.0, 1.0]))[amap])
    kind_opt = "oracle:nearcoincident_shortcut" if near else None
    if near:
        out.count("class:nearcoincident")
    # proper rotation
    orth = float(np.max(np.abs(rot @ rot.T - np.eye(3))))
    det = float(np.linalg.det(rot))
    if orth > 1e-10:
        V.append(Finding("oracle:orthogonal", case_id, observed=orth, expected="<= 1e-10", detail="returned rotation is not orthogonal"))
    if abs(det - 1.0) > 1e-10:
        V.append(Finding("oracle:det", case_id, observed=det, expected=1.0, detail="returned rotation is not proper (det != +1)"))
    # mirror only on request
    if mirror and not run_mirror:
        V.append(Finding("oracle:mirror_unrequested", case_id, observed="mirror=True", expected="mirror=False", detail="mirror image matched although run_mirror was not requested"))
    # elements match atom by atom
    if runiq is not None and [cuniq[i] for i in amap] != list(runiq):
        V.append(Finding("oracle:elements", case_id, observed=[cuniq[i] for i in amap], expected=list(runiq), detail="atom map pairs atoms of different class"))
    # reported RMSD is the RMSD obtained
    X = apply_recipe(C, shift, rot, amap, mirror)
    rm = rmsd_A(X, R)
    if abs(rm - float(rmsd)) > 1e-10 + 1e-9 * rm:
        V.append(Finding(kind_opt if (near and route == "kabsch") else "oracle:reported_rmsd", case_id, observed=float(rmsd), expected=rm,
                         detail="reported RMSD differs from the RMSD obtained by applying the returned recipe"))
    # optimality over proper rotations about the centroids (for the correspondence the implementation settled on)
    Cm = np.array(C, dtype=float)
    if mirror:
        Cm[:, 1] = -Cm[:, 1]
    Cord = Cm[amap]
    Rt, Ct = R - R.mean(0), Cord - Cord.mean(0)
    S = float(np.sum(Rt * Rt) + np.sum(Ct * Ct))
    slack2 = 1e-13 * S / n * B2A * B2A  # backward-stability allowance on rmsd^2 (sqrt-sensitive at rmsd ~ 0)
    opt2 = max(0.0, svd_opt_res2(Rt, Ct)) / n * B2A * B2A
    if rm * rm > opt2 + slack2 + 1e-12 * rm * rm:
        V.append(Finding(kind_opt or "oracle:optimal_svd", case_id, observed=rm, expected=math.sqrt(opt2),
                         detail="a proper rotation about the centroids with smaller RMSD exists (SVD optimum)"))
    rs = np.random.RandomState(case.get("seed", 12345) % (2**31))
    Q = rs.normal(size=(240, 4))
    qi = rot_to_quat(rot)
    Q2 = qi[None, :] + rs.normal(size=(160, 4)) * (10.0 ** rs.uniform(-7, -1, size=(160, 1)))
    Aall = rots_from_quats(np.vstack([Q, Q2]))
    cov = Ct.T @ Rt  # tr(A^T ... ) : residual of A is S - 2 sum_i r_i.(c_i A) = S - 2 tr(A^T cov^T) ...
    tr = np.einsum("kab,ab->k", Aall, cov)
    res2 = (S - 2.0 * tr) / n * B2A * B2A
    j = int(np.argmin(res2))
    if rm * rm > float(res2[j]) + slack2 + 1e-9 * rm * rm:
        direct = rmsd_A(Ct @ Aall[j], Rt)
        if rm > direct + 1e-9:
            V.append(Finding(kind_opt or "oracle:optimal_sampled", case_id, observed=rm, expected=direct,
                             detail=f"sampled proper rotation #{j} about the centroids gives a smaller RMSD"))
    out.count("oracle:rotations_sampled", len(Aall))
    return rm, near, math.sqrt(slack2)


def rot_to_quat(M):
    """a unit quaternion q with U(q) = M (for sampling perturbations only)"""
    t = np.trace(M)
    cand = [
        np.array([1 + t, M[2, 1] - M[1, 2], M[0, 2] - M[2, 0], M[1, 0] - M[0, 1]]),
        np.array([M[2, 1] - M[1, 2], 1 + M[0, 0] - M[1, 1] - M[2, 2], M[0, 1] + M[1, 0], M[0, 2] + M[2, 0]]),
        np.array([M[0, 2] - M[2, 0], M[0, 1] + M[1, 0], 1 - M[0, 0] + M[1, 1] - M[2, 2], M[1, 2] + M[2, 1]]),
        np.array([M[1, 0] - M[0, 1], M[0, 2] + M[2, 0], M[1, 2] + M[2, 1], 1 - M[0, 0] - M[1, 1] + M[2, 2]]),
    ]
    q = max(cand, key=lambda v: float(v @ v))
    nq = np.linalg.norm(q)
    return q / nq if nq > 0 else np.array([1.0, 0, 0, 0])


MODEL_AVAILABLE = True  # set per run (run_cases) from ctx.model_available: without the driver the margin comes from margin_exact
G_MIN = Fraction(1, 10**5)  # bohr^4: margin of non-collinearity (max_{i<j} |r~_i x r~_j|^2 about the centroid) above which recovery is demanded


def margin_exact(R):
    """exact max_{i<j} |(r_i - rbar) x (r_j - rbar)|^2 of the doubles of R (Python integers): returns
    (g, i, j, |r~_i|^2, |r~_j|^2, max_k |r~_k|^2) as Fractions — the same quantity as Model/KabschUnique.lean
    `collinearityMargin` (driver op N); used to cross-check the driver and as the fallback when the model is unavailable"""
    n = len(R)
    fr_ = [[Fraction(float(x)) for x in row] for row in np.asarray(R, dtype=float)]
    den = 1
    for row in fr_:
        for x in row:
            if x.denominator > den:
                den = x.denominator  # doubles: every denominator is a power of two, so the largest one is common
    ints = [[int(x * den) for x in row] for row in fr_]
    sm = [sum(row[k] for row in ints) for k in range(3)]
    cen = [[n * row[k] - sm[k] for k in range(3)] for row in ints]  # (n * den) * (r_i - rbar)
    scale2 = (n * den) ** 2
    nr = [v[0] * v[0] + v[1] * v[1] + v[2] * v[2] for v in cen]
    best, bi, bj = 0, 0, 0
    for a in range(n):
        ax, ay, az = cen[a]
        for b in range(a + 1, n):
            bx, by, bz = cen[b]
            cx, cy, cz = ay * bz - az * by, az * bx - ax * bz, ax * by - ay * bx
            v = cx * cx + cy * cy + cz * cz
            if v > best:
                best, bi, bj = v, a, b
    return (Fraction(best, scale2 * scale2), bi, bj, Fraction(nr[bi], scale2), Fraction(nr[bj], scale2), Fraction(max(nr), scale2))


def oracle_recovery(case, case_id, out: Outcome, R, rm, near, slack, rot, shift, amap, mirror, aligned, pend=None):
    """rigid copies: RMSD ~ 0, atom-by-atom superposition, rotation and shift recovered (non-collinear).

    The class on which rotation and shift are demanded is the one of Props/C12Unique.lean: NonCollinear about the centroid
    with the stated margin G_MIN, g = max_{i<j} |r~_i x r~_j|^2 >= G_MIN, g computed EXACTLY by the Lean driver (op N,
    `collinearityMargin`) on the doubles of the reference and cross-checked here with exact integer arithmetic (value, attaining pair and its norms must be identical).  Every case the
    former singular-value test demanded (s1 >= 0.3 and s1 >= 0.03 s0) lies in the class for n <= 30 (sum of the
    |r~_i x r~_j|^2 over pairs >= s0^2 s1^2 >= 0.0081, at most 435 pairs); should one ever not, it is demanded all the same."""
    V = out.violations
    n = len(R)
    kind = "oracle:nearcoincident_shortcut" if near else None
    tol = max(1e-9, slack)
    if rm > tol:
        V.append(Finding(kind or "oracle:recovery_rmsd", case_id, observed=rm, expected=f"<= {tol:.2e}", detail="second geometry is a rigid copy of the reference but the RMSD is not zero to numerical precision"))
        return
    if float(np.max(np.abs(aligned - R))) > 1e-5:
        V.append(Finding(kind or "oracle:recovery_atoms", case_id, observed=float(np.max(np.abs(aligned - R))), expected="<= 1e-5 bohr", detail="returned transformation does not map the copy back onto the reference atom by atom"))
    out.count("recovery:checked")
    # rotation/shift are the applied ones: only claimed for non-collinear sets and when the atom map is the applied one
    s = collinearity(R)
    pm = case["perm"]
    inv = [pm.index(i) for i in range(n)]
    A = case_rotation(case)
    sh = np.array([float.fromhex(x) for x in case["shift"]])
    old_class = bool(len(s) >= 2 and s[1] >= 0.3 and s[1] >= 0.03 * s[0])
    map_ok = list(amap) == inv and bool(mirror) == bool(case["mirrored"])
    R = np.array(R, dtype=float)
    rot = np.array(rot, dtype=float)
    shift = np.array(shift, dtype=float)
    aligned = np.array(aligned, dtype=float)
    py = margin_exact(R)

    def decide(g, L2, source):
        new_class = g >= G_MIN
        out.count("margin:g>=1e-5 (NonCollinear with margin)" if new_class else ("margin:0<g<1e-5" if g > 0 else "margin:g=0 (exactly collinear doubles)"))
        if old_class and not new_class:
            out.count("recovery:former singular-value class but below the margin (demanded anyway)")
        if not ((new_class or old_class) and map_ok):
            out.count("recovery:motion_not_unique(collinear/symmetric/other map)")
            return
        out.count("recovery:motion_checked")
        dr = float(np.max(np.abs(rot - A.T)))
        ds = float(np.max(np.abs(shift - sh)))
        if old_class:
            tol_r, tol_s = 1e-8, 1e-7
        else:
            # outside the former class the tolerance is the one Props/C12Unique.lean `rotation_entries_close` proves:
            # |entry of (rotation - A^T)| <= 4 L eps / sqrt(g), eps = residual of the superposition about the centroids,
            # L^2 = max |r~|^2 of the two atoms attaining g; float allowance: orthogonality defect of the returned matrix
            out.count("recovery:motion_checked(margin class beyond the former singular-value class, theorem tolerance)")
            dev = aligned - R
            dbar = dev.mean(0)
            eps = float(np.max(np.linalg.norm(dev - dbar, axis=1)))
            L = math.sqrt(float(L2))
            scale = max(1.0, float(np.max(np.abs(R))), float(np.max(np.abs(sh))))
            orth = float(np.max(np.abs(rot @ rot.T - np.eye(3)))) + float(np.max(np.abs(A @ A.T - np.eye(3))))
            cfac = 4.0 * L / math.sqrt(float(g))
            rowb = cfac * (eps + 4.0 * L * orth + 1e-14 * scale) + 4.0 * orth + 1e-12
            tol_r = max(1e-8, rowb)
            # shift: Props/C12Shift.lean `recovery_shift_close` — T - t = rbar (A - U^T) - dbar U^T and
            # m |w (A - U^T)|^2 <= 16 L2 e2 |w|^2 for EVERY vector w (`rotation_error_on_vector`), so
            # |T - t| <= |rbar| * (4 L eps / sqrt g) + |dbar| (`recovery_shift_close_on_two`, with L2, eps of the two atoms attaining g
            # — eps here is the max over ALL atoms, so at least theirs): the proved bound has no factor sqrt(3) (the former hand-derived
            # tolerance bounded the operator norm of A - U^T by sqrt(3) * max row norm) and no 1e-7 floor; rowb carries the float
            # allowances (orthogonality defects of the returned and the applied matrix, 1e-14 x coordinate scale), + 1e-12 x scale.
            # The tighter of former and proved tolerance is used (on seed 0 the observed error is at most 0.33 of the proved bound)
            rbar_n, dbar_n = float(np.linalg.norm(R.mean(0))), float(np.linalg.norm(dbar))
            tol_s_hand = rbar_n * math.sqrt(3.0) * rowb + dbar_n + 1e-12 * scale
            tol_s_thm = rbar_n * rowb + dbar_n + 1e-12 * scale
            tol_s = min(max(1e-7, tol_s_hand), tol_s_thm)  # never looser than the former max(1e-7, hand-derived)
            out.count("recovery:shift tolerance = proved bound of recovery_shift_close_on_two" + (" (tighter than the former tolerance)" if tol_s_thm < max(1e-7, tol_s_hand) else " (former tolerance kept: it is tighter)"))
        if dr > tol_r:
            V.append(Finding(kind or "oracle:recovery_rotation", case_id, observed=rot.tolist(), expected=A.T.tolist(),
                             detail=f"rotation differs from the inverse of the applied one by {dr:.3e} (> {tol_r:.3e}; margin g={float(g):.3e} from {source})"))
        if ds > tol_s:
            V.append(Finding(kind or "oracle:recovery_shift", case_id, observed=shift.tolist(), expected=sh.tolist(),
                             detail=f"shift differs from the applied one by {ds:.3e} (> {tol_s:.3e}; margin g={float(g):.3e} from {source})"))

    def cmp(ans):
        # driver op N: the exact margin; must be the number computed here, and the pair it names must attain it
        bad = None
        try:
            if not ans.startswith("ok "):
                raise ValueError(ans)
            d = parse_kv(ans)
            g = parse_rat(d["g"])
            i, j = int(d["i"]), int(d["j"])
            ni2, nj2 = parse_rat(d["ni2"]), parse_rat(d["nj2"])
            if g != py[0] or parse_rat(d["arg"]) != g or parse_rat(d["lmax2"]) != py[5]:
                bad = f"driver g={d['g']} arg={d['arg']} lmax2={d['lmax2']}; exact integer arithmetic here g={py[0]} lmax2={py[5]}"
            elif (i, j, ni2, nj2) != (py[1], py[2], py[3], py[4]):
                # same scan order and strict replacement on both sides: the first pair attaining the maximum
                bad = f"driver pair ({i},{j}) |r~_i|^2={ni2} |r~_j|^2={nj2}; here pair ({py[1]},{py[2]}) {py[3]} {py[4]}"
        except Exception as e:  # noqa
            bad = f"unreadable answer {ans[:120]!r} ({type(e).__name__})"
        out.count("N:lines")
        if bad:
            out.mismatches.append(Finding("mismatch:N", case_id, observed=bad, expected="driver's collinearityMargin = exact value", detail="non-collinearity margin"))
            decide(py[0], max(py[3], py[4]), "harness integers (driver disagreed)")
        else:
            decide(g, max(ni2, nj2), "Lean driver, exact")

    if pend is not None and MODEL_AVAILABLE:
        pend.append(Pending("N|" + frs(R), cmp))
    else:
        out.count("N:model unavailable, margin from harness integers")
        decide(py[0], max(py[3], py[4]), "harness integers (model unavailable)")


def count_centroid_relation(out: Outcome, R, C, mirrored, rotated):
    """evidence keys: which relation between the two centroids the implementation was shown (on the very arrays it got)"""
    cr = R.mean(0)
    cc = np.array(C, dtype=float).mean(0)
    if mirrored:
        cc[1] = -cc[1]
    d = float(np.max(np.abs(cc - cr)))
    off = float(np.max(np.abs(cr))) > 1e-3
    if d < 1e-10:
        if off and rotated:
            out.count("centroids:coincide(<1e-10),off-origin,second geometry rotated/unrelated")
        elif off:
            out.count("centroids:coincide(<1e-10),off-origin,unrotated")
        else:
            out.count("centroids:coincide(<1e-10),both at origin")
    elif d < 1e-3:
        out.count("centroids:1e-10..1e-3 apart")
    elif float(np.max(np.abs(cc))) < 1e-10:
        out.count("centroids:second geometry centred at origin, reference off-origin")
    elif not off:
        out.count("centroids:reference centred at origin, second geometry off-origin")
    elif float(np.max(np.abs(cc + cr))) < 1e-10:
        out.count("centroids:opposite")
    elif int(np.sum(np.abs(cc - cr) < 1e-10)) == 2:
        out.count("centroids:equal in two components")
    else:
        out.count("centroids:generic")


# The caller's arrays.  Half of the kabsch_align / B787 calls hand the implementation the SAME two ndarray objects per
# (route, atom count) again and again, overwritten in place with the new geometries (a frame loop over a reused buffer), the other
# half fresh copies.  The answer must be a function of the VALUES: anything remembered by object identity across calls shows as an
# ordinary oracle finding on the later call.  The finding carries the previous contents of the buffers (`prev_RC`) so that a replay
# in a fresh process first repeats that call.
_BUFS = {}
_PREV = {}


def caller_arrays(case, R, C, prime):
    route, n = case["route"], len(R)
    if "reuse" not in case:
        case["reuse"] = (int(case.get("seed", 0)) // 7) % 2 == 0
    if not case["reuse"] or len(C) != n:
        return R.copy(), C.copy()
    key = (route, n)
    if key not in _BUFS:
        _BUFS[key] = (np.zeros((n, 3)), np.zeros((n, 3)))
    bR, bC = _BUFS[key]
    if key in _PREV:
        case["prev_RC"] = _PREV[key]
    elif case.get("prev_RC"):
        bR[:] = unhex(case["prev_RC"][0])
        bC[:] = unhex(case["prev_RC"][1])
        try:
            prime(bR, bC)
        except Exception:  # noqa
            pass
    bR[:] = R
    bC[:] = C
    _PREV[key] = (case["R"], case["C"])
    return bR, bC


def evaluate(case, out: Outcome, pend):
    _install()
    route = case["route"]
    R = unhex(case["R"])
    C = unhex(case["C"])
    n = len(R)
    runiq = np.array(case["runiq"])
    cuniq = np.array(case["cuniq"])
    fl = case["flags"]
    case_id = {"case": case}
    out.evaluations += 1
    out.count("route:" + route)
    out.count("family:" + case["fam"])
    out.count("related:" + case["related"])
    out.count("n:" + ("2-3" if n <= 3 else "4-7" if n <= 7 else "8-15" if n <= 15 else "16-30"))
    rigid = case["related"] in ("rigid", "near")
    ident = rigid and tuple(case.get("quat", ())) == (1, 0, 0, 0) and all(float.fromhex(x) == 0.0 for x in case["shift"]) \
        and case["perm"] == list(range(n)) and not case["mirrored"] and "rotfloat" not in case
    if not ident:
        key = (route, case["fam"], n, case["related"], case.get("quat"), case.get("shift"), case["perm"], case["mirrored"], sorted(fl.items(), key=str))
        if "pivot" in case:
            key = key + (case["pivot"], tuple(case["C"][0]))
        if "rotfloat" in case:
            key = key + (tuple(case["rotfloat"][0]), tuple(case["C"][0]))
        if "prefix" in case:
            key = key + (case["prefix"],)
        out.nontrivial(repr(key))
    if "pivot" in case:
        out.count("pivot:" + case["pivot"])
    if "special" in case:
        sp = case["special"]
        out.count(f"special:{sp['deg']}deg about {sp['axis']} axis, reference {'in principal-axis frame' if sp['frame'] == 'principal' else 'as is'}")
        Rt0, Ct0 = R - R.mean(0), C - C.mean(0)
        if len(R) == len(C) and case["perm"] == list(range(n)) and not case["mirrored"]:
            cv = Rt0.T @ Ct0
            if np.allclose(cv, cv.T, rtol=0.0, atol=1e-10):
                out.count("special:covariance symmetric(1e-10)" + (", trace>0" if np.trace(cv) > 0 else ", trace<=0"))
    if "prefix" in case:
        out.count("atom-order prefix:" + case["prefix"] + (",mirrored" if case["mirrored"] else "") + (",run_mirror" if fl.get("run_mirror") else ""))
    if route != "molecule":
        count_centroid_relation(out, R, C, case["mirrored"], rotated=("quat" not in case) or any(case["quat"][1:]) or "rotfloat" in case)

    if route == "kabsch":
        aR, aC = caller_arrays(case, R, C, lambda x, y: _A.kabsch_align(x, y))
        out.count("caller arrays:" + ("reused buffers" if case["reuse"] else "fresh copies"))
        with recording() as rec:
            try:
                rm0, RR, TT = _A.kabsch_align(aR, aC)
            except Exception as e:  # noqa
                out.violations.append(Finding("oracle:raised", case_id, observed=err_class(e) + ": " + str(e)[:200], detail="kabsch_align raised on an in-scope input"))
                return
        kab = rec.direct[-1]
        ident_map = list(range(n))
        r = oracle_recipe(case, case_id, out, R, C, None, None, rm0, RR, TT, ident_map, False, run_mirror=False, known_map=True, route=route)
        if r and case["related"] in ("rigid", "near") and not case["mirrored"]:
            rm, near, slack = r
            oracle_recovery(case, case_id, out, R, rm, near, slack, RR, TT, ident_map, False, apply_recipe(C, TT, RR, ident_map, False), pend)
        q = kab["eigh"][0][2][:, -1] if kab["eigh"] else np.array([1.0, 0, 0, 0])
        pend.append(Pending(k_line(R, C, ident_map, False, q),
                            cmp_kabsch(case_id, R, C, ident_map, False, kab, np.asarray(RR), np.asarray(TT), None, float(rm0), out, "kabsch_align")))
        if len(out.samples) < 2:
            out.sample({"route": route, "n": n, "family": case["fam"], "related": case["related"], "rmsd": float(rm0)})
        return

    if route == "b787":
        kwargs = dict(verbose=0, atoms_map=fl.get("atoms_map", False), run_resorting=fl.get("run_resorting", False),
                      mols_align=fl.get("mols_align", False), run_to_completion=fl.get("run_to_completion", False),
                      run_mirror=fl.get("run_mirror", False))
        if "algorithm" in fl:
            kwargs["algorithm"] = fl["algorithm"]
        if "uno_cutoff" in fl:
            kwargs["uno_cutoff"] = fl["uno_cutoff"]
            out.count("flag:uno_cutoff=" + repr(fl["uno_cutoff"]))
        if not kwargs["atoms_map"] or kwargs["run_resorting"]:
            out.count("search:" + (kwargs.get("algorithm", "hungarian_uno(default)") if (HAVE_NX or "algorithm" in kwargs) else "default->permutative(no networkx)"))
        for k, v in kwargs.items():
            if k in ("atoms_map", "run_resorting", "run_to_completion", "run_mirror") and v:
                out.count("flag:" + k)
        out.count("flag:mols_align=" + str(kwargs["mols_align"]))
        aR, aC = caller_arrays(case, R, C, lambda x, y: _A.B787(y, x, cuniq.copy(), runiq.copy(), **kwargs))
        out.count("caller arrays:" + ("reused buffers" if case["reuse"] else "fresh copies"))
        with recording() as rec:
            try:
                rmsd, sol = _A.B787(aC, aR, cuniq.copy(), runiq.copy(), **kwargs)
            except AssertionError as e:
                tr = find_truncation(rec.calls)
                if tr:
                    out.count("class:molsalign_truncated_search")
                    out.violations.append(Finding("oracle:molsalign_truncated_search", {"case": case, "truncation": tr}, observed="AssertionError " + str(e)[:200],
                                                  expected="RMSD ~ 0 with the applied atom map", detail="mols_align stopped the permutation search at a near-equivalent wrong candidate; B787's own 1e-4 post-check then failed"))
                else:
                    out.violations.append(Finding("oracle:selfcheck", case_id, observed="AssertionError " + str(e)[:200], detail="B787's own sanity assertions failed on an in-scope input"))
                return
            except Exception as e:  # noqa
                out.violations.append(Finding("oracle:raised", case_id, observed=err_class(e) + ": " + str(e)[:200], detail="B787 raised on an in-scope input"))
                return
        out.count("mirror_returned:" + str(bool(sol.mirror)))
        if rec.substituted:
            out.count("hungarian_uno->permutative substitutions", rec.substituted)
        r = oracle_recipe(case, case_id, out, R, C, list(runiq), list(cuniq), rmsd, sol.rotation, sol.shift, sol.atommap, bool(sol.mirror),
                          run_mirror=kwargs["run_mirror"], known_map=kwargs["atoms_map"], route=route)
        if r:
            rm, near, slack = r
            amap = [int(x) for x in sol.atommap]
            trunc = None
            if rigid and rm > max(1e-9, slack) and kwargs["mols_align"]:
                trunc = find_truncation(rec.calls)
            if trunc:
                out.count("class:molsalign_truncated_search")
                out.violations.append(Finding("oracle:molsalign_truncated_search", {"case": case, "truncation": trunc}, observed=rm,
                                              expected="RMSD ~ 0 with the applied atom map", detail="mols_align stopped the permutation search at a near-equivalent wrong candidate (non-zero RMSD returned for a rigid copy)"))
            elif rigid:
                sv = collinearity(R)
                chiral = case["fam"] == "generic" and n >= 4 and len(sv) >= 3 and sv[2] >= 0.3
                flat = case["fam"] in ("planar", "collinear")  # mirror image = proper rotation with the same atom map
                if not case["mirrored"] or flat or bool(sol.mirror):
                    oracle_recovery(case, case_id, out, R, rm, near, slack, sol.rotation, sol.shift, amap, bool(sol.mirror),
                                    apply_recipe(C, sol.shift, sol.rotation, amap, bool(sol.mirror)), pend)
                if case["mirrored"] and chiral:
                    if kwargs["run_mirror"]:
                        out.count("mirror:chiral_requested")
                        if not sol.mirror:
                            out.violations.append(Finding("oracle:mirror_requested_not_found", case_id, observed=f"mirror=False rmsd={rm}", expected="mirror=True rmsd~0",
                                                          detail="mirror image of a chiral geometry, run_mirror requested, but no mirror match returned"))
                    else:
                        out.count("mirror:chiral_unrequested_rmsd>0" if rm > 1e-6 else "mirror:chiral_unrequested_rmsd~0")
        for ent in rec.calls:
            process_b787_call(ent, case_id, out, pend)
        if HAVE_NX and rigid and not case["mirrored"] and kwargs.get("algorithm", "hungarian_uno") == "hungarian_uno" \
                and (not kwargs["atoms_map"] or kwargs["run_resorting"]):
            check_true_map_candidate(case, case_id, out, R, C, runiq, cuniq, kwargs.get("uno_cutoff", 1.0e-3), "B787 search")
        if len(out.samples) < 4 or (len(out.samples) < 5 and sol.mirror):
            out.sample({"route": route, "n": n, "family": case["fam"], "related": case["related"], "flags": fl, "rmsd": float(rmsd),
                        "mirror": bool(sol.mirror), "atommap": [int(x) for x in sol.atommap]})
        return

    if route == "molecule":
        evaluate_molecule(case, case_id, out, pend, R, n)
        return
    if route == "plaus":
        evaluate_plaus(case, case_id, out, pend, R, C, runiq, cuniq)
        return
    raise ValueError(route)


def check_true_map_candidate(case, case_id, out: Outcome, R, C, runiq, cuniq, cutoff, where):
    """float counterpart of Props/C12Uno.lean `true_map_is_candidate`: for a rigid (unmirrored) copy the applied atom map
    has cost ~1e-20 in every class matrix, far below any cutoff >= 1e-6, so it must be among the enumerated candidates"""
    if float(cutoff) < 1e-6:
        return
    n = len(R)
    pm = case["perm"]
    inv = [pm.index(i) for i in range(n)]
    cands, _ = capture_uno(runiq, cuniq, R, C, cutoff)
    out.count("uno:true_map_checked")
    if inv not in cands:
        out.mismatches.append(Finding("mismatch:true_map_not_candidate", case_id, observed=f"{len(cands)} candidates, e.g. {cands[:3]}", expected=inv,
                                      detail=f"{where}: the applied atom map of a rigid copy is not among the hungarian_uno candidates (uno_cutoff={float(cutoff)!r})"))


def resolve_cutoff(case, runiq, cuniq, R, C):
    """uno_cutoff of a direct candidate-generation case: a literal, or a value read off the reduced matrices the solver
    returns for this very input (they do not depend on the cutoff) so that an entry sits exactly AT the threshold
    ('entry': that edge is excluded by `<`) or one ulp below it ('entry+ulp': included)"""
    cm = case["cutmode"]
    if cm["kind"] == "literal":
        return float(cm["value"])
    _, classes = capture_uno(runiq, cuniq, R, C, 1.0e-3)
    vals = sorted({float(v) for cl in classes for v in np.asarray(cl["red"]).ravel() if v > 0.0})
    if not vals:
        return 1.0e-3
    v = vals[int(cm["rank"]) % len(vals)]
    return float(np.nextafter(v, np.inf)) if cm["kind"] == "entry+ulp" else v


def evaluate_plaus(case, case_id, out: Outcome, pend, R, C, runiq, cuniq):
    """direct call of `_plausible_atom_orderings(..., algorithm='hungarian_uno', uno_cutoff=...)`: candidate SET vs model"""
    if not HAVE_NX:
        out.count("plaus:skipped(no networkx)")
        return
    try:
        cutoff = resolve_cutoff(case, runiq, cuniq, R, C)
        with recording() as rec:
            got = [[int(x) for x in c] for c in _A._plausible_atom_orderings(runiq.copy(), cuniq.copy(), R.copy(), C.copy(),
                                                                             algorithm="hungarian_uno", verbose=0, uno_cutoff=cutoff)]
    except Exception as e:  # noqa
        out.violations.append(Finding("oracle:raised", case_id, observed=err_class(e) + ": " + str(e)[:200], detail="_plausible_atom_orderings(hungarian_uno) raised on an in-scope input"))
        return
    out.count("cutmode:" + case["cutmode"]["kind"])
    cands, classes = capture_uno(runiq, cuniq, R, C, cutoff)
    if got != cands:
        out.mismatches.append(Finding("mismatch:O", case_id, observed=str(got[:4])[:300], expected=str(cands[:4])[:300], detail="direct call: two runs of the same search differ"))
    uno_lines(runiq, cuniq, R, C, cutoff, got, classes, case_id, out, pend, "direct _plausible_atom_orderings")
    if case["related"] == "rigid" and not case["mirrored"]:
        check_true_map_candidate(case, case_id, out, R, C, runiq, cuniq, cutoff, "direct call")
    if len(out.samples) < 6 and len(got) > 1:
        out.sample({"route": "plaus", "n": len(R), "family": case["fam"], "uno_cutoff": cutoff, "candidates": len(got)})


def evaluate_molecule(case, case_id, out, pend, R, n):
    import qcelemental as qcel

    fl = case["flags"]
    syms = [ELEMENT_OF[x] for x in case["runiq"]]
    A = case_rotation(case)
    sh = [float.fromhex(x) for x in case["shift"]]
    pm = case["perm"]
    perm_on = pm != list(range(n))
    s = collinearity(R)
    noncollinear = len(s) >= 2 and s[1] >= 0.3 and s[1] >= 0.03 * s[0]
    with recording() as rec:
        try:
            ref = qcel.models.Molecule(symbols=syms, geometry=R, fix_com=True, fix_orientation=True)
            Rg = np.array(ref.geometry)
            # the rotation/shift are determined only when the atom map is: for a symmetric molecule a permutation search
            # (shuffled atoms, or run_resorting=True on an unshuffled copy) may legitimately return a symmetry-equivalent map
            # with a different rotation and RMSD 0 (seen with the default hungarian_uno search once networkx was available)
            searched = perm_on or bool(fl.get("run_resorting", False))
            do_test = bool(noncollinear and (not searched or case["fam"] == "generic") and not (case["mirrored"] and case["fam"] != "generic"))
            cmol, sdata = ref.scramble(do_shift=sh, do_rotate=A.tolist(), do_resort=(pm if perm_on else False),
                                       do_mirror=case["mirrored"], do_test=do_test, run_resorting=fl.get("run_resorting", False), verbose=0)
            amol, adata = cmol.align(ref, atoms_map=not perm_on, mols_align=True, run_mirror=fl.get("run_mirror", False),
                                     run_resorting=fl.get("run_resorting", False), verbose=0)
        except AssertionError as e:
            tr = find_truncation(rec.calls)
            if tr:
                out.count("class:molsalign_truncated_search")
                out.violations.append(Finding("oracle:molsalign_truncated_search", {"case": case, "truncation": tr}, observed="AssertionError " + str(e)[:200],
                                              expected="RMSD ~ 0 with the applied atom map", detail="Molecule.align/scramble(mols_align=True): search truncated at a near-equivalent wrong candidate; own post-check failed"))
                return
            out.violations.append(Finding("oracle:scramble_selftest", case_id, observed="AssertionError " + str(e)[:200],
                                          detail="Molecule.scramble(do_test)/align: own check of the recovered motion failed on a non-collinear rigid copy"))
            for ent in rec.calls:
                process_b787_call(ent, case_id, out, pend)
            return
        except Exception as e:  # noqa
            out.violations.append(Finding("oracle:raised", case_id, observed=err_class(e) + ": " + str(e)[:200], detail="Molecule.scramble/align raised on an in-scope input"))
            return
    out.count("molecule:do_test=" + str(do_test))
    if rec.substituted:
        out.count("hungarian_uno->permutative substitutions", rec.substituted)
    V = out.violations
    # scramble produced what was asked for
    Cexp = Rg @ A + np.array(sh)
    if case["mirrored"]:
        Cexp[:, 1] = -Cexp[:, 1]
    Cexp = Cexp[pm]
    Cg = np.array(cmol.geometry)
    # scramble stores the copy through float_prep(geometry_noise=13): 13 decimals and a ZERO BAND |x| < 5**-14 = 1.64e-10, so a
    # coordinate of the exact copy in (1e-10, 1.64e-10) comes back as 0 (seen: planar molecule in its principal-axis frame
    # turned by 270 degrees) — the former 1e-10 tolerance lay inside that band (false alarm); 2e-10 lies just outside it
    if float(np.max(np.abs(Cg - Cexp))) > 2e-10 or list(cmol.symbols) != [syms[i] for i in pm]:
        V.append(Finding("oracle:scramble_applies_motion", case_id, observed=float(np.max(np.abs(Cg - Cexp))), expected="<= 2e-10", detail="scrambled molecule is not the requested rotated/shifted/shuffled copy"))
    count_centroid_relation(out, Rg, Cg, case["mirrored"], rotated=any(case["quat"][1:]) or "rotfloat" in case)
    mill = adata["mill"]
    cuniq = list(cmol.symbols)
    c2 = dict(case)
    r = oracle_recipe(c2, case_id, out, Rg, Cg, list(ref.symbols), cuniq, adata["rmsd"], mill.rotation, mill.shift, mill.atommap, bool(mill.mirror),
                      run_mirror=fl.get("run_mirror", False), known_map=not perm_on, route="molecule")
    if r:
        rm, near, slack = r
        chiral_mirror = case["mirrored"] and not mill.mirror and case["fam"] not in ("planar", "collinear")
        trunc = find_truncation(rec.calls) if (rm > max(1e-9, slack) and not chiral_mirror) else None
        if trunc:
            out.count("class:molsalign_truncated_search")
            V.append(Finding("oracle:molsalign_truncated_search", {"case": case, "truncation": trunc}, observed=rm, expected="RMSD ~ 0 with the applied atom map",
                             detail="Molecule.align(mols_align=True): search truncated at a near-equivalent wrong candidate (non-zero RMSD returned for a rigid copy)"))
        elif not chiral_mirror:
            # the aligned molecule sits on the reference atom by atom, elements matching
            Ag = np.array(amol.geometry)
            if rm <= max(1e-9, slack) and (float(np.max(np.abs(Ag - Rg))) > 1e-5 or list(amol.symbols) != list(ref.symbols)):
                V.append(Finding("oracle:molecule_aligned", case_id, observed=float(np.max(np.abs(Ag - Rg))), expected="<= 1e-5 bohr and equal symbols",
                                 detail="Molecule.align's returned molecule is not superimposed on the reference atom by atom"))
            amap = [int(x) for x in mill.atommap]
            oracle_recovery(case, case_id, out, Rg, rm, near, slack, mill.rotation, mill.shift, amap, bool(mill.mirror),
                            apply_recipe(Cg, mill.shift, mill.rotation, amap, bool(mill.mirror)), pend)
    for ent in rec.calls:
        process_b787_call(ent, case_id, out, pend)
    out.sample({"route": "molecule", "n": n, "family": case["fam"], "perm": pm, "mirrored": case["mirrored"], "rmsd": float(adata["rmsd"]), "mirror": bool(mill.mirror)})


# ------------------------------------------------------------------------------------------------


def run_model_chunks(ctx: Ctx, lines, nproc=4):
    """the driver is a pure line-by-line function, so the stream is cut into `nproc` contiguous chunks of about equal
    size (bytes) that go through separate driver processes concurrently; answers are concatenated in order"""
    import copy
    from concurrent.futures import ThreadPoolExecutor

    total = sum(len(x) for x in lines)
    if len(lines) < 200 or total < 2_000_000:
        return ctx.run_model(DRIVER, lines)
    chunks, cur, acc = [], [], 0
    for x in lines:
        cur.append(x)
        acc += len(x)
        if acc >= total / nproc and len(chunks) < nproc - 1:
            chunks.append(cur)
            cur, acc = [], 0
    if cur:
        chunks.append(cur)

    def one(ic):
        c = copy.copy(ctx)  # own batch counter -> own input file name
        c._batch = 1000 * (ic + 1)
        return c.run_model(DRIVER, chunks[ic])

    with ThreadPoolExecutor(max_workers=len(chunks)) as ex:
        parts = list(ex.map(one, range(len(chunks))))
    return [a for part in parts for a in part]


SRC_OPS = {"K": "KS", "B": "BS", "P": "PS"}  # hand-model op -> op answered by the source-derived function (Props/C12Src.lean)


def answer_pending(ctx: Ctx, pend, out: Outcome):
    """send every pending line through the driver; every K / B / P line is ALSO sent as KS / BS / PS (the same input answered by
    the functions regenerated from align.py, Gen/KabschSrc.lean + Gen/B787Src.lean) and the two answers must be the same text -
    Props/C12Src.lean proves them equal, so a difference is a broken tie (translator / evaluator / build), reported as
    mismatch:src; the hand-model answer is then compared with the implementation as before (three-way)."""
    out.count("model_lines", len(pend))
    if ctx.model_available and pend:
        lines = [p.line for p in pend]
        twins = [(i, SRC_OPS[ln.split("|", 1)[0]] + "|" + ln.split("|", 1)[1]) for i, ln in enumerate(lines)
                 if ln.split("|", 1)[0] in SRC_OPS]
        answers = run_model_chunks(ctx, lines + [t for _, t in twins])
        for (i, t), a in zip(twins, answers[len(lines):]):
            out.count("src:" + t.split("|", 1)[0])
            if a != answers[i]:
                out.mismatches.append(Finding("mismatch:src", {"line": lines[i][:2000]}, observed=a[:400], expected=answers[i][:400],
                                              detail="source-derived function (op " + t.split("|", 1)[0] + ", regenerated from align.py) differs from the hand model "
                                                     "on this input - contradicts Props/C12Src.lean (kabschAlign_src_partial / run_src / candidates_src)"))
        for p, a in zip(pend, answers[:len(lines)]):
            p.cmp(a)
    elif pend:
        out.notes.append("Lean model unavailable: oracle only")


def run_cases(ctx: Ctx, cases, out: Outcome):
    global MODEL_AVAILABLE
    MODEL_AVAILABLE = bool(ctx.model_available)
    pend = []
    for i, case in enumerate(cases):
        case.setdefault("seed", (ctx.seed * 7919 + i * 104729) % (2**31))
        evaluate(case, out, pend)
    answer_pending(ctx, pend, out)


R_TOL = Fraction(1, 10**12)  # entrywise |model M - numpy M|
R_DEFECT = Fraction(1, 10**25)  # normalisation defects of the driver's rational sin/cos/sqrt (hypotheses of Props/C12RandRot.lean)


def flush_pending(ctx: Ctx, pend, out: Outcome):
    answer_pending(ctx, pend, out)


def cmp_random_rotation(case, M, out: Outcome):
    """driver op R: the model of random_rotation_matrix (Model/RandRot.lean) evaluated on the exact rationals of the three
    uniform doubles numpy's seeded generator produced; every entry must agree with the implementation's matrix to 1e-12, and the
    hypotheses of `randomRotationMatrix_proper` must hold at the driver's approximations of sin/cos/sqrt to 1e-25 (so the
    model's own matrix is orthogonal with det 1 to that accuracy: reported as `orth`, `det1`)"""
    Mf = [Fraction(float(x)) for x in np.asarray(M, dtype=float).ravel()]

    def cmp(ans):
        out.count("R:lines")
        bad = None
        try:
            if not ans.startswith("ok "):
                raise ValueError(ans)
            d = parse_kv(ans)
            mm = [parse_rat(x) for x in d["M"].split(",")]
            if len(mm) != 9:
                raise ValueError("entries")
            worst = max(abs(a - b) for a, b in zip(mm, Mf))
            defects = [abs(parse_rat(d[k])) for k in ("nt", "np", "nv", "orth", "det1")]
            if max(defects) > R_DEFECT:
                bad = f"normalisation defect of the driver's approximations {float(max(defects)):.3e} > 1e-25"
            elif worst > R_TOL:
                k = max(range(9), key=lambda i: abs(mm[i] - Mf[i]))
                bad = f"entry [{k // 3},{k % 3}]: model {float(mm[k])!r} implementation {float(Mf[k])!r} (|diff| {float(worst):.3e} > 1e-12)"
            else:
                out.count("R:agree(<=1e-12 entrywise)")
        except Exception as e:  # noqa
            bad = f"unreadable answer {ans[:120]!r} ({type(e).__name__})"
        if bad:
            out.mismatches.append(Finding("mismatch:R", {"case": case}, observed=bad, expected="model of random_rotation_matrix = implementation entrywise to 1e-12",
                                          detail="np_rand3drot.random_rotation_matrix vs Model/RandRot.lean on the captured uniform numbers"))

    return cmp


def random_motion_stream(ctx: Ctx, out: Outcome, pend=None):
    """The library's OWN generator of rigid copies (Molecule.scramble with do_rotate=True / do_shift=True and its `deflection`
    argument, util.random_rotation_matrix): the copy it makes must be a rigid image of the reference (every interatomic distance
    kept, handedness kept), the motion it reports a proper rotation, and aligning the copy back must give RMSD ~ 0 — for every
    deflection in (0, 1], not only the default 1.0.  The motion is drawn by numpy's global generator, seeded per case.
    Correspondence (driver op R): the three uniform numbers that generator hands to random_rotation_matrix are captured (same
    seed, same draw `np.random.uniform(size=(3,))`, and cross-checked by calling the function again with `randnums=` — the two
    matrices must be bitwise equal) and the Lean model is evaluated on their exact rationals."""
    import qcelemental as qcel

    rng = ctx.rng
    own = pend is None
    if own:
        pend = []
    for k in range(ctx.scale(60, 600)):
        defl = rng.choice([1.0, 1.0, 0.75, 0.5, 0.3, 0.1, 0.02])
        seed = rng.randrange(2**31)
        n = rng.randint(3, 7)
        G = gen_geometry(rng, "generic", n)
        syms = [rng.choice(["H", "C", "N", "O", "F"]) for _ in range(n)]
        case = {"route": "scramble_random", "deflection": defl, "np_seed": seed, "symbols": syms, "R": hexl(G)}
        out.evaluations += 1
        out.count(f"random_motion:deflection={defl}")
        out.nontrivial(repr((defl, seed, case["R"][0])))
        try:
            np.random.seed(seed)
            u = np.array(np.random.uniform(size=(3,)), dtype=float)  # what the function will draw (np_rand3drot.py:29)
            np.random.seed(seed)
            M = np.asarray(qcel.util.random_rotation_matrix(deflection=defl))
            if ctx.model_available:
                M2 = np.asarray(qcel.util.random_rotation_matrix(deflection=defl, randnums=u.copy()))
                if M.shape != (3, 3) or M2.shape != (3, 3) or M.tobytes() != M2.tobytes():
                    out.mismatches.append(Finding("mismatch:R-capture", {"case": case}, observed="random_rotation_matrix(deflection) after np.random.seed(s) differs from random_rotation_matrix(deflection, randnums=first three uniforms after seed(s))",
                                                  expected="bitwise equal", detail="the three random numbers could not be captured"))
                else:
                    case["randnums"] = [float(x).hex() for x in u]
                    pend.append(Pending("R|" + fr(defl) + "|" + "|".join(fr(x) for x in u), cmp_random_rotation(case, M, out)))
            if float(np.max(np.abs(M @ M.T - np.eye(3)))) > 1e-10 or abs(float(np.linalg.det(M)) - 1.0) > 1e-10:
                out.violations.append(Finding("oracle:random_rotation_not_proper", {"case": case}, observed={"det": float(np.linalg.det(M)), "orth_defect": float(np.max(np.abs(M @ M.T - np.eye(3))))},
                                              expected="orthogonal, det +1", detail=f"random_rotation_matrix(deflection={defl}) is not a proper rotation"))
                continue
            ref = qcel.models.Molecule(symbols=syms, geometry=G, fix_com=True, fix_orientation=True)
            np.random.seed(seed)
            cmol, sdata = ref.scramble(do_shift=True, do_rotate=True, do_resort=False, deflection=defl, do_mirror=False, do_test=False, verbose=0)
            Rg, Cg = np.array(ref.geometry), np.array(cmol.geometry)
            D0 = np.sqrt(((Rg[:, None] - Rg[None]) ** 2).sum(-1))
            D1 = np.sqrt(((Cg[:, None] - Cg[None]) ** 2).sum(-1))
            if float(np.max(np.abs(D0 - D1))) > 1e-8:
                out.violations.append(Finding("oracle:scramble_not_rigid", {"case": case}, observed=float(np.max(np.abs(D0 - D1))), expected="<= 1e-8 bohr",
                                              detail=f"Molecule.scramble(do_rotate=True, deflection={defl}) does not return a rigid copy: interatomic distances changed"))
                continue
            amol, adata = cmol.align(ref, atoms_map=True, mols_align=False, run_mirror=False, verbose=0)
            if float(adata["rmsd"]) > 1e-6:
                out.violations.append(Finding("oracle:recovery_rmsd", {"case": case}, observed=float(adata["rmsd"]), expected="~0",
                                              detail="the library's own rigid copy is not aligned back onto the reference"))
        except Exception as e:  # noqa
            out.violations.append(Finding("oracle:raised", {"case": case}, observed=err_class(e) + ": " + str(e)[:200], detail="random_rotation_matrix / scramble / align raised on an in-scope input"))
    if own:
        flush_pending(ctx, pend, out)


def run(ctx: Ctx) -> Outcome:
    out = Outcome()
    _install()
    cases = list(gen_cases(ctx))
    run_cases(ctx, cases, out)
    random_motion_stream(ctx, out)
    out.exhaustive = False
    out.notes.append("all blocks sampled from VERIF_SEED; motions are exact rational rotations from integer quaternions")
    d = out.distribution
    out.notes.append("pivot block: shift derived from the geometry (rotation in place about the own centroid / an atom / a point, centred copy or "
                     "reference, opposite / partially equal / nearly equal centroids), rigid, noisy and unrelated pairs on every route; "
                     f"cases with coinciding off-origin centroids and a rotated or unrelated second geometry this run: "
                     f"{d.get('centroids:coincide(<1e-10),off-origin,second geometry rotated/unrelated', 0)}")
    out.notes.append(f"networkx available: {HAVE_NX}")
    if not HAVE_NX:
        out.notes.append("fallback without networkx (old wording): " + NX_TEXT_ABSENT)
    else:
        d = out.distribution
        out.notes.append(f"hungarian_uno candidate generations replayed through the model this run: {d.get('uno:calls', 0)} "
                         f"(class calls {d.get('U:lines', 0)}, solver answers certified by certGap {d.get('U:certified_gap_ok', 0)}, "
                         f"applied atom map looked up among the candidates in {d.get("uno:true_map_checked", 0)} rigid cases; a miss is a disagreement)")
    return out


def replay(ctx: Ctx, case) -> Outcome:
    out = Outcome()
    c = case["case"] if isinstance(case, dict) and "case" in case else case
    if isinstance(c, dict) and c.get("route") == "scramble_random":
        random_motion_stream(ctx, out)  # the stream is cheap and seeded: re-run it whole
        return out
    run_cases(ctx, [dict(c)], out)
    return out


def known_predicate(finding: Finding, entry) -> bool:
    """C12-molsalign-truncation: only when the harness recorded, from the real code's own trial RMSDs, that the
    search stopped at a candidate with rounded RMSD > 1e-6 A (< a_convergence) while a later candidate reaches <= 1e-6 A"""
    if entry.get("id") != "C12-molsalign-truncation" or finding.kind != "oracle:molsalign_truncated_search":
        return False
    try:
        t = finding.case["truncation"]
        return 100 < int(t["first_units"]) < int(t["aconv"]) and int(t["min_units"]) <= 100 and bool(t["mols_align"])
    except Exception:
        return False
