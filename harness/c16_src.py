"""C16 translator: qcelemental/models/molecule.py  ->  lean/QcelVerif/Gen/OrientSrc.lean

Reads the file with `ast` on every run, locates `Molecule._orient_molecule_internal`, `Molecule._inertial_tensor` and the
module constant `GEOMETRY_NOISE` BY NAME, walks the two bodies statement by statement and re-expresses them as a term of
`OrientProg` (lean/QcelVerif/Model/OrientAst.lean).  The statement SEQUENCE of `_orient_molecule_internal` is fixed (see
`orient_body`); inside each statement only the fragment documented in OrientAst.lean is recognised.  Anything else --
different variable names, extra / missing / reordered statements, an unknown call -- raises `Untranslatable` (a ValueError)
with file:line and the `ast.unparse` text of the offending node: the harness then reports a broken translator and the
check cannot pass.  No numpy semantics are guessed here; the meaning of every constructor is given by the evaluator in
OrientAst.lean.
"""
from __future__ import annotations

import ast

import common

SRC = ("qcelemental", "models", "molecule.py")
OUT = ("QcelVerif", "Gen", "OrientSrc.lean")
GEOM, MASS, TENSOR, EVECS, FLAGS, NOISE, OUTER, INNER, VAL = (
    "new_geometry", "np_mass", "tensor", "evecs", "phase_check", "geom_noise", "num", "x", "val")
CMPS = {ast.Lt: "lt", ast.LtE: "le", ast.Gt: "gt", ast.GtE: "ge"}
FLIP = {"lt": "gt", "le": "ge", "gt": "lt", "ge": "le"}
BINOPS = {ast.Add: "add", ast.Sub: "sub", ast.Mult: "mul"}


class Untranslatable(ValueError):
    pass


_FILE = ["molecule.py"]


def fail(node, msg):
    ln = getattr(node, "lineno", "?")
    try:
        src = ast.unparse(node)
    except Exception:  # noqa
        src = "<?>"
    raise Untranslatable(f"{_FILE[0]}:{ln}: {msg}: `{src[:200]}`")


# ---------------------------------------------------------------- small matchers
def is_name(node, name):
    return isinstance(node, ast.Name) and node.id == name


def is_np(node, name):
    return isinstance(node, ast.Attribute) and is_name(node.value, "np") and node.attr == name


def is_const(node, value):
    return isinstance(node, ast.Constant) and type(node.value) is type(value) and node.value == value


def lit_of(node):
    """integral Python literal (int, or float with integral value), optional leading minus -> int, else None"""
    if isinstance(node, ast.Constant) and type(node.value) in (int, float) and float(node.value).is_integer():
        return int(node.value)
    if isinstance(node, ast.UnaryOp) and isinstance(node.op, ast.USub):
        v = lit_of(node.operand)
        return None if v is None else -v
    return None


def is_numeric_literal(node):
    if isinstance(node, ast.UnaryOp) and isinstance(node.op, ast.USub):
        return is_numeric_literal(node.operand)
    return isinstance(node, ast.Constant) and type(node.value) in (int, float)


def lean_int(i: int) -> str:
    return f"({i})" if i < 0 else f"{i}"


def plain_call(node, nargs, kwnames=()):
    """a Call with exactly `nargs` positional arguments (no starred) and exactly the keywords `kwnames` (any order)"""
    if not isinstance(node, ast.Call):
        return False
    if len(node.args) != nargs or any(isinstance(a, ast.Starred) for a in node.args):
        return False
    return sorted(k.arg or "**" for k in node.keywords) == sorted(kwnames)


def kw(node, name):
    return next(k.value for k in node.keywords if k.arg == name)


def strip_doc(body):
    if body and isinstance(body[0], ast.Expr) and isinstance(body[0].value, ast.Constant) and isinstance(body[0].value.value, str):
        return body[1:]
    return body


def single_target(st, name=None):
    if not isinstance(st, ast.Assign) or len(st.targets) != 1:
        fail(st, "expected a single-target assignment")
    if name is not None and not is_name(st.targets[0], name):
        fail(st, f"expected an assignment to `{name}`")
    return st.value


def index_pair(node, base):
    """`base[a, b]` or `base[a][b]` -> (a, b) (ast nodes), else None"""
    if not isinstance(node, ast.Subscript):
        return None
    if is_name(node.value, base) and isinstance(node.slice, ast.Tuple) and len(node.slice.elts) == 2:
        return node.slice.elts[0], node.slice.elts[1]
    if (isinstance(node.value, ast.Subscript) and is_name(node.value.value, base)
            and not isinstance(node.value.slice, (ast.Tuple, ast.Slice)) and not isinstance(node.slice, (ast.Tuple, ast.Slice))):
        return node.value.slice, node.slice
    return None


def is_full_slice(node):
    return isinstance(node, ast.Slice) and node.lower is None and node.upper is None and node.step is None


def ax_of(node):
    if isinstance(node, ast.Constant) and type(node.value) is int and node.value in (0, 1, 2):
        return f".a{node.value}"
    fail(node, "expected an index literal 0, 1 or 2")


def idx_of(node):
    if is_name(node, OUTER):
        return ".outer"
    if is_name(node, INNER):
        return ".inner"
    fail(node, f"expected the loop variable `{OUTER}` or `{INNER}`")


# ---------------------------------------------------------------- _inertial_tensor
def ce(node):
    if is_name(node, "weight"):
        return ".weight"
    if isinstance(node, ast.Subscript) and is_name(node.value, "geom"):
        s = node.slice
        if isinstance(s, ast.Tuple) and len(s.elts) == 2 and is_full_slice(s.elts[0]):
            return f"(.col {ax_of(s.elts[1])})"
        fail(node, "expected `geom[:, j]`")
    if isinstance(node, ast.BinOp):
        if isinstance(node.op, ast.Pow):
            n = lit_of(node.right)
            if n is None or n < 0 or not isinstance(node.right, ast.Constant):
                fail(node, "exponent must be a non-negative integral literal")
            return f"(.pow {ce(node.left)} {n})"
        if type(node.op) in BINOPS:
            return f"(.{BINOPS[type(node.op)]} {ce(node.left)} {ce(node.right)})"
    fail(node, "not a recognised per-atom array expression")


def se(node):
    if is_numeric_literal(node):
        k = lit_of(node)
        if k is None:
            fail(node, "non-integral literal")
        return f"(.lit {lean_int(k)})"
    if isinstance(node, ast.UnaryOp) and isinstance(node.op, ast.USub):
        return f"(.mul (.lit (-1)) {se(node.operand)})"
    if isinstance(node, ast.Call) and is_np(node.func, "sum"):
        if not plain_call(node, 1):
            fail(node, "np.sum takes exactly one positional argument here")
        return f"(.sum {ce(node.args[0])})"
    if isinstance(node, ast.BinOp) and type(node.op) in BINOPS:
        return f"(.{BINOPS[type(node.op)]} {se(node.left)} {se(node.right)})"
    fail(node, "not a recognised scalar expression")


def tensor_fn(fn, trace):
    a = fn.args
    if ([x.arg for x in a.posonlyargs + a.args] != ["geom"] or [x.arg for x in a.kwonlyargs] != ["weight"]
            or a.vararg or a.kwarg or a.defaults or any(d is not None for d in a.kw_defaults)):
        fail(fn, "expected the signature (geom, *, weight)")
    body = strip_doc(fn.body)
    if len(body) < 2:
        fail(fn, "body too short")
    first, last = body[0], body[-1]
    v = single_target(first, TENSOR)
    if not (plain_call(v, 1) and is_np(v.func, "zeros") and isinstance(v.args[0], ast.Tuple) and len(v.args[0].elts) == 2
            and all(is_const(e, 3) for e in v.args[0].elts)):
        fail(first, "expected `tensor = np.zeros((3, 3))`")
    trace.append(first)
    out = []
    for st in body[1:-1]:
        if not isinstance(st, ast.Assign):
            fail(st, "expected `tensor[i][j] = ... = <expr>`")
        tg = []
        for t in st.targets:
            p = index_pair(t, TENSOR)
            if p is None:
                fail(t, "expected a target `tensor[i][j]`")
            tg.append(f"({ax_of(p[0])}, {ax_of(p[1])})")
        out.append(f"⟨[{', '.join(tg)}], {se(st.value)}⟩")
        trace.append(st)
    if not (isinstance(last, ast.Return) and is_name(last.value, TENSOR)):
        fail(last, "expected `return tensor`")
    trace.append(last)
    return out


# ---------------------------------------------------------------- _orient_molecule_internal
def me(node):
    if is_name(node, GEOM):
        return ".geom"
    if is_name(node, EVECS):
        return ".evecs"
    if isinstance(node, ast.Attribute) and node.attr == "T":
        return f"(.tr {me(node.value)})"
    if isinstance(node, ast.BinOp) and isinstance(node.op, ast.MatMult):
        return f"(.dot {me(node.left)} {me(node.right)})"
    if isinstance(node, ast.Call):
        if is_np(node.func, "transpose") and plain_call(node, 1):
            return f"(.tr {me(node.args[0])})"
        if is_np(node.func, "dot") and plain_call(node, 2):
            return f"(.dot {me(node.args[0])} {me(node.args[1])})"
        if isinstance(node.func, ast.Attribute) and node.func.attr == "dot" and not is_name(node.func.value, "np") and plain_call(node, 1):
            return f"(.dot {me(node.func.value)} {me(node.args[0])})"
    fail(node, "not a recognised matrix expression")


def centre(st):
    if not (isinstance(st, ast.AugAssign) and isinstance(st.op, ast.Sub) and is_name(st.target, GEOM)):
        fail(st, f"expected `{GEOM} -= ...`")
    v = st.value
    if isinstance(v, ast.Call):
        f = v.func
        if is_np(f, "average") and plain_call(v, 1, ("axis", "weights")) and is_name(v.args[0], GEOM) \
                and is_const(kw(v, "axis"), 0) and is_name(kw(v, "weights"), MASS):
            return ".average true"
        if (is_np(f, "average") or is_np(f, "mean")) and plain_call(v, 1, ("axis",)) and is_name(v.args[0], GEOM) \
                and is_const(kw(v, "axis"), 0):
            return ".average false"
        if isinstance(f, ast.Attribute) and f.attr == "mean" and is_name(f.value, GEOM) and plain_call(v, 0, ("axis",)) \
                and is_const(kw(v, "axis"), 0):
            return ".average false"
    fail(st, "not a recognised centring statement")


def is_continue(body):
    return len(body) == 1 and isinstance(body[0], ast.Continue)


def abs_of_val(node):
    return (plain_call(node, 1) and (is_name(node.func, "abs") or is_np(node.func, "abs") or is_np(node.func, "absolute"))
            and is_name(node.args[0], VAL))


def single_compare(test):
    if isinstance(test, ast.Compare) and len(test.ops) == 1 and type(test.ops[0]) in CMPS:
        return test.left, CMPS[type(test.ops[0])], test.comparators[0]
    return None


def pstmt(st):
    if isinstance(st, ast.If):
        if st.orelse:
            fail(st, "`else` branches are outside the fragment")
        t = st.test
        if is_continue(st.body):
            if isinstance(t, ast.Subscript) and is_name(t.value, FLAGS) and is_name(t.slice, INNER):
                return ".continueIfFlag"
            c = single_compare(t)
            if c is not None:
                l, op, r = c
                if abs_of_val(l) and is_name(r, NOISE):
                    return f".continueIfAbs .{op}"
                if is_name(l, NOISE) and abs_of_val(r):
                    return f".continueIfAbs .{FLIP[op]}"
            fail(st, "not a recognised `continue` guard")
        c = single_compare(t)
        if c is not None and is_name(c[0], VAL) and is_numeric_literal(c[2]) and len(st.body) == 1:
            lit = lit_of(c[2])
            if lit is None:
                fail(c[2], "non-integral literal")
            b = st.body[0]
            if isinstance(b, ast.AugAssign) and isinstance(b.op, ast.Mult) and isinstance(b.target, ast.Subscript) \
                    and is_name(b.target.value, GEOM):
                if not is_numeric_literal(b.value):
                    fail(b, "factor must be a numeric literal")
                fac = lit_of(b.value)
                if fac is None:
                    fail(b.value, "non-integral literal")
                s = b.target.slice
                if isinstance(s, ast.Tuple) and len(s.elts) == 2:
                    if is_full_slice(s.elts[0]) and not isinstance(s.elts[1], ast.Slice):
                        return f".mulIf .{c[1]} {lean_int(lit)} .col {idx_of(s.elts[1])} {lean_int(fac)}"
                    if is_full_slice(s.elts[1]) and not isinstance(s.elts[0], ast.Slice):
                        return f".mulIf .{c[1]} {lean_int(lit)} .row {idx_of(s.elts[0])} {lean_int(fac)}"
                elif not isinstance(s, (ast.Slice, ast.Tuple)):
                    return f".mulIf .{c[1]} {lean_int(lit)} .row {idx_of(s)} {lean_int(fac)}"
            fail(b, "not a recognised in-place multiplication")
        fail(st, "not a recognised `if` statement of the phase loop")
    if isinstance(st, ast.Assign) and len(st.targets) == 1:
        tg, v = st.targets[0], st.value
        if is_name(tg, VAL):
            p = index_pair(v, GEOM)
            if p is None:
                fail(st, f"expected `{VAL} = {GEOM}[i, j]`")
            return f".readVal {idx_of(p[0])} {idx_of(p[1])}"
        if isinstance(tg, ast.Subscript) and is_name(tg.value, FLAGS) and is_name(tg.slice, INNER) and is_const(v, True):
            return ".setFlag"
    fail(st, "not a recognised statement of the phase loop")


def range_loop(st, var):
    if not (isinstance(st, ast.For) and is_name(st.target, var) and not st.orelse and plain_call(st.iter, 1)
            and is_name(st.iter.func, "range")):
        fail(st, f"expected `for {var} in range(...)`")
    return st.iter.args[0]


def translate_source(text: str, filename: str = "molecule.py") -> str:
    _FILE[0] = filename
    mod = ast.parse(text)
    # ---- locate by name
    noise_exp = None
    for st in mod.body:
        tg = None
        if isinstance(st, ast.Assign) and len(st.targets) == 1:
            tg, val = st.targets[0], st.value
        elif isinstance(st, ast.AnnAssign) and st.value is not None:
            tg, val = st.target, st.value
        if tg is not None and is_name(tg, "GEOMETRY_NOISE"):
            if noise_exp is not None:
                fail(st, "GEOMETRY_NOISE assigned twice")
            if not (isinstance(val, ast.Constant) and type(val.value) is int and val.value >= 0):
                fail(st, "GEOMETRY_NOISE must be a non-negative int literal")
            noise_exp = (val.value, st)
    if noise_exp is None:
        fail(mod, "module constant GEOMETRY_NOISE not found")
    classes = [n for n in mod.body if isinstance(n, ast.ClassDef) and n.name == "Molecule"]
    if len(classes) != 1:
        fail(mod, "expected exactly one `class Molecule`")
    fns = {}
    for n in classes[0].body:
        if isinstance(n, ast.FunctionDef):
            if n.name in fns and n.name in ("_orient_molecule_internal", "_inertial_tensor", "inertial_tensor"):
                fail(n, "defined twice")
            fns[n.name] = n
    if "_orient_molecule_internal" not in fns:
        fail(classes[0], "Molecule._orient_molecule_internal not found")
    tname = "_inertial_tensor" if "_inertial_tensor" in fns else "inertial_tensor"
    if tname not in fns:
        fail(classes[0], "Molecule._inertial_tensor not found")
    ofn, tfn = fns["_orient_molecule_internal"], fns[tname]

    otrace, ttrace = [], []
    tensor = tensor_fn(tfn, ttrace)

    # ---- _orient_molecule_internal: the fixed statement sequence
    a = ofn.args
    if [x.arg for x in a.posonlyargs + a.args] != ["self"] or a.kwonlyargs or a.vararg or a.kwarg:
        fail(ofn, "expected the signature (self)")
    s = strip_doc(ofn.body)

    def self_attr(node, attr):
        return isinstance(node, ast.Attribute) and node.attr == attr and is_name(node.value, "self")

    def stmt(i, what):
        if i >= len(s):
            fail(ofn, f"statement {i + 1} missing ({what})")
        return s[i]

    # 1
    st = stmt(0, "new_geometry = self.geometry.copy()")
    v = single_target(st, GEOM)
    if not (plain_call(v, 0) and isinstance(v.func, ast.Attribute) and v.func.attr == "copy" and self_attr(v.func.value, "geometry")):
        fail(st, "expected `new_geometry = self.geometry.copy()`")
    # 2
    st = stmt(1, "np_mass = np.array(self.masses)")
    v = single_target(st, MASS)
    if not (plain_call(v, 1) and is_np(v.func, "array") and self_attr(v.args[0], "masses")):
        fail(st, "expected `np_mass = np.array(self.masses)`")
    # 3
    centre_l = centre(stmt(2, "new_geometry -= np.average(...)"))
    # 4
    st = stmt(3, "tensor = self._inertial_tensor(new_geometry, weight=np_mass)")
    v = single_target(st, TENSOR)
    if not (plain_call(v, 1, ("weight",)) and self_attr(v.func, tname) and is_name(v.args[0], GEOM) and is_name(kw(v, "weight"), MASS)):
        fail(st, f"expected `tensor = self.{tname}(new_geometry, weight=np_mass)`")
    # 5
    st = stmt(4, "_, evecs = np.linalg.eigh(tensor)")
    v = single_target(st)
    tg = st.targets[0]
    f = v.func if isinstance(v, ast.Call) else None
    if not (isinstance(tg, ast.Tuple) and len(tg.elts) == 2 and isinstance(tg.elts[0], ast.Name)
            and tg.elts[0].id not in (GEOM, MASS, TENSOR, EVECS, FLAGS, NOISE, OUTER, INNER, VAL, "self", "np")
            and is_name(tg.elts[1], EVECS)
            and plain_call(v, 1) and isinstance(f, ast.Attribute) and f.attr == "eigh" and is_np(f.value, "linalg")
            and is_name(v.args[0], TENSOR)):
        fail(st, "expected `_, evecs = np.linalg.eigh(tensor)`")
    # 6
    st = stmt(5, "new_geometry = <matrix expression>")
    rot_l = me(single_target(st, GEOM))
    # 7
    st = stmt(6, "phase_check = [False, False, False]")
    v = single_target(st, FLAGS)
    if not (isinstance(v, ast.List) and len(v.elts) == 3 and all(is_const(e, False) for e in v.elts)):
        fail(st, "expected `phase_check = [False, False, False]`")
    # 8
    st = stmt(7, "geom_noise = B ** (-GEOMETRY_NOISE)")
    v = single_target(st, NOISE)
    if not (isinstance(v, ast.BinOp) and isinstance(v.op, ast.Pow) and isinstance(v.left, ast.Constant)
            and type(v.left.value) is int and v.left.value > 0
            and isinstance(v.right, ast.UnaryOp) and isinstance(v.right.op, ast.USub) and is_name(v.right.operand, "GEOMETRY_NOISE")):
        fail(st, "expected `geom_noise = <positive int literal> ** (-GEOMETRY_NOISE)`")
    base = v.left.value
    # 9
    outer = stmt(8, "for num in range(new_geometry.shape[0]):")
    b = range_loop(outer, OUTER)
    if not (isinstance(b, ast.Subscript) and is_const(b.slice, 0) and isinstance(b.value, ast.Attribute) and b.value.attr == "shape"
            and is_name(b.value.value, GEOM)):
        fail(outer.iter, "expected `range(new_geometry.shape[0])`")
    if len(outer.body) not in (1, 2):
        fail(outer.body[2] if len(outer.body) > 2 else outer, "the outer loop holds the inner loop and optionally the break test")
    inner = outer.body[0]
    if not is_const(range_loop(inner, INNER), 3):
        fail(inner.iter, "expected `range(3)`")
    body_l = [pstmt(x) for x in inner.body]
    has_break = False
    if len(outer.body) == 2:
        bt = outer.body[1]
        t = bt.test if isinstance(bt, ast.If) else None
        if not (isinstance(bt, ast.If) and not bt.orelse and len(bt.body) == 1 and isinstance(bt.body[0], ast.Break)
                and isinstance(t, ast.Compare) and len(t.ops) == 1 and isinstance(t.ops[0], ast.Eq) and is_const(t.comparators[0], 3)
                and plain_call(t.left, 1) and is_name(t.left.func, "sum") and is_name(t.left.args[0], FLAGS)):
            fail(bt, "expected `if sum(phase_check) == 3: break`")
        has_break = True
    # 10
    st = stmt(9, "return new_geometry")
    if not (isinstance(st, ast.Return) and is_name(st.value, GEOM)):
        fail(st, "expected `return new_geometry`")
    if len(s) > 10:
        fail(s[10], "unexpected statement after `return new_geometry` (exactly 10 statements expected)")

    # ---- the generated file
    def doc(st):
        txt = " ".join(ast.unparse(st).split()).replace("/-", "/ -").replace("-/", "- /")
        return f"  L{st.lineno}: {txt}"

    lines = [f"  L{noise_exp[1].lineno}: {ast.unparse(noise_exp[1])}", f"  def _orient_molecule_internal (L{ofn.lineno}):"]
    for st in s[:8]:
        lines.append("  " + doc(st))
    lines.append("  " + f"  L{outer.lineno}: for {ast.unparse(outer.target)} in {ast.unparse(outer.iter)}:")
    lines.append("  " + f"    L{inner.lineno}: for {ast.unparse(inner.target)} in {ast.unparse(inner.iter)}:")
    for st in inner.body:
        lines.append("      " + doc(st))
    for st in outer.body[1:]:
        lines.append("    " + doc(st))
    lines.append("  " + doc(s[9]))
    lines.append(f"  def {tname} (L{tfn.lineno}):")
    for st in ttrace:
        lines.append("  " + doc(st))
    out = ["import QcelVerif.Model.OrientAst", "/-! GENERATED by harness/c16_src.py from qcelemental/models/molecule.py — do not edit.",
           "Translated statements (source line: `ast.unparse` text):", *lines, "-/",
           "namespace QcelVerif.Gen.OrientSrc", "open QcelVerif.OrientAst", "", "def orient : OrientProg where",
           f"  centre := {centre_l}", "  tensor := ["]
    out.append(",\n".join("    " + t for t in tensor) + "]")
    prep_l, prep_doc = float_prep_fn(mod)
    out[3:3] = prep_doc
    out += [f"  rot := {rot_l}", f"  noiseBase := {base}", f"  noiseNegExp := {noise_exp[0]}", f"  body := [{', '.join(body_l)}]",
            f"  hasBreak := {'true' if has_break else 'false'}", "", *prep_l, "", "end QcelVerif.Gen.OrientSrc", ""]
    return "\n".join(out)


def float_prep_fn(mod):
    """module-level `float_prep(array, around)`: the array branch, and its use on the oriented geometry in the validator.
    -> (Lean lines of `def prep : PrepProg`, doc lines)"""
    fns = [st for st in mod.body if isinstance(st, ast.FunctionDef) and st.name == "float_prep"]
    if len(fns) != 1:
        raise Untranslatable(f"{_FILE[0]}: expected exactly one module-level `def float_prep`, found {len(fns)}")
    fn = fns[0]
    if [a.arg for a in fn.args.args] != ["array", "around"] or fn.args.vararg or fn.args.kwarg or fn.args.kwonlyargs:
        fail(fn, "expected `def float_prep(array, around)`")
    body = strip_doc(fn.body)
    if not (len(body) == 2 and isinstance(body[0], ast.If) and isinstance(body[1], ast.Return) and is_name(body[1].value, "array")):
        fail(fn, "expected `if isinstance(array, (list, np.ndarray)): ... elif ...: ... else: ...` followed by `return array`")
    br = body[0]
    t = br.test
    if not (plain_call(t, 2) and is_name(t.func, "isinstance") and is_name(t.args[0], "array") and isinstance(t.args[1], ast.Tuple)
            and len(t.args[1].elts) == 2 and is_name(t.args[1].elts[0], "list") and is_np(t.args[1].elts[1], "ndarray")):
        fail(t, "expected `isinstance(array, (list, np.ndarray))` as the first branch of float_prep")
    stmts = list(br.body)
    around = False
    if stmts and isinstance(stmts[0], ast.Assign) and len(stmts[0].targets) == 1 and is_name(stmts[0].targets[0], "array") and plain_call(stmts[0].value, 2) \
            and (is_np(stmts[0].value.func, "around") or is_np(stmts[0].value.func, "round")):
        c = stmts[0].value
        if not (is_name(c.args[0], "array") and is_name(c.args[1], "around")):
            fail(stmts[0], "expected `array = np.around(array, around)`")
        around = True
        rest = stmts[1:]
    else:
        rest = stmts
    if len(rest) != 1:
        fail(br, "expected [`array = np.around(array, around)`,] `array[np.abs(array) < B ** (-(around + O))] = 0` in the array branch")
    st = rest[0]
    if not (isinstance(st, ast.Assign) and len(st.targets) == 1 and isinstance(st.targets[0], ast.Subscript) and is_name(st.targets[0].value, "array")):
        fail(st, "expected `array[<mask>] = <literal>`")
    fill = lit_of(st.value)
    if fill is None:
        fail(st.value, "the fill value must be an integral literal")
    mask = st.targets[0].slice
    cp = single_compare(mask)
    if cp is None:
        fail(mask, "expected a single comparison as the mask")
    left, op, right = cp

    def is_abs_array(n):
        return plain_call(n, 1) and (is_np(n.func, "abs") or is_np(n.func, "absolute") or is_name(n.func, "abs")) and is_name(n.args[0], "array")

    if is_abs_array(left):
        bound = right
    elif is_abs_array(right):
        bound, op = left, FLIP[op]
    else:
        fail(mask, "expected `np.abs(array)` on one side of the mask comparison")
    # B ** (-(around + O))
    ok = isinstance(bound, ast.BinOp) and isinstance(bound.op, ast.Pow) and isinstance(bound.left, ast.Constant) and type(bound.left.value) is int \
        and bound.left.value > 0 and isinstance(bound.right, ast.UnaryOp) and isinstance(bound.right.op, ast.USub)
    off = None
    if ok:
        e = bound.right.operand
        if is_name(e, "around"):
            off = 0
        elif isinstance(e, ast.BinOp) and isinstance(e.op, ast.Add) and is_name(e.left, "around") and isinstance(e.right, ast.Constant) \
                and type(e.right.value) is int and e.right.value >= 0:
            off = e.right.value
    if off is None:
        fail(bound, "expected the bound `B ** (-(around + O))` with positive int B and non-negative int O")
    # the validator applies it to the oriented geometry with the `geometry_noise` it popped from kwargs (default GEOMETRY_NOISE)
    use = pop = None
    for node in ast.walk(mod):
        if isinstance(node, ast.Assign) and len(node.targets) == 1:
            tg, v = node.targets[0], node.value
            if isinstance(tg, ast.Subscript) and is_name(tg.value, "values") and is_const(tg.slice, "geometry") and plain_call(v, 2) \
                    and is_name(v.func, "float_prep") and plain_call(v.args[0], 0) and isinstance(v.args[0].func, ast.Attribute) \
                    and v.args[0].func.attr == "_orient_molecule_internal" and is_name(v.args[0].func.value, "self"):
                if use is not None:
                    fail(node, "second use of float_prep(self._orient_molecule_internal(), ...)")
                if not is_name(v.args[1], "geometry_noise"):
                    fail(node, "expected `values['geometry'] = float_prep(self._orient_molecule_internal(), geometry_noise)`")
                use = node
            if is_name(tg, "geometry_noise"):
                if not (plain_call(v, 2) and isinstance(v.func, ast.Attribute) and v.func.attr == "pop" and is_name(v.func.value, "kwargs")
                        and is_const(v.args[0], "geometry_noise") and is_name(v.args[1], "GEOMETRY_NOISE")):
                    fail(node, "expected `geometry_noise = kwargs.pop('geometry_noise', GEOMETRY_NOISE)`")
                pop = node
    if use is None or pop is None:
        raise Untranslatable(f"{_FILE[0]}: `values['geometry'] = float_prep(self._orient_molecule_internal(), geometry_noise)` / "
                             "`geometry_noise = kwargs.pop('geometry_noise', GEOMETRY_NOISE)` not found")

    def dl(n):
        txt = " ".join(ast.unparse(n).split()).replace("/-", "/ -").replace("-/", "- /")
        return f"    L{n.lineno}: {txt}"

    doc = [f"  def float_prep (L{fn.lineno}), branch `if {ast.unparse(t)}:`"] + [dl(x) for x in stmts] + [
        "  the validator:", dl(pop), dl(use)]
    lean = ["def prep : PrepProg where", f"  around := {'true' if around else 'false'}", f"  cmp := .{op}", f"  base := {bound.left.value}",
            f"  offset := {off}", f"  fill := {lean_int(fill)}"]
    return lean, doc


def translate(ctx=None) -> None:
    """lean/QcelVerif/Gen/OrientSrc.lean <- qcelemental/models/molecule.py"""
    src = common.REPO.joinpath(*SRC)
    body = translate_source(src.read_text(), str(src))
    f = common.LEAN.joinpath(*OUT)
    f.parent.mkdir(exist_ok=True)
    if not f.exists() or f.read_text() != body:
        f.write_text(body)


def main():
    translate(None)
    print(common.LEAN.joinpath(*OUT))


if __name__ == "__main__":
    main()
