"""C10 — TRANSLATOR: qcelemental/util/serialization.py -> lean/QcelVerif/Gen/SerializeSrc.lean

Reads the file by `ast` on every run (functions and encoder classes located BY NAME) and translates every function body
and the `default` method of both JSON encoder classes into a term of the statement / expression AST of
lean/QcelVerif/Model/SerializeAst.lean.  Kept: statement order, `if`/`elif` arms in source order with the condition
tested, dict literals with their keys in source order, the named primitives with their argument order, calls with
their keyword arguments, `raise` (exception class), `assert`, `try: return … except E: pass`, the module's top-level
items in source order (the `try/except` import guards as structural items).  Dropped: docstrings, annotations, exception
message texts.  Any other construct raises `Untranslatable` (the run then reports a broken obligation).
"""
from __future__ import annotations

import ast
import json
from pathlib import Path

import common

FUNCTIONS = ["msgpackext_encode", "msgpackext_decode", "msgpackext_dumps", "msgpackext_loads", "jsonext_decode", "jsonext_dumps", "jsonext_loads",
             "json_dumps", "json_loads", "msgpack_encode", "msgpack_dumps", "msgpack_loads", "serialize", "deserialize"]
CLASSES = ["JSONExtArrayEncoder", "JSONArrayEncoder"]


class Untranslatable(Exception):
    pass


def _bad(node, why):
    raise Untranslatable(f"serialization.py:{getattr(node, 'lineno', '?')}: {why}: {ast.unparse(node)[:120]}")


def lstr(s: str) -> str:
    if not all(32 <= ord(c) < 127 for c in s):
        raise Untranslatable(f"non-ASCII text in a translated literal: {s!r}")
    return json.dumps(s)


def dotted(node) -> str | None:
    if isinstance(node, ast.Name):
        return node.id
    if isinstance(node, ast.Attribute):
        b = dotted(node.value)
        return None if b is None else b + "." + node.attr
    return None


class FnTranslator:
    def __init__(self, params, module_names):
        self.locals = set(params)
        self.module_names = module_names

    # ---------------- expressions
    def prim(self, name, *args):
        return f"(.prim .{name} [" + ", ".join(args) + "])"

    def expr(self, n) -> str:
        if isinstance(n, ast.Constant):
            if n.value is True or n.value is False:
                return f"(.bool {'true' if n.value else 'false'})"
            if isinstance(n.value, str):
                return f"(.str {lstr(n.value)})"
            if isinstance(n.value, bytes):
                return f"(.bytes {lstr(n.value.decode('ascii'))})"
            if isinstance(n.value, int) and n.value >= 0:
                return f"(.nat {n.value})"
            _bad(n, "constant of an unsupported type")
        if isinstance(n, ast.Name):
            if n.id in self.locals:
                return f"(.var {lstr(n.id)})"
            if n.id in self.module_names:
                return f"(.ref {lstr(n.id)})"
            _bad(n, "name that is neither a local nor a module-level function/class")
        if isinstance(n, ast.List):
            return "(.list [" + ", ".join(self.expr(e) for e in n.elts) + "])"
        if isinstance(n, ast.Dict):
            if any(k is None for k in n.keys):
                _bad(n, "dict unpacking")
            return "(.dict [" + ", ".join(f"({self.expr(k)}, {self.expr(v)})" for k, v in zip(n.keys, n.values)) + "])"
        if isinstance(n, ast.Subscript):
            return self.prim("getitem", self.expr(n.value), self.expr(n.slice))
        if isinstance(n, ast.Compare):
            if len(n.ops) != 1:
                _bad(n, "chained comparison")
            op, a, b = n.ops[0], n.left, n.comparators[0]
            if isinstance(op, ast.In):
                return self.prim("contains", self.expr(a), self.expr(b))
            if isinstance(op, ast.Gt):
                return self.prim("gt", self.expr(a), self.expr(b))
            if isinstance(op, ast.Eq):
                return self.prim("eq", self.expr(a), self.expr(b))
            _bad(n, "comparison operator")
        if isinstance(n, ast.Attribute):
            if n.attr == "shape":
                return self.prim("shape", self.expr(n.value))
            if n.attr == "str" and isinstance(n.value, ast.Attribute) and n.value.attr == "dtype":
                return self.prim("dtypeStr", self.expr(n.value.value))
            if n.attr in ("real", "imag"):
                return self.prim(n.attr, self.expr(n.value))
            _bad(n, "attribute access")
        if isinstance(n, ast.Call):
            return self.call(n)
        _bad(n, "expression form")

    METHODS0 = {"tobytes": "tobytes", "hex": "hex", "ravel": "ravel", "tolist": "tolist", "item": "item", "dict": "dictCall", "lower": "lower"}

    def call(self, n: ast.Call) -> str:
        f = n.func
        name = dotted(f)
        kws = n.keywords
        if any(k.arg is None for k in kws) or any(isinstance(a, ast.Starred) for a in n.args):
            _bad(n, "star arguments")
        # method calls on an expression value
        if isinstance(f, ast.Attribute) and (name is None or name.split(".")[0] in self.locals):
            if f.attr in self.METHODS0 and not n.args and not kws:
                return self.prim(self.METHODS0[f.attr], self.expr(f.value))
            if f.attr == "reshape" and len(n.args) == 1 and not kws:
                return self.prim("reshape", self.expr(f.value), self.expr(n.args[0]))
            _bad(n, "method call")
        if name == "isinstance" and len(n.args) == 2 and not kws:
            return f"(.prim (.isinstance {lstr(ast.unparse(n.args[1]))}) [{self.expr(n.args[0])}])"
        if name == "len" and len(n.args) == 1 and not kws:
            return self.prim("len", self.expr(n.args[0]))
        if name == "pydantic_encoder" and len(n.args) == 1 and not kws:
            return self.prim("pydanticEncoder", self.expr(n.args[0]))
        if name == "json.JSONEncoder.default" and len(n.args) == 2 and not kws and isinstance(n.args[0], ast.Name) and n.args[0].id == "self":
            return self.prim("jsonDefault", self.expr(n.args[1]))
        if name == "np.ascontiguousarray" and len(n.args) == 1 and not kws:
            return self.prim("ascontiguous", self.expr(n.args[0]))
        if name == "bytes.fromhex" and len(n.args) == 1 and not kws:
            return self.prim("fromhex", self.expr(n.args[0]))
        if name == "np.frombuffer" and len(n.args) == 1 and [k.arg for k in kws] == ["dtype"]:
            return self.prim("frombuffer", self.expr(n.args[0]), self.expr(kws[0].value))
        # calls of module-level functions / third-party codecs, keyword arguments kept
        if name is not None and (name in self.module_names or name in ("json.dumps", "json.loads", "msgpack.dumps", "msgpack.loads", "which_import")):
            args = ", ".join(self.expr(a) for a in n.args)
            kw = ", ".join(f"({lstr(k.arg)}, {self.expr(k.value)})" for k in kws)
            return f"(.call {lstr(name)} [{args}] [{kw}])"
        _bad(n, "call of an unknown function")

    # ---------------- statements
    def block(self, body) -> str:
        out = []
        for s in body:
            if isinstance(s, ast.Expr) and isinstance(s.value, ast.Constant) and isinstance(s.value.value, str):
                continue  # docstring
            out.append(self.stmt(s))
        return "[" + ", ".join(out) + "]"

    def stmt(self, s) -> str:
        if isinstance(s, ast.Return):
            if s.value is None:
                _bad(s, "bare return")
            return f"(.ret {self.expr(s.value)})"
        if isinstance(s, ast.Assign):
            if len(s.targets) != 1:
                _bad(s, "multiple assignment targets")
            t = s.targets[0]
            if isinstance(t, ast.Name):
                e = self.expr(s.value)
                self.locals.add(t.id)
                return f"(.assign {lstr(t.id)} {e})"
            if isinstance(t, ast.Subscript) and isinstance(t.value, ast.Name) and t.value.id in self.locals:
                return f"(.setItem {lstr(t.value.id)} {self.expr(t.slice)} {self.expr(s.value)})"
            if isinstance(t, ast.Attribute) and isinstance(t.value, ast.Name) and t.value.id in self.locals:
                return f"(.setAttr {lstr(t.value.id)} {lstr(t.attr)} {self.expr(s.value)})"
            _bad(s, "assignment target")
        if isinstance(s, ast.If):
            return f"(.ite {self.expr(s.test)} {self.block(s.body)} {self.block(s.orelse)})"
        if isinstance(s, ast.Try):
            ok = (len(s.body) == 1 and isinstance(s.body[0], ast.Return) and s.body[0].value is not None and len(s.handlers) == 1
                  and not s.orelse and not s.finalbody and isinstance(s.handlers[0].type, ast.Name) and s.handlers[0].name is None
                  and len(s.handlers[0].body) == 1 and isinstance(s.handlers[0].body[0], ast.Pass))
            if not ok:
                _bad(s, "try statement other than `try: return e / except E: pass`")
            return f"(.tryRet {self.expr(s.body[0].value)} {lstr(s.handlers[0].type.id)})"
        if isinstance(s, ast.Raise):
            if s.cause is not None or not isinstance(s.exc, ast.Call) or not isinstance(s.exc.func, ast.Name):
                _bad(s, "raise form")
            return f"(.raise {lstr(s.exc.func.id)})"
        if isinstance(s, ast.Assert):
            return f"(.assert_ {self.expr(s.test)})"
        if isinstance(s, ast.Expr) and isinstance(s.value, ast.Call):
            return f"(.exprStmt {self.expr(s.value)})"
        _bad(s, "statement form")


def translate(src: str) -> str:
    mod = ast.parse(src)
    fns, classes, tops, consts = {}, {}, [], set()
    for node in mod.body:
        if isinstance(node, ast.Import):
            tops.append(".imp " + lstr(ast.unparse(node)))
        elif isinstance(node, ast.ImportFrom):
            tops.append(".imp " + lstr(ast.unparse(node)))
        elif isinstance(node, ast.Try):
            ok = all(isinstance(b, (ast.Import, ast.ImportFrom)) for b in node.body) and len(node.handlers) == 1 and not node.orelse and not node.finalbody \
                and isinstance(node.handlers[0].type, ast.Name) and all(isinstance(b, (ast.Import, ast.ImportFrom, ast.Pass)) for b in node.handlers[0].body)
            if not ok:
                _bad(node, "top-level try other than an import guard")
            body = "[" + ", ".join(lstr(ast.unparse(b)) for b in node.body) + "]"
            hnd = "[" + ", ".join(lstr(ast.unparse(b)) for b in node.handlers[0].body) + "]"
            tops.append(f".tryImport {body} {lstr(node.handlers[0].type.id)} {hnd}")
        elif isinstance(node, ast.Assign) and len(node.targets) == 1 and isinstance(node.targets[0], ast.Name) and isinstance(node.value, ast.Constant) and isinstance(node.value.value, str):
            tops.append(".const " + lstr(node.targets[0].id))
            consts.add(node.targets[0].id)
        elif isinstance(node, ast.FunctionDef):
            if node.decorator_list:
                _bad(node, "decorated function")
            fns[node.name] = node
            tops.append(".fn " + lstr(node.name))
        elif isinstance(node, ast.ClassDef):
            if node.decorator_list or node.keywords or len(node.bases) != 1:
                _bad(node, "class form")
            meths = [m for m in node.body if isinstance(m, ast.FunctionDef)]
            if len(meths) != len(node.body):
                _bad(node, "class body other than methods")
            classes[node.name] = node
            tops.append(f".cls {lstr(node.name)} {lstr(ast.unparse(node.bases[0]))} [" + ", ".join(lstr(m.name) for m in meths) + "]")
        elif isinstance(node, ast.Expr) and isinstance(node.value, ast.Constant) and isinstance(node.value.value, str):
            continue
        else:
            _bad(node, "top-level statement form")
    module_names = set(fns) | set(classes) | consts
    for f in FUNCTIONS:
        if f not in fns:
            raise Untranslatable(f"function {f} not found in serialization.py")
    for c in CLASSES:
        if c not in classes:
            raise Untranslatable(f"class {c} not found in serialization.py")
    extra = sorted((set(fns) - set(FUNCTIONS)) | (set(classes) - set(CLASSES)))
    if extra:
        raise Untranslatable(f"module-level definitions the translator does not know: {extra}")

    def params_of(fd: ast.FunctionDef, method=False):
        a = fd.args
        if a.vararg or a.kwarg or a.kwonlyargs or a.defaults or a.posonlyargs:
            _bad(fd, "parameter form")
        names = [x.arg for x in a.args]
        if method:
            if not names or names[0] != "self":
                _bad(fd, "method without self")
            names = names[1:]
        return names

    L = ["import QcelVerif.Model.SerializeAst",
         "/-! GENERATED by harness/c10_src.py from qcelemental/util/serialization.py (python `ast`, every run) — do not edit -/",
         "namespace QcelVerif.Ser.Gen.Src", "open QcelVerif.Ser.Ast", ""]
    L.append("/-- the module's top-level items in source order -/")
    L.append("def moduleTop : List Top := [" + ",\n  ".join(tops) + "]")
    L.append("")
    lean_names = []
    for f in FUNCTIONS:
        fd = fns[f]
        ps = params_of(fd)
        tr = FnTranslator(ps, module_names)
        body = tr.block(fd.body)
        L.append(f"/-- `def {f}({', '.join(ps)})`, serialization.py:{fd.lineno} -/")
        L.append(f"def {f} : FnDef := ⟨{lstr(f)}, [" + ", ".join(lstr(p) for p in ps) + f"],\n  {body}⟩")
        L.append("")
        lean_names.append(f)
    for c in CLASSES:
        cd = classes[c]
        meths = [m for m in cd.body if isinstance(m, ast.FunctionDef)]
        if [m.name for m in meths] != ["default"]:
            _bad(cd, "encoder class with methods other than `default`")
        fd = meths[0]
        ps = params_of(fd, method=True)
        tr = FnTranslator(ps, module_names)
        body = tr.block(fd.body)
        ln = f"{c}_default"
        L.append(f"/-- `{c}.default(self, {', '.join(ps)})`, serialization.py:{fd.lineno} -/")
        L.append(f"def {ln} : FnDef := ⟨{lstr(c + '.default')}, [" + ", ".join(lstr(p) for p in ps) + f"],\n  {body}⟩")
        L.append("")
        lean_names.append(ln)
    L.append("/-- every translated definition, by its source name -/")
    L.append("def defs : List FnDef := [" + ", ".join(lean_names) + "]")
    L += ["", "end QcelVerif.Ser.Gen.Src", ""]
    return "\n".join(L)


def gen_serialize_src(ctx):
    """TRANSLATOR: lean/QcelVerif/Gen/SerializeSrc.lean from the working tree"""
    src = (Path(common.REPO) / "qcelemental" / "util" / "serialization.py").read_text()
    new = translate(src)
    out = common.LEAN / "QcelVerif" / "Gen" / "SerializeSrc.lean"
    out.parent.mkdir(exist_ok=True)
    if not out.exists() or out.read_text() != new:
        out.write_text(new)


if __name__ == "__main__":
    import sys
    print(translate(Path(sys.argv[1]).read_text()))
