"""C01 translator: qcelemental/periodic_table.py  ->  lean/QcelVerif/Gen/PeriodicSrc.lean

Reads class `PeriodicTable` by `ast` (never imports it) and emits, as terms of the syntax of
lean/QcelVerif/Model/PeriodicSrcEval.lean:

  (a) the `if/elif/else` ladders of `to_period` and `to_group` -> `periodLadder/periodElse`, `groupLadder/groupElse`
      (one (test, returned literal) pair per arm, in source order; tests `Z <op> <int>` and `Z in [<ints>]`);
  (b) `_resolve_atom_to_key` and its nested function -> `innerBody`, `outerBody` : `Stmt`
      (try / except (<classes>) / else, assignment, return, raise NotAnElementError, assert, if;
      `x.capitalize()`, `int(x)`, `self._<dict>[x]`, `x [not] in self.<list>`, `and`, `not`, `isinstance(x, str)`,
      call of the nested function) — variables are numbered: parameters first, locals in order of first assignment;
      the bodies of the accessors to_Z / to_E / to_element / to_A / to_mass -> `accessors` (is `strict` handed on;
      which dictionaries are applied to the key, innermost first) and the class-level second names -> `aliases`;
  (c) `__init__` -> `arrayDefs` (attribute <- key of data.nist_2011_atomic_weights), `dictDefs`
      (dictionary <- (key attribute, value attribute) of `dict(zip(self.K, self.V))`), in source order, and `intArrays`
      (which arrays of the data file hold ints — read from the data file's literal, the others hold strs).

Nothing is normalised, reordered or defaulted.  Any statement, expression, signature or class member outside these
shapes raises `Unsupported` (the check then reports a broken obligation).
"""
from __future__ import annotations

import ast
from pathlib import Path

import common


class Unsupported(Exception):
    pass


def fail(node, msg):
    src = ""
    try:
        src = ast.unparse(node)[:160].replace("\n", " ⏎ ")
    except Exception:  # noqa
        pass
    raise Unsupported(f"periodic_table.py:{getattr(node, 'lineno', '?')}: {msg}: {src}")


ARRAYS = {"Z": "Z", "E": "E", "name": "name", "_EE": "EE", "EA": "EA", "A": "A", "mass": "mass"}
DICTS = {"_el2z": "el2z", "_z2el": "z2el", "_element2el": "element2el", "_el2element": "el2element",
         "_eliso2mass": "eliso2mass", "_eliso2el": "eliso2el", "_eliso2a": "eliso2a"}
EXCS = {"KeyError", "ValueError", "AttributeError", "AssertionError", "TypeError", "IndexError", "NameError"}
CMP = {ast.LtE: "le", ast.Lt: "lt", ast.GtE: "ge", ast.Gt: "gt", ast.Eq: "eq", ast.NotEq: "ne"}
ACCESSORS = ["to_Z", "to_E", "to_element", "to_A", "to_mass", "to_period", "to_group"]
ALIASES = ["to_atomic_number", "to_symbol", "to_name", "to_mass_number"]
DICT_CTORS = {"dict", "collections.OrderedDict"}
EL2A2MASS_INIT = "self._el2a2mass = collections.defaultdict(dict)"
EL2A2MASS_LOOP = "for EE, m, A in zip(self._EE, self.mass, self.A):\n    self._el2a2mass[EE][A] = float(m)"


def _c(src: str) -> str:
    return src.replace("-/", "- /").replace("/-", "/ -").replace("\n", " ⏎ ")


def strip_doc(body):
    if body and isinstance(body[0], ast.Expr) and isinstance(body[0].value, ast.Constant) and isinstance(body[0].value.value, str):
        return body[1:]
    return body


def self_attr(node, table, what):
    """`self.<attr>` with attr in `table` -> table[attr]"""
    if isinstance(node, ast.Attribute) and isinstance(node.value, ast.Name) and node.value.id == "self" and isinstance(node.ctx, ast.Load):
        if node.attr in table:
            return table[node.attr]
        fail(node, f"unknown {what} `self.{node.attr}`")
    fail(node, f"expected `self.<{what}>`")


def check_sig(fn: ast.FunctionDef, names, defaults=(), kwonly=(), kwdefaults=()):
    a = fn.args
    if fn.decorator_list:
        fail(fn, "decorated method")
    if a.vararg or a.kwarg or a.posonlyargs:
        fail(fn, "signature: *args / **kwargs / positional-only")
    if [x.arg for x in a.args] != list(names):
        fail(fn, f"signature: parameters are not {list(names)}")
    if [ast.unparse(d) for d in a.defaults] != list(defaults):
        fail(fn, f"signature: defaults are not {list(defaults)}")
    if [x.arg for x in a.kwonlyargs] != list(kwonly) or [ast.unparse(d) if d is not None else None for d in a.kw_defaults] != list(kwdefaults):
        fail(fn, "signature: keyword-only parameters")


# ---- (b) statements / expressions --------------------------------------------------------------------------------------
class FnTranslator:
    def __init__(self, params, inner_name=None):
        self.vars = {p: i for i, p in enumerate(params)}
        self.inner_name = inner_name

    def var(self, name, node, store=False):
        if name not in self.vars:
            if not store:
                fail(node, f"name `{name}` is neither a parameter nor a local assigned in this function")
            self.vars[name] = len(self.vars)
        return self.vars[name]

    def expr(self, e) -> str:
        if isinstance(e, ast.Name) and isinstance(e.ctx, ast.Load):
            return f"(.var {self.var(e.id, e)})"
        if isinstance(e, ast.Call):
            if e.keywords:
                fail(e, "call with keyword arguments")
            f = e.func
            if isinstance(f, ast.Attribute) and f.attr == "capitalize" and not e.args:
                return f"(.capitalize {self.expr(f.value)})"
            if isinstance(f, ast.Name) and f.id == "int" and len(e.args) == 1 and "int" not in self.vars:
                return f"(.int {self.expr(e.args[0])})"
            if isinstance(f, ast.Name) and f.id == "isinstance" and len(e.args) == 2 and isinstance(e.args[1], ast.Name) and e.args[1].id == "str" \
                    and "isinstance" not in self.vars and "str" not in self.vars:
                return f"(.isinstanceStr {self.expr(e.args[0])})"
            if isinstance(f, ast.Name) and self.inner_name is not None and f.id == self.inner_name and len(e.args) == 1 and f.id not in self.vars:
                return f"(.callInner {self.expr(e.args[0])})"
            fail(e, "call outside the subset (x.capitalize(), int(x), isinstance(x, str), the nested function)")
        if isinstance(e, ast.Subscript) and isinstance(e.ctx, ast.Load):
            d = self_attr(e.value, DICTS, "dictionary")
            return f"(.getitem .{d} {self.expr(e.slice)})"
        if isinstance(e, ast.Compare) and len(e.ops) == 1 and isinstance(e.ops[0], (ast.In, ast.NotIn)):
            lst = self_attr(e.comparators[0], ARRAYS, "list")
            op = "notIn" if isinstance(e.ops[0], ast.NotIn) else "isIn"
            return f"(.{op} {self.expr(e.left)} .{lst})"
        if isinstance(e, ast.BoolOp) and isinstance(e.op, ast.And):
            out = self.expr(e.values[-1])
            for v in reversed(e.values[:-1]):
                out = f"(.and {self.expr(v)} {out})"
            return out
        if isinstance(e, ast.UnaryOp) and isinstance(e.op, ast.Not):
            return f"(.not {self.expr(e.operand)})"
        fail(e, "expression outside the subset")

    def exc_names(self, t):
        if isinstance(t, ast.Name):
            ns = [t]
        elif isinstance(t, ast.Tuple):
            ns = t.elts
        else:
            fail(t, "except clause is not a class name or a tuple of class names")
        out = []
        for n in ns:
            if not isinstance(n, ast.Name) or n.id not in EXCS or n.id in self.vars:
                fail(n, "exception class outside the subset " + str(sorted(EXCS)))
            out.append("." + n.id)
        return "[" + ", ".join(out) + "]"

    def block(self, stmts) -> str:
        if not stmts:
            return ".skip"
        parts = [self.stmt(s) for s in stmts]
        out = parts[-1]
        for p in reversed(parts[:-1]):
            out = f"(.seq {p} {out})"
        return out

    def stmt(self, s) -> str:
        if isinstance(s, ast.Expr):
            if isinstance(s.value, ast.Constant):
                fail(s, "constant expression statement")
            return f"(.expr {self.expr(s.value)})"
        if isinstance(s, ast.Assign):
            if len(s.targets) != 1 or not isinstance(s.targets[0], ast.Name):
                fail(s, "assignment target is not a single name")
            rhs = self.expr(s.value)
            return f"(.assign {self.var(s.targets[0].id, s, store=True)} {rhs})"
        if isinstance(s, ast.Return):
            if s.value is None:
                fail(s, "bare return")
            return f"(.ret {self.expr(s.value)})"
        if isinstance(s, ast.Raise):
            c = s.exc
            if s.cause is not None or not (isinstance(c, ast.Call) and isinstance(c.func, ast.Name) and c.func.id == "NotAnElementError" and "NotAnElementError" not in self.vars):
                fail(s, "raise of anything but NotAnElementError(...)")
            for a in list(c.args) + [k.value for k in c.keywords]:
                if not isinstance(a, ast.Name):
                    fail(s, "NotAnElementError argument is not a plain name (its evaluation could raise)")
                self.var(a.id, a)
            return "(.raise .NotAnElementError)"
        if isinstance(s, ast.Assert):
            if s.msg is not None:
                fail(s, "assert with message")
            return f"(.assert {self.expr(s.test)})"
        if isinstance(s, ast.Try):
            if s.finalbody or len(s.handlers) != 1:
                fail(s, "try with finally / with other than exactly one except clause")
            h = s.handlers[0]
            if h.type is None or h.name is not None:
                fail(s, "bare except / except … as name")
            body = self.block(s.body)
            handled = self.exc_names(h.type)
            handler = self.block(h.body)
            orelse = self.block(s.orelse)
            return f"(.tryExcept {body} {handled} {handler} {orelse})"
        if isinstance(s, ast.If):
            c = self.expr(s.test)
            return f"(.ite {c} {self.block(s.body)} {self.block(s.orelse)})"
        fail(s, "statement outside the subset")


def translate_resolve(fn: ast.FunctionDef):
    check_sig(fn, ["self", "atom", "strict"], ["False"])
    body = strip_doc(fn.body)
    inner = [s for s in body if isinstance(s, ast.FunctionDef)]
    if len(inner) != 1 or body[0] is not inner[0]:
        fail(fn, "expected exactly one nested function, defined first")
    inn = inner[0]
    if len(inn.args.args) != 1:
        fail(inn, "nested function does not take exactly one parameter")
    check_sig(inn, [inn.args.args[0].arg])
    for n in ast.walk(inn):
        if isinstance(n, (ast.FunctionDef, ast.Lambda, ast.Global, ast.Nonlocal)) and n is not inn:
            fail(n, "nested definitions / global / nonlocal inside the nested function")
    ti = FnTranslator([inn.args.args[0].arg])
    ibody = ti.block(strip_doc(inn.body))
    to = FnTranslator(["atom", "strict"], inner_name=inn.name)
    obody = to.block(body[1:])
    return inn, ti, ibody, to, obody


# ---- accessors ---------------------------------------------------------------------------------------------------------
def resolve_call(s, fn, want_target="identifier"):
    """`identifier = self._resolve_atom_to_key(atom[, strict=strict])` -> passesStrict"""
    if not (isinstance(s, ast.Assign) and len(s.targets) == 1 and isinstance(s.targets[0], ast.Name) and isinstance(s.value, ast.Call)):
        fail(s, "expected `<name> = self._resolve_atom_to_key(atom, …)`")
    c = s.value
    if ast.unparse(c.func) != "self._resolve_atom_to_key":
        fail(s, "expected a call of self._resolve_atom_to_key")
    params = [a.arg for a in fn.args.args]
    if not (len(c.args) >= 1 and isinstance(c.args[0], ast.Name) and c.args[0].id == "atom"):
        fail(s, "first argument is not `atom`")
    passes = False
    if len(c.args) == 2 and not c.keywords:
        if not (isinstance(c.args[1], ast.Name) and c.args[1].id == "strict" and "strict" in params):
            fail(s, "second argument is not the caller's `strict`")
        passes = True
    elif len(c.args) == 1 and len(c.keywords) == 1:
        k = c.keywords[0]
        if not (k.arg == "strict" and isinstance(k.value, ast.Name) and k.value.id == "strict" and "strict" in params):
            fail(s, "keyword is not `strict=strict`")
        passes = True
    elif not (len(c.args) == 1 and not c.keywords):
        fail(s, "arguments of _resolve_atom_to_key")
    return s.targets[0].id, passes


def chain_of(e, keyname):
    """self._d2[self._d1[key]] -> [d1, d2]"""
    if isinstance(e, ast.Name) and e.id == keyname:
        return []
    if isinstance(e, ast.Subscript):
        d = self_attr(e.value, DICTS, "dictionary")
        return chain_of(e.slice, keyname) + [d]
    fail(e, "expected nested `self._<dict>[…]` lookups of the resolved key")


def translate_accessor(fn: ast.FunctionDef):
    name = fn.name
    body = strip_doc(fn.body)
    if name in ("to_Z", "to_E", "to_element"):
        check_sig(fn, ["self", "atom", "strict"], ["False"])
    elif name == "to_A":
        check_sig(fn, ["self", "atom"])
    elif name == "to_mass":
        check_sig(fn, ["self", "atom"], [], ["return_decimal"], ["False"])
    if name in ("to_Z", "to_E", "to_element", "to_A"):
        if len(body) != 2 or not isinstance(body[1], ast.Return) or body[1].value is None:
            fail(fn, "accessor body is not `key = self._resolve_atom_to_key(…); return <lookups>`")
        key, passes = resolve_call(body[0], fn)
        return passes, chain_of(body[1].value, key), ""
    if name == "to_mass":
        if len(body) != 3:
            fail(fn, "to_mass body is not resolve; lookup; if return_decimal")
        key, passes = resolve_call(body[0], fn)
        s = body[1]
        if not (isinstance(s, ast.Assign) and len(s.targets) == 1 and isinstance(s.targets[0], ast.Name)):
            fail(s, "expected `mass = self._eliso2mass[key]`")
        chain = chain_of(s.value, key)
        m = s.targets[0].id
        want = f"if return_decimal:\n    return Decimal({m})\nelse:\n    return float({m})"
        if ast.unparse(body[2]) != want:
            fail(body[2], "to_mass does not end in `if return_decimal: return Decimal(mass) else: return float(mass)`")
        return passes, chain, f"; then Decimal({m}) if return_decimal else float({m})"
    raise AssertionError(name)


def int_const(e):
    if isinstance(e, ast.Constant) and type(e.value) is int and e.value >= 0:
        return e.value
    fail(e, "expected a non-negative integer literal")


def translate_ladder(fn: ast.FunctionDef):
    check_sig(fn, ["self", "atom"])
    body = strip_doc(fn.body)
    if len(body) != 2 or ast.unparse(body[0]) != "Z = self.to_Z(atom)" or not isinstance(body[1], ast.If):
        fail(fn, "expected `Z = self.to_Z(atom)` followed by one if/elif/else ladder")

    def ret_lit(stmts):
        if len(stmts) != 1 or not isinstance(stmts[0], ast.Return) or not isinstance(stmts[0].value, ast.Constant):
            fail(stmts[0] if stmts else fn, "ladder arm is not a single `return <literal>`")
        v = stmts[0].value.value
        if v is None:
            return "none"
        if type(v) is int and v >= 0:
            return f"(some {v})"
        fail(stmts[0], "returned literal is neither a non-negative int nor None")

    arms, lines = [], []
    node = body[1]
    while True:
        t = node.test
        if not (isinstance(t, ast.Compare) and len(t.ops) == 1 and isinstance(t.left, ast.Name) and t.left.id == "Z"):
            fail(t, "ladder test is not `Z <op> …`")
        op, rhs = t.ops[0], t.comparators[0]
        if type(op) in CMP:
            test = f"(.{CMP[type(op)]} {int_const(rhs)})"
        elif isinstance(op, ast.In) and isinstance(rhs, (ast.List, ast.Tuple)):
            test = "(.mem [" + ", ".join(str(int_const(x)) for x in rhs.elts) + "])"
        else:
            fail(t, "ladder test operator")
        arms.append(f"({test}, {ret_lit(node.body)})")
        lines.append(node.lineno)
        if len(node.orelse) == 1 and isinstance(node.orelse[0], ast.If):
            node = node.orelse[0]
            continue
        if not node.orelse:
            fail(node, "ladder without a final else")
        els = ret_lit(node.orelse)
        break
    return arms, els, lines


# ---- (c) __init__ ------------------------------------------------------------------------------------------------------
def translate_init(fn: ast.FunctionDef):
    check_sig(fn, ["self"])
    body = strip_doc(fn.body)
    if not body or ast.unparse(body[0]) != "from . import data":
        fail(fn, "__init__ does not start with `from . import data`")
    arrays, dicts = [], []
    seen_attr = set()
    i = 1
    while i < len(body):
        s = body[i]
        src = ast.unparse(s)
        if src == EL2A2MASS_INIT and i + 1 < len(body) and ast.unparse(body[i + 1]) == EL2A2MASS_LOOP:
            i += 2  # the per-element mass table (not consulted by any lookup of C01); exact shape only
            continue
        if not (isinstance(s, ast.Assign) and len(s.targets) == 1 and isinstance(s.targets[0], ast.Attribute)
                and isinstance(s.targets[0].value, ast.Name) and s.targets[0].value.id == "self"):
            fail(s, "__init__ statement is not `self.<attr> = …`")
        attr = s.targets[0].attr
        if attr in seen_attr:
            fail(s, f"`self.{attr}` assigned twice")
        seen_attr.add(attr)
        v = s.value
        if attr in ARRAYS:
            if not (isinstance(v, ast.Subscript) and ast.unparse(v.value) == "data.nist_2011_atomic_weights"
                    and isinstance(v.slice, ast.Constant) and v.slice.value in ARRAYS):
                fail(s, "array attribute is not `data.nist_2011_atomic_weights[<known key>]`")
            arrays.append((ARRAYS[attr], ARRAYS[v.slice.value], s.lineno, src))
        elif attr in DICTS:
            if not (isinstance(v, ast.Call) and ast.unparse(v.func) in DICT_CTORS and len(v.args) == 1 and not v.keywords):
                fail(s, "dictionary is not dict(…) / collections.OrderedDict(…) of one argument")
            z = v.args[0]
            if not (isinstance(z, ast.Call) and isinstance(z.func, ast.Name) and z.func.id == "zip" and len(z.args) == 2 and not z.keywords):
                fail(s, "dictionary is not built from zip(<keys>, <values>)")
            k, val = self_attr(z.args[0], ARRAYS, "array"), self_attr(z.args[1], ARRAYS, "array")
            have = {a for a, _, _, _ in arrays}
            if k not in have or val not in have:
                fail(s, "dictionary built from an array attribute that is not assigned yet")
            dicts.append((DICTS[attr], k, val, s.lineno, src))
        else:
            fail(s, f"unknown attribute `self.{attr}`")
        i += 1
    missing = [d for d in DICTS.values() if d not in {x[0] for x in dicts}] + [a for a in ARRAYS.values() if a not in {x[0] for x in arrays}]
    if missing:
        fail(fn, f"__init__ does not define {missing}")
    return arrays, dicts


def int_arrays():
    """which arrays of the data file hold ints (all others must hold strs)"""
    import gen_periodic

    d = gen_periodic.literal_assign(common.REPO / "qcelemental/data/nist_2011_atomic_weights.py", "nist_2011_atomic_weights")
    ints = []
    for key, nm in ARRAYS.items():
        if key not in d:
            raise Unsupported(f"data file has no array {key!r}")
        kinds = {type(x) for x in d[key]}
        if kinds == {int}:
            ints.append(nm)
        elif kinds != {str}:
            raise Unsupported(f"data array {key!r} holds {sorted(k.__name__ for k in kinds)}, not only int or only str")
    return ints


# ---- whole file --------------------------------------------------------------------------------------------------------
def translate_source(text: str, ints) -> str:
    mod = ast.parse(text)
    # the names the class body relies on are the ones imported at module level
    imports = [ast.unparse(s) for s in mod.body if isinstance(s, (ast.Import, ast.ImportFrom))]
    for need in ("import collections", "from decimal import Decimal", "from .exceptions import NotAnElementError"):
        if need not in imports:
            raise Unsupported(f"module-level `{need}` not found")
    for s in mod.body:  # nothing at module level may rebind them or patch the class
        for n in ast.walk(s) if not isinstance(s, (ast.ClassDef, ast.FunctionDef)) else []:
            if isinstance(n, ast.Name) and isinstance(n.ctx, ast.Store) and n.id in ("collections", "Decimal", "NotAnElementError", "PeriodicTable", "int", "float", "dict", "zip", "isinstance", "str"):
                fail(s, "module-level rebinding of a name the class relies on")
            if isinstance(n, ast.Attribute) and isinstance(n.ctx, (ast.Store, ast.Del)) and ast.unparse(n.value) in ("PeriodicTable", "periodictable"):
                fail(s, "module-level patching of PeriodicTable")
    classes = [s for s in mod.body if isinstance(s, ast.ClassDef) and s.name == "PeriodicTable"]
    if len(classes) != 1:
        raise Unsupported("class PeriodicTable not found exactly once")
    cls = classes[0]
    if cls.bases or cls.keywords or cls.decorator_list:
        fail(cls, "class PeriodicTable has bases / decorators")
    if "periodictable = PeriodicTable()" not in [ast.unparse(s) for s in mod.body]:
        raise Unsupported("module-level `periodictable = PeriodicTable()` not found")
    methods, aliases = {}, []
    for s in strip_doc(cls.body):
        if isinstance(s, ast.FunctionDef):
            if s.name in methods or s.name in [a for a, _ in aliases]:
                fail(s, "method defined twice")
            methods[s.name] = s
        elif isinstance(s, ast.Assign) and len(s.targets) == 1 and isinstance(s.targets[0], ast.Name) and isinstance(s.value, ast.Name):
            a, b = s.targets[0].id, s.value.id
            if a not in ALIASES or b not in ACCESSORS or a in [x for x, _ in aliases] or b not in methods:
                fail(s, "class-level assignment is not a known second name of an accessor defined above")
            aliases.append((a, b))
        else:
            fail(s, "class member outside the subset")
    want = ["__init__", "_resolve_atom_to_key"] + ACCESSORS
    if sorted(methods) != sorted(want):
        raise Unsupported(f"methods of PeriodicTable are {sorted(methods)}, expected {sorted(want)}")
    # an alias must not be bound before a later redefinition of its target (order: all defs, then aliases — checked above by `b in methods`
    # at the time of the assignment, and no method may be defined after an alias of the same target)
    arrays, dicts = translate_init(methods["__init__"])
    inn, ti, ibody, to, obody = translate_resolve(methods["_resolve_atom_to_key"])
    accs = []
    for nm in ("to_Z", "to_E", "to_element", "to_A", "to_mass"):
        passes, chain, note = translate_accessor(methods[nm])
        accs.append((nm, passes, chain, methods[nm].lineno, note))
    parms, pels, plines = translate_ladder(methods["to_period"])
    garms, gels, glines = translate_ladder(methods["to_group"])

    L = [
        "import QcelVerif.Model.PeriodicSrcEval",
        "/-! GENERATED by harness/c01_src.py from qcelemental/periodic_table.py (class PeriodicTable) — do not edit. -/",
        "namespace QcelVerif.Gen.PeriodicSrc",
        "open QcelVerif.PT.Src",
        "",
        "/-! (c) `__init__`: attribute <- data array; dictionary <- zip(key attribute, value attribute); source order -/",
    ]
    for a, k, line, src in arrays:
        L.append(f"-- periodic_table.py:{line}  {_c(src)}")
    L.append("def arrayDefs : List (ArrayName × ArrayName) := [" + ", ".join(f"(.{a}, .{k})" for a, k, _, _ in arrays) + "]")
    for d, k, v, line, src in dicts:
        L.append(f"-- periodic_table.py:{line}  {_c(src)}")
    L.append("def dictDefs : List (DictName × ArrayName × ArrayName) := [" + ", ".join(f"(.{d}, .{k}, .{v})" for d, k, v, _, _ in dicts) + "]")
    L.append("/-- arrays of qcelemental/data/nist_2011_atomic_weights.py whose entries are ints (all others: strs) -/")
    L.append("def intArrays : List ArrayName := [" + ", ".join(f".{a}" for a in ints) + "]")
    L.append("")
    L.append(f"/-! (b) `_resolve_atom_to_key` (periodic_table.py:{methods['_resolve_atom_to_key'].lineno}) -/")
    L.append(f"/-- nested `{inn.name}` (line {inn.lineno}); locals: " + ", ".join(f"{i} = {n}" for n, i in ti.vars.items()) + " -/")
    L.append(f"def innerBody : Stmt :=\n  {ibody}")
    L.append("/-- statements after the nested function; locals: " + ", ".join(f"{i} = {n}" for n, i in to.vars.items()) + " -/")
    L.append(f"def outerBody : Stmt :=\n  {obody}")
    L.append("")
    L.append("/-! accessor bodies: `key = self._resolve_atom_to_key(atom[, strict=strict])`, then the dictionaries applied to it -/")
    for nm, passes, chain, line, note in accs:
        L.append(f"-- periodic_table.py:{line}  {nm}{note}")
    L.append("def accessors : List Accessor := [" + ", ".join(
        f"⟨.{nm}, {'true' if passes else 'false'}, [" + ", ".join(f".{d}" for d in chain) + "]⟩" for nm, passes, chain, _, _ in accs) + "]")
    L.append("/-- class-level second names -/")
    L.append("def aliases : List (AccName × AccName) := [" + ", ".join(f"(.{a}, .{b})" for a, b in aliases) + "]")
    L.append("")
    L.append(f"/-! (a) ladders on `Z = self.to_Z(atom)`: to_period (lines {plines[0]}-{plines[-1]}), to_group (lines {glines[0]}-{glines[-1]}) -/")
    L.append("def periodLadder : Ladder := [" + ",\n    ".join(parms) + "]")
    L.append(f"def periodElse : Option Nat := {pels}")
    L.append("def groupLadder : Ladder := [" + ",\n    ".join(garms) + "]")
    L.append(f"def groupElse : Option Nat := {gels}")
    L.append("")
    L.append("end QcelVerif.Gen.PeriodicSrc")
    return "\n".join(L) + "\n"


def gen_periodic_src(ctx=None) -> None:
    """lean/QcelVerif/Gen/PeriodicSrc.lean <- qcelemental/periodic_table.py (lookup logic, ladders, dictionary construction)."""
    src = (common.REPO / "qcelemental" / "periodic_table.py").read_text()
    body = translate_source(src, int_arrays())
    f = common.LEAN / "QcelVerif" / "Gen" / "PeriodicSrc.lean"
    f.parent.mkdir(exist_ok=True)
    if not f.exists() or f.read_text() != body:
        f.write_text(body)


if __name__ == "__main__":
    import sys

    sys.path.insert(0, str(common.VERIF / "tools"))
    print(translate_source(Path(sys.argv[1] if len(sys.argv) > 1 else common.REPO / "qcelemental/periodic_table.py").read_text(), int_arrays()))
