"""C06 translator: the DECISION CODE of qcelemental/molparse/nucleus.py -> lean/QcelVerif/Gen/NucleusSrc.lean.

Reads nucleus.py by `ast` on every run (from common.REPO's working tree) and re-encodes, statement by statement,
  * `reconcile_nucleus`: its nested closures (`offer_*` -> `FnDef`s, called through `Stmt.call`), the body from the
    list initialisations to the `return` tuple (`if … is not None:` guards, the order of the offers, the calls of the
    nested `reconcile`, the periodic-table accessors with their keyword arguments, `int()/float()/str()/round()/abs()`,
    `.lower()`, `try … except NotAnElementError`, every `L_exact.append(e)` and every `L_range.append(lambda x, a=a: …)`
    with its comparison operators, `and`/`or`, arithmetic and captured / free variables);
  * `parse_nucleus_label`: the group-reading branch (`if matchobj.group("A"): A = int(…) else: A = None`, …), the raise
    when the pattern did not match, the returned tuple
into the statement / expression language of lean/QcelVerif/Model/NucleusAst.lean.

Recognised as a whole and NOT translated statement by statement (their exact shape is checked, anything else is refused):
  * logging: `log_text = verbose >= 2`, `text = […]`, `if log_text: text.append("…".format(…))` / `print(…)` — dropped
    (the arguments may only contain `.format` / `.join` / `all` calls);
  * the nested `reconcile(exact, tests, feature)`: `for c in exact: a = [fn(c) for fn in tests]; [logging]; if all(a):
    return c` / `err = "Inconsistent or unspecified {}…".format(feature, …)` / `if verbose > -1: print(…)` /
    `raise ValidationError(err)` -> `RecDef` (quantifier, raised class).
Any other construct: `Unsupported: nucleus.py:<line>: …` (the run then reports a broken obligation).
"""
from __future__ import annotations

import ast
from fractions import Fraction

import common

SRC = "qcelemental/molparse/nucleus.py"
PARAMS = ["A", "Z", "E", "mass", "real", "label", "speclabel", "nonphysical", "mtol", "verbose"]
LISTS = {"Z": "z", "A": "a", "m": "m", "r": "r", "l": "l"}
FEATURES = {"atomic number": ".atomicNumber", "mass": ".mass", "mass number": ".massNumber", "real/ghost": ".realGhost",
            "user label": ".userLabel"}
GROUPS = ["gh1", "gh2", "A", "E", "user1", "Z", "user2", "mass"]
CMPS = {ast.Eq: ".eq", ast.NotEq: ".ne", ast.Lt: ".lt", ast.LtE: ".le", ast.Gt: ".gt", ast.GtE: ".ge"}
LOG_NAMES = {"text", "log_text"}


class Unsupported(Exception):
    pass


def bad(node, msg):
    try:
        src = ast.unparse(node)
    except Exception:  # noqa
        src = type(node).__name__
    raise Unsupported(f"nucleus.py:{getattr(node, 'lineno', '?')}: {msg}: {src[:160]}")


def lean_int(n: int) -> str:
    return f"({n})" if n < 0 else str(n)


def lean_rat(q: Fraction) -> str:
    if q.denominator == 1:
        return f"({q.numerator} : Rat)"
    return f"({q.numerator}/{q.denominator} : Rat)"


def lean_bytes(s: str) -> str:
    try:
        b = s.encode("ascii")
    except UnicodeEncodeError:
        raise Unsupported(f"non-ASCII string literal {s!r}")
    return "[" + ", ".join(str(c) for c in b) + "]"


def lean_const(node, v, negate=False) -> str:
    """a Python constant as a `Val`"""
    if v is None and not negate:
        return ".none"
    if isinstance(v, bool) and not negate:
        return f"(.num (.bool {'true' if v else 'false'}))"
    if isinstance(v, int) and not isinstance(v, bool):
        return f"(.num (.int {lean_int(-v if negate else v)}))"
    if isinstance(v, float):
        q = Fraction(v)  # the double the literal denotes (CPython's float parser; the literals are re-checked by ConstTieC06)
        return f"(.num (.float {lean_rat(-q if negate else q)}))"
    if isinstance(v, str) and not negate:
        return f"(.str {lean_bytes(v)})"
    bad(node, "unsupported constant")


def const_of(node):
    """(is_const, python value, negated)"""
    if isinstance(node, ast.Constant):
        return True, node.value, False
    if isinstance(node, ast.UnaryOp) and isinstance(node.op, ast.USub) and isinstance(node.operand, ast.Constant) \
            and isinstance(node.operand.value, (int, float)) and not isinstance(node.operand.value, bool):
        return True, node.operand.value, True
    return False, None, False


class Scope:
    """name resolution: locals of the nested function being translated, else the frame of reconcile_nucleus"""

    def __init__(self, tr, params=None, assigned=(), all_local=False):
        self.tr = tr
        self.local_ids = {}
        self.all_local = all_local
        self.is_main = params is None and not all_local
        for p in params or []:
            self.local_ids[p] = len(self.local_ids)
        for n in assigned:
            if n not in self.local_ids:
                self.local_ids[n] = len(self.local_ids)

    def is_local(self, name):
        return name in self.local_ids

    def ref(self, node, name):
        if name in LOG_NAMES:
            bad(node, f"the logging variable `{name}` is used outside a logging statement")
        if self.is_local(name):
            return f"(.loc {self.local_ids[name]})"
        if self.all_local:
            bad(node, f"unknown name `{name}`")
        return f"(.glob {self.tr.glob_id(name)})"


class Translator:
    def __init__(self, tree):
        self.tree = tree
        self.globs = {p: i for i, p in enumerate(PARAMS)}
        self.fn_ids = {}
        self.notes = []

    def glob_id(self, name):
        if name not in self.globs:
            self.globs[name] = len(self.globs)
        return self.globs[name]

    # ---------------------------------------------------------------- expressions
    def expr(self, n, sc: Scope) -> str:
        isc, v, neg = const_of(n)
        if isc:
            return f"(.lit {lean_const(n, v, neg)})"
        if isinstance(n, ast.Name):
            return sc.ref(n, n.id)
        if isinstance(n, ast.UnaryOp) and isinstance(n.op, ast.Not):
            return f"(.notE {self.expr(n.operand, sc)})"
        if isinstance(n, ast.BoolOp):
            ctor = ".andE" if isinstance(n.op, ast.And) else ".orE"
            parts = [self.expr(v, sc) for v in n.values]
            acc = parts[-1]
            for p in reversed(parts[:-1]):
                acc = f"({ctor} {p} {acc})"
            return acc
        if isinstance(n, ast.Compare):
            if len(n.ops) != 1:
                bad(n, "chained comparison")
            op, rhs = n.ops[0], n.comparators[0]
            if isinstance(op, (ast.Is, ast.IsNot)):
                if isinstance(rhs, ast.Constant) and rhs.value is None:
                    return f"({'.isNone' if isinstance(op, ast.Is) else '.isNotNone'} {self.expr(n.left, sc)})"
                if isinstance(rhs, ast.Constant) and rhs.value is True and isinstance(op, ast.Is):
                    return f"(.isTrue {self.expr(n.left, sc)})"
                bad(n, "`is` / `is not` only against None, `is` against True")
            if type(op) in CMPS:
                return f"(.cmp {CMPS[type(op)]} {self.expr(n.left, sc)} {self.expr(rhs, sc)})"
            bad(n, "comparison operator")
        if isinstance(n, ast.BinOp):
            if isinstance(n.op, ast.Add):
                return f"(.add {self.expr(n.left, sc)} {self.expr(n.right, sc)})"
            if isinstance(n.op, ast.Sub):
                return f"(.sub {self.expr(n.left, sc)} {self.expr(n.right, sc)})"
            bad(n, "binary operator")
        if isinstance(n, ast.Subscript):
            if isinstance(n.value, ast.Attribute) and isinstance(n.value.value, ast.Name) and n.value.value.id == "periodictable" \
                    and n.value.attr == "_el2a2mass":
                return f"(.el2a2mass {self.expr(n.slice, sc)})"
            bad(n, "subscript")
        if isinstance(n, ast.Call):
            return self.call_expr(n, sc)
        bad(n, "expression")

    def call_expr(self, n: ast.Call, sc: Scope) -> str:
        f = n.func
        if isinstance(f, ast.Name):
            if f.id in ("int", "float", "str", "abs") and len(n.args) == 1 and not n.keywords:
                ctor = {"int": ".pyInt", "float": ".pyFloat", "str": ".pyStr", "abs": ".abs"}[f.id]
                return f"({ctor} {self.expr(n.args[0], sc)})"
            if f.id == "round" and len(n.args) == 2 and not n.keywords and isinstance(n.args[1], ast.Constant) and n.args[1].value == 0 \
                    and not isinstance(n.args[1].value, bool):
                return f"(.round0 {self.expr(n.args[0], sc)})"
            if f.id in ("min", "max") and len(n.args) == 1 and not n.keywords:
                a = n.args[0]
                if isinstance(a, ast.Call) and isinstance(a.func, ast.Attribute) and a.func.attr in ("keys", "values") and not a.args and not a.keywords:
                    ctor = {("min", "keys"): ".minKeys", ("max", "keys"): ".maxKeys", ("min", "values"): ".minVals", ("max", "values"): ".maxVals"}[(f.id, a.func.attr)]
                    return f"({ctor} {self.expr(a.func.value, sc)})"
            bad(n, "call")
        if isinstance(f, ast.Attribute):
            if isinstance(f.value, ast.Name) and f.value.id == "periodictable":
                if f.attr in ("to_Z", "to_E"):
                    strict = False
                    for kw in n.keywords:
                        if kw.arg == "strict" and isinstance(kw.value, ast.Constant) and isinstance(kw.value.value, bool):
                            strict = kw.value.value
                        else:
                            bad(n, "keyword argument of a periodic-table accessor")
                    if len(n.args) != 1:
                        bad(n, "periodic-table accessor takes one positional argument")
                    ctor = ".toZ" if f.attr == "to_Z" else ".toE"
                    return f"({ctor} {self.expr(n.args[0], sc)} {'true' if strict else 'false'})"
                if f.attr in ("to_A", "to_mass"):
                    if len(n.args) != 1 or n.keywords:
                        bad(n, "periodic-table accessor takes one positional argument")
                    ctor = ".toA" if f.attr == "to_A" else ".toMass"
                    return f"({ctor} {self.expr(n.args[0], sc)})"
                bad(n, "periodic-table accessor")
            if f.attr == "lower" and not n.args and not n.keywords:
                return f"(.lower {self.expr(f.value, sc)})"
            if f.attr == "group" and isinstance(f.value, ast.Name) and f.value.id == getattr(self, "match_var", None) \
                    and len(n.args) == 1 and isinstance(n.args[0], ast.Constant) and n.args[0].value in GROUPS:
                return f"(.group .{n.args[0].value})"
        bad(n, "call")

    # ---------------------------------------------------------------- lambdas
    def tterm(self, n, x, caps, sc: Scope) -> str:
        isc, v, neg = const_of(n)
        if isc:
            return f"(.lit {lean_const(n, v, neg)})"
        if isinstance(n, ast.Name):
            if n.id == x:
                return ".x"
            if n.id in caps:
                return f"(.cap {caps.index(n.id)})"
            if n.id in LOG_NAMES:
                bad(n, "logging variable inside a test")
            if not sc.is_main and sc.is_local(n.id):
                bad(n, f"a test closes over the local `{n.id}` without binding it as a default (late binding is not modelled)")
            return f"(.outer {self.glob_id(n.id)})"
        if isinstance(n, ast.BinOp) and isinstance(n.op, (ast.Add, ast.Sub)):
            ctor = ".add" if isinstance(n.op, ast.Add) else ".sub"
            return f"({ctor} {self.tterm(n.left, x, caps, sc)} {self.tterm(n.right, x, caps, sc)})"
        if isinstance(n, ast.Call) and isinstance(n.func, ast.Name) and n.func.id == "abs" and len(n.args) == 1 and not n.keywords:
            return f"(.abs {self.tterm(n.args[0], x, caps, sc)})"
        bad(n, "term inside a test lambda")

    def tbool(self, n, x, caps, sc: Scope) -> str:
        if isinstance(n, ast.BoolOp):
            ctor = ".and" if isinstance(n.op, ast.And) else ".or"
            parts = [self.tbool(v, x, caps, sc) for v in n.values]
            acc = parts[-1]
            for p in reversed(parts[:-1]):
                acc = f"({ctor} {p} {acc})"
            return acc
        if isinstance(n, ast.Compare) and len(n.ops) == 1 and type(n.ops[0]) in CMPS:
            return f"(.cmp {CMPS[type(n.ops[0])]} {self.tterm(n.left, x, caps, sc)} {self.tterm(n.comparators[0], x, caps, sc)})"
        bad(n, "body of a test lambda")

    def lam(self, n: ast.Lambda, sc: Scope):
        a = n.args
        if a.vararg or a.kwarg or a.kwonlyargs or a.posonlyargs or not a.args:
            bad(n, "lambda signature")
        names = [p.arg for p in a.args]
        if len(a.defaults) != len(names) - 1:
            bad(n, "every lambda parameter after the first must be default-bound")
        caps = names[1:]
        cap_exprs = [self.expr(d, sc) for d in a.defaults]
        return "[" + ", ".join(cap_exprs) + "]", self.tbool(n.body, names[0], caps, sc)

    # ---------------------------------------------------------------- statements
    def is_logging_stmt(self, s) -> bool:
        if not (isinstance(s, ast.Expr) and isinstance(s.value, ast.Call)):
            return False
        f = s.value.func
        ok = (isinstance(f, ast.Name) and f.id == "print") or \
             (isinstance(f, ast.Attribute) and f.attr == "append" and isinstance(f.value, ast.Name) and f.value.id == "text")
        if not ok:
            return False
        for sub in ast.walk(s.value):
            if isinstance(sub, ast.Call) and sub is not s.value:
                g = sub.func
                if not ((isinstance(g, ast.Attribute) and g.attr in ("format", "join")) or (isinstance(g, ast.Name) and g.id == "all")):
                    bad(sub, "call inside a logging statement")
            if isinstance(sub, (ast.Lambda, ast.NamedExpr, ast.Await, ast.Yield)):
                bad(sub, "construct inside a logging statement")
        return True

    def is_logging_if(self, s) -> bool:
        if not isinstance(s, ast.If) or s.orelse:
            return False
        t = s.test
        if isinstance(t, ast.Name) and t.id == "log_text":
            pass
        elif isinstance(t, ast.Compare) and isinstance(t.left, ast.Name) and t.left.id == "verbose" and len(t.ops) == 1 \
                and const_of(t.comparators[0])[0]:
            pass
        else:
            return False
        if not all(self.is_logging_stmt(b) for b in s.body):
            bad(s, "a statement under a logging guard does more than log")
        return True

    def block(self, stmts, sc: Scope) -> str:
        out = []
        for s in stmts:
            r = self.stmt(s, sc)
            if r is not None:
                out.append(r)
        acc = ".nil"
        for r in reversed(out):
            acc = f"(.cons {r}\n {acc})"
        return acc

    def list_name(self, node, name, suffix):
        if name.endswith(suffix) and name[: -len(suffix)] in LISTS:
            return "." + LISTS[name[: -len(suffix)]]
        return None

    def assign_to(self, node, name, sc: Scope) -> str:
        if name in LOG_NAMES or name in PARAMS and sc.is_main:
            bad(node, f"assignment to `{name}`")
        if sc.is_local(name):
            return f"true {sc.local_ids[name]}"
        if not sc.is_main:
            bad(node, f"assignment to non-local `{name}`")
        return f"false {self.glob_id(name)}"

    def stmt(self, s, sc: Scope):
        if self.is_logging_if(s):
            return None
        if isinstance(s, ast.AnnAssign) and s.value is not None and isinstance(s.target, ast.Name):
            return self.simple_assign(s, s.target.id, s.value, sc)
        if isinstance(s, ast.Assign) and len(s.targets) == 1:
            t = s.targets[0]
            if isinstance(t, ast.Name):
                return self.simple_assign(s, t.id, s.value, sc)
            if isinstance(t, ast.Tuple) and all(isinstance(e, ast.Name) for e in t.elts) and isinstance(s.value, ast.Call) \
                    and isinstance(s.value.func, ast.Name) and s.value.func.id == "parse_nucleus_label" and len(s.value.args) == 1 \
                    and not s.value.keywords and sc.is_main:
                ids = [self.glob_id(e.id) for e in t.elts]
                return f"(.unpackParse [{', '.join(map(str, ids))}] {self.expr(s.value.args[0], sc)})"
            bad(s, "assignment")
        if isinstance(s, ast.If):
            return f"(.ite {self.expr(s.test, sc)}\n {self.block(s.body, sc)}\n {self.block(s.orelse, sc)})"
        if isinstance(s, ast.Try):
            if s.orelse or s.finalbody or len(s.handlers) != 1:
                bad(s, "try statement shape")
            h = s.handlers[0]
            if not (isinstance(h.type, ast.Name) and h.type.id == "NotAnElementError" and h.name is None):
                bad(s, "only `except NotAnElementError:` is modelled")
            for b in s.body:
                # the modelled semantics discards the effects of the body when it raises: only sound if nothing can raise
                # after an effect, i.e. the body is `if <test>: <constant assignments>`
                if not (isinstance(b, ast.If) and not b.orelse and all(
                        isinstance(a, ast.Assign) and len(a.targets) == 1 and isinstance(a.targets[0], ast.Name) and const_of(a.value)[0] for a in b.body)):
                    bad(b, "inside `try` only `if <test>: <name> = <constant>` is modelled")
            if len(s.body) != 1:
                bad(s, "try body must be a single `if`")
            return f"(.tryNAE {self.block(s.body, sc)}\n {self.block(h.body, sc)})"
        if isinstance(s, ast.Raise):
            if isinstance(s.exc, ast.Call) and isinstance(s.exc.func, ast.Name) and s.exc.func.id == "NotAnElementError":
                return "(.raise .notAnElement)"
            bad(s, "raise")
        if isinstance(s, ast.Expr) and isinstance(s.value, ast.Call):
            c = s.value
            f = c.func
            if isinstance(f, ast.Name) and f.id in self.fn_ids and not c.keywords:
                return f"(.call {self.fn_ids[f.id]} [{', '.join(self.expr(a, sc) for a in c.args)}])"
            if isinstance(f, ast.Attribute) and f.attr == "append" and isinstance(f.value, ast.Name) and len(c.args) == 1 and not c.keywords:
                l = self.list_name(s, f.value.id, "_exact")
                if l:
                    return f"(.appendCand {l} {self.expr(c.args[0], sc)})"
                l = self.list_name(s, f.value.id, "_range")
                if l:
                    if not isinstance(c.args[0], ast.Lambda):
                        bad(s, "a *_range list takes lambdas")
                    caps, body = self.lam(c.args[0], sc)
                    return f"(.appendTest {l} {caps} {body})"
            bad(s, "expression statement")
        if isinstance(s, ast.Expr) and isinstance(s.value, ast.Constant) and isinstance(s.value.value, str):
            return None  # docstring
        if isinstance(s, ast.Pass):
            return None
        bad(s, "statement")

    def simple_assign(self, s, name, value, sc: Scope):
        if name == "text" and sc.is_main and isinstance(value, ast.List):
            for sub in ast.walk(value):
                if isinstance(sub, ast.Call) and not (isinstance(sub.func, ast.Attribute) and sub.func.attr == "format"):
                    bad(sub, "call inside the logging buffer's initialiser")
            return None
        if name == "log_text" and sc.is_main:
            if isinstance(value, ast.Compare) and isinstance(value.left, ast.Name) and value.left.id == "verbose" and const_of(value.comparators[0])[0]:
                return None
            bad(s, "log_text must be a comparison of verbose with a constant")
        l = self.list_name(s, name, "_exact")
        if l and sc.is_main:
            if not isinstance(value, ast.List) or not all(const_of(e)[0] for e in value.elts):
                bad(s, "a *_exact list is initialised with a list of constants")
            vals = [lean_const(e, *const_of(e)[1:]) for e in value.elts]
            return f"(.initCands {l} [{', '.join(vals)}])"
        l = self.list_name(s, name, "_range")
        if l and sc.is_main:
            if not isinstance(value, ast.List) or value.elts:
                bad(s, "a *_range list is initialised empty")
            return f"(.initTests {l})"
        if sc.is_main and isinstance(value, ast.Call) and isinstance(value.func, ast.Name) and value.func.id == "reconcile":
            a = value.args
            if len(a) != 3 or value.keywords or not all(isinstance(x, ast.Name) for x in a[:2]) or not (isinstance(a[2], ast.Constant) and a[2].value in FEATURES):
                bad(s, "call of the nested reconcile")
            l1, l2 = self.list_name(s, a[0].id, "_exact"), self.list_name(s, a[1].id, "_range")
            if not l1 or l1 != l2:
                bad(s, "reconcile takes the *_exact and *_range lists of one dimension")
            return f"(.reconcile {self.glob_id(name)} {l1} {FEATURES[a[2].value]})"
        return f"(.assign {self.assign_to(s, name, sc)} {self.expr(value, sc)})"

    # ---------------------------------------------------------------- the nested reconcile
    def rec_def(self, fn: ast.FunctionDef) -> str:
        a = fn.args
        if [p.arg for p in a.args] != ["exact", "tests", "feature"] or a.defaults or a.vararg or a.kwarg or a.kwonlyargs:
            bad(fn, "signature of the nested reconcile")
        body = [s for s in fn.body if not (isinstance(s, ast.Expr) and isinstance(s.value, ast.Constant))]
        body = [s for s in body if not self.is_logging_if(s)]
        if len(body) != 3 or not isinstance(body[0], ast.For) or not isinstance(body[1], ast.Assign) or not isinstance(body[2], ast.Raise):
            bad(fn, "shape of the nested reconcile (for / err = … / raise)")
        loop = body[0]
        if loop.orelse or not (isinstance(loop.target, ast.Name) and isinstance(loop.iter, ast.Name) and loop.iter.id == "exact"):
            bad(loop, "candidate loop")
        cand = loop.target.id
        lb = [s for s in loop.body if not self.is_logging_if(s)]
        if len(lb) != 2:
            bad(loop, "candidate loop body")
        asg, dec = lb
        ok = isinstance(asg, ast.Assign) and len(asg.targets) == 1 and isinstance(asg.targets[0], ast.Name) and isinstance(asg.value, ast.ListComp)
        if ok:
            lc = asg.value
            ok = len(lc.generators) == 1 and not lc.generators[0].ifs and isinstance(lc.generators[0].iter, ast.Name) and lc.generators[0].iter.id == "tests" \
                and isinstance(lc.generators[0].target, ast.Name) and isinstance(lc.elt, ast.Call) and isinstance(lc.elt.func, ast.Name) \
                and lc.elt.func.id == lc.generators[0].target.id and len(lc.elt.args) == 1 and isinstance(lc.elt.args[0], ast.Name) \
                and lc.elt.args[0].id == cand and not lc.elt.keywords
        if not ok:
            bad(asg, "assessment = [fn(candidate) for fn in tests]")
        aname = asg.targets[0].id
        if not (isinstance(dec, ast.If) and not dec.orelse and isinstance(dec.test, ast.Call) and isinstance(dec.test.func, ast.Name)
                and dec.test.func.id in ("all", "any") and len(dec.test.args) == 1 and isinstance(dec.test.args[0], ast.Name)
                and dec.test.args[0].id == aname and len(dec.body) == 1 and isinstance(dec.body[0], ast.Return)
                and isinstance(dec.body[0].value, ast.Name) and dec.body[0].value.id == cand):
            bad(dec, "if all(assessment): return candidate")
        quant_all = dec.test.func.id == "all"
        err = body[1]
        ev = err.value
        if not (len(err.targets) == 1 and isinstance(err.targets[0], ast.Name) and isinstance(ev, ast.Call) and isinstance(ev.func, ast.Attribute)
                and ev.func.attr == "format" and isinstance(ev.func.value, ast.Constant) and isinstance(ev.func.value.value, str)
                and ev.func.value.value.startswith("Inconsistent or unspecified {}:") and ev.args and isinstance(ev.args[0], ast.Name)
                and ev.args[0].id == "feature" and all(isinstance(x, ast.Name) for x in ev.args)):
            bad(err, "the error message must start with 'Inconsistent or unspecified {}:' filled with the feature")
        r = body[2]
        if not (isinstance(r.exc, ast.Call) and isinstance(r.exc.func, ast.Name) and len(r.exc.args) == 1 and isinstance(r.exc.args[0], ast.Name)
                and r.exc.args[0].id == err.targets[0].id):
            bad(r, "raise <Error>(err)")
        validation = r.exc.func.id == "ValidationError"
        return f"{{ quantAll := {'true' if quant_all else 'false'}, raisesValidation := {'true' if validation else 'false'} }}"

    # ---------------------------------------------------------------- functions
    @staticmethod
    def assigned_names(fn) -> list:
        out = []
        for sub in ast.walk(fn):
            if isinstance(sub, (ast.Assign, ast.AnnAssign)):
                tg = sub.targets if isinstance(sub, ast.Assign) else [sub.target]
                for t in tg:
                    for e in ([t] if isinstance(t, ast.Name) else getattr(t, "elts", [])):
                        if isinstance(e, ast.Name) and e.id not in out:
                            out.append(e.id)
            if isinstance(sub, (ast.For, ast.While, ast.With, ast.FunctionDef, ast.ClassDef, ast.Global, ast.Nonlocal, ast.Delete, ast.AugAssign)) and sub is not fn:
                bad(sub, "construct inside a nested closure")
        return out

    def nested_fn(self, fn: ast.FunctionDef):
        a = fn.args
        if a.defaults or a.vararg or a.kwarg or a.kwonlyargs or a.posonlyargs or fn.decorator_list:
            bad(fn, "signature of a nested closure")
        params = [p.arg for p in a.args]
        sc = Scope(self, params=params, assigned=self.assigned_names(fn))
        for s in ast.walk(fn):
            if isinstance(s, ast.Return):
                bad(s, "return inside a nested closure")
        return len(params), self.block(fn.body, sc), sc

    def translate(self):
        fns = {n.name: n for n in self.tree.body if isinstance(n, ast.FunctionDef)}
        if "reconcile_nucleus" not in fns or "parse_nucleus_label" not in fns:
            raise Unsupported("nucleus.py: reconcile_nucleus / parse_nucleus_label not found")
        rn = fns["reconcile_nucleus"]
        a = rn.args
        if [p.arg for p in a.args] != PARAMS or a.vararg or a.kwarg or a.kwonlyargs or a.posonlyargs:
            bad(rn, f"signature of reconcile_nucleus (expected parameters {PARAMS})")
        nested = [s for s in rn.body if isinstance(s, ast.FunctionDef)]
        rec = None
        for f in nested:
            if f.name == "reconcile":
                rec = f
            else:
                self.fn_ids[f.name] = len(self.fn_ids)
        if rec is None:
            bad(rn, "nested reconcile not found")
        rec_txt = self.rec_def(rec)
        main = [s for s in rn.body if not isinstance(s, ast.FunctionDef)]
        if not main or not isinstance(main[-1], ast.Return) or not isinstance(main[-1].value, ast.Tuple):
            bad(rn, "reconcile_nucleus must end in `return (…tuple…)`")
        for s in ast.walk(ast.Module(body=main[:-1], type_ignores=[])):
            if isinstance(s, (ast.Return, ast.For, ast.While, ast.With, ast.Global, ast.Nonlocal, ast.Delete, ast.AugAssign)):
                bad(s, "construct in the body of reconcile_nucleus")
        msc = Scope(self)
        body_txt = self.block(main[:-1], msc)
        ret_txt = "[" + ", ".join(self.expr(e, msc) for e in main[-1].value.elts) + "]"
        fn_txts = []
        for f in nested:
            if f is rec:
                continue
            n, b, sc = self.nested_fn(f)
            fn_txts.append((self.fn_ids[f.name], f.name, f.lineno, n, b, sc))
        # parse_nucleus_label
        pl = fns["parse_nucleus_label"]
        if [p.arg for p in pl.args.args] != ["label"] or pl.args.defaults:
            bad(pl, "signature of parse_nucleus_label")
        pb = [s for s in pl.body if not (isinstance(s, ast.Expr) and isinstance(s.value, ast.Constant))]
        if len(pb) != 3:
            bad(pl, "parse_nucleus_label: match / if matchobj … else raise / return")
        m, cond, ret = pb
        if not (isinstance(m, ast.Assign) and len(m.targets) == 1 and isinstance(m.targets[0], ast.Name) and isinstance(m.value, ast.Call)
                and isinstance(m.value.func, ast.Attribute) and m.value.func.attr == "match" and len(m.value.args) == 1
                and isinstance(m.value.args[0], ast.Name) and m.value.args[0].id == "label"):
            bad(m, "matchobj = _nucleus.match(label)")
        self.match_var = m.targets[0].id
        if not (isinstance(cond, ast.If) and isinstance(cond.test, ast.Name) and cond.test.id == self.match_var and len(cond.orelse) == 1
                and isinstance(cond.orelse[0], ast.Raise)):
            bad(cond, "if matchobj: … else: raise …")
        rz = cond.orelse[0]
        if not (isinstance(rz.exc, ast.Call) and isinstance(rz.exc.func, ast.Name)):
            bad(rz, "raise <Error>(…)")
        if rz.exc.func.id == "ValidationError":
            msg = rz.exc.args[0] if rz.exc.args else None
            txt = msg.func.value.value if (isinstance(msg, ast.Call) and isinstance(msg.func, ast.Attribute) and isinstance(msg.func.value, ast.Constant)) else \
                (msg.value if isinstance(msg, ast.Constant) else "")
            if "not parseable" not in str(txt):
                bad(rz, "the refusal message must contain 'not parseable' (the harness classifies it by that)")
            fail = ".unparseable"
        elif rz.exc.func.id == "NotAnElementError":
            fail = ".notAnElement"
        else:
            bad(rz, "raised class")
        for sub in ast.walk(ast.Module(body=cond.body, type_ignores=[])):
            if isinstance(sub, (ast.Return, ast.For, ast.While, ast.With, ast.Try, ast.Raise, ast.Lambda)):
                bad(sub, "construct in parse_nucleus_label")
        psc = Scope(self, params=[], assigned=self.assigned_names(ast.Module(body=cond.body, type_ignores=[])), all_local=True)
        pbody = self.block(cond.body, psc)
        if not (isinstance(ret, ast.Return) and isinstance(ret.value, ast.Tuple) and all(isinstance(e, ast.Name) for e in ret.value.elts)):
            bad(ret, "return A, Z, E, mass, real, user")
        pret = "[" + ", ".join(self.expr(e, psc) for e in ret.value.elts) + "]"
        return rec_txt, body_txt, ret_txt, fn_txts, pbody, pret, fail, psc, (rn.lineno, pl.lineno, rec.lineno)


def render() -> str:
    path = common.REPO / SRC
    tree = ast.parse(path.read_text(), filename=str(path))
    tr = Translator(tree)
    rec_txt, body_txt, ret_txt, fn_txts, pbody, pret, fail, psc, (l_rn, l_pl, l_rec) = tr.translate()
    L = [
        "import QcelVerif.Model.NucleusAst",
        f"/-! GENERATED by harness/c06_src.py from {SRC} (reconcile_nucleus: line {l_rn}, its nested reconcile: line {l_rec},",
        f"parse_nucleus_label: line {l_pl}) — do not edit.  One `Stmt` per source statement; logging statements are dropped.",
        "",
        "Variables of reconcile_nucleus's frame (`.glob k` / `.outer k`):",
        "  " + ", ".join(f"{i}={n}" for n, i in sorted(tr.globs.items(), key=lambda kv: kv[1])),
        "Nested closures (`.call k`): " + ", ".join(f"{i}={n}" for n, i in sorted(tr.fn_ids.items(), key=lambda kv: kv[1])),
    ]
    for fid, name, lineno, n, b, sc in fn_txts:
        L.append(f"  locals of {name} (`.loc k`): " + ", ".join(f"{i}={v}" for v, i in sorted(sc.local_ids.items(), key=lambda kv: kv[1])))
    L.append("  locals of parse_nucleus_label (`.loc k`): " + ", ".join(f"{i}={v}" for v, i in sorted(psc.local_ids.items(), key=lambda kv: kv[1])))
    L += ["-/", "namespace QcelVerif.Gen.NucleusSrc", "open QcelVerif.Nucleus QcelVerif.Nucleus.Ast", ""]
    for fid, name, lineno, n, b, sc in fn_txts:
        L += [f"/-- `{name}` (nucleus.py:{lineno}) -/", f"def fn{fid} : FnDef := {{ nparams := {n}, body :=", f" {b} }}", ""]
    L += ["/-- the nested `reconcile(exact, tests, feature)` -/", f"def recDef : RecDef := {rec_txt}", ""]
    L += ["/-- `reconcile_nucleus` from the initialisations to the last statement before `return` -/", "def body : Block :=", f" {body_txt}", ""]
    L += ["def ret : List Expr :=", f" {ret_txt}", ""]
    L += ["/-- `parse_nucleus_label`: the branch taken when the pattern matched -/", "def parseBody : Block :=", f" {pbody}", ""]
    L += ["def parseRet : List Expr :=", f" {pret}", ""]
    L += ["def program : Program :=",
          "  { fns := [" + ", ".join(f"({fid}, fn{fid})" for fid, *_ in fn_txts) + "], recDef := recDef, body := body, ret := ret,",
          f"    parseBody := parseBody, parseRet := parseRet, parseFail := {fail} }}", "",
          "end QcelVerif.Gen.NucleusSrc", ""]
    return "\n".join(L)


def gen_nucleus_src(ctx=None) -> None:
    """lean/QcelVerif/Gen/NucleusSrc.lean <- qcelemental/molparse/nucleus.py (decision code, statement by statement)"""
    body = render()
    f = common.LEAN / "QcelVerif" / "Gen" / "NucleusSrc.lean"
    f.parent.mkdir(exist_ok=True)
    if not f.exists() or f.read_text() != body:
        f.write_text(body)


if __name__ == "__main__":
    print(render())
