"""C01 — the oracle's anchor that does NOT come from /repo's build script or shipped table.

`raw_data/nist_data/build_periodic_table.py` carries four literal side tables (element names, the
longest-lived isotope of the unstable elements, the Uut/Uup/Uus renames, the D/T aliases).  They live in
the repository, so a "regeneration" can change one of them together with the shipped data file and stay
self-consistent.  Nothing that is meant to catch such a change may therefore read them.  This module holds
the same facts as an embedded literal (textbook / NIST SP 966 (July 2018) / IUPAC 2009-2011 isotopic
compositions) and re-encodes them for the Lean theorems of `Props/C01Anchor.lean`:

  lean/QcelVerif/Gen/PTAnchor.lean    <- TEXTBOOK below (this file; independent of /repo)
  lean/QcelVerif/Gen/Srd144Saw.lean   <- the raw "Standard Atomic Weight" strings of the SRD-144 JSON
                                         (NIST prints a bracketed mass number, e.g. "[98]", for an element
                                         without stable isotopes: its longest-lived isotope)
"""
from __future__ import annotations

import json
import os
from pathlib import Path

# Z symbol name default-isotope  (* = no stable isotope: longest-lived isotope, NIST SP 966 July 2018 /
# SRD-144 bracketed standard atomic weight; otherwise the most abundant natural isotope).  American
# spellings as printed by NIST (Aluminum, Sulfur, Cesium).
TEXTBOOK = """
1 H Hydrogen 1      2 He Helium 4        3 Li Lithium 7       4 Be Beryllium 9      5 B Boron 11
6 C Carbon 12       7 N Nitrogen 14      8 O Oxygen 16        9 F Fluorine 19       10 Ne Neon 20
11 Na Sodium 23     12 Mg Magnesium 24   13 Al Aluminum 27    14 Si Silicon 28      15 P Phosphorus 31
16 S Sulfur 32      17 Cl Chlorine 35    18 Ar Argon 40       19 K Potassium 39     20 Ca Calcium 40
21 Sc Scandium 45   22 Ti Titanium 48    23 V Vanadium 51     24 Cr Chromium 52     25 Mn Manganese 55
26 Fe Iron 56       27 Co Cobalt 59      28 Ni Nickel 58      29 Cu Copper 63       30 Zn Zinc 64
31 Ga Gallium 69    32 Ge Germanium 74   33 As Arsenic 75     34 Se Selenium 80     35 Br Bromine 79
36 Kr Krypton 84    37 Rb Rubidium 85    38 Sr Strontium 88   39 Y Yttrium 89       40 Zr Zirconium 90
41 Nb Niobium 93    42 Mo Molybdenum 98  43 Tc Technetium 98* 44 Ru Ruthenium 102   45 Rh Rhodium 103
46 Pd Palladium 106 47 Ag Silver 107     48 Cd Cadmium 114    49 In Indium 115      50 Sn Tin 120
51 Sb Antimony 121  52 Te Tellurium 130  53 I Iodine 127      54 Xe Xenon 132       55 Cs Cesium 133
56 Ba Barium 138    57 La Lanthanum 139  58 Ce Cerium 140     59 Pr Praseodymium 141 60 Nd Neodymium 142
61 Pm Promethium 145* 62 Sm Samarium 152 63 Eu Europium 153   64 Gd Gadolinium 158  65 Tb Terbium 159
66 Dy Dysprosium 164 67 Ho Holmium 165   68 Er Erbium 166     69 Tm Thulium 169     70 Yb Ytterbium 174
71 Lu Lutetium 175  72 Hf Hafnium 180    73 Ta Tantalum 181   74 W Tungsten 184     75 Re Rhenium 187
76 Os Osmium 192    77 Ir Iridium 193    78 Pt Platinum 195   79 Au Gold 197        80 Hg Mercury 202
81 Tl Thallium 205  82 Pb Lead 208       83 Bi Bismuth 209    84 Po Polonium 209*   85 At Astatine 210*
86 Rn Radon 222*    87 Fr Francium 223*  88 Ra Radium 226*    89 Ac Actinium 227*   90 Th Thorium 232
91 Pa Protactinium 231 92 U Uranium 238  93 Np Neptunium 237* 94 Pu Plutonium 244*  95 Am Americium 243*
96 Cm Curium 247*   97 Bk Berkelium 247* 98 Cf Californium 251* 99 Es Einsteinium 252* 100 Fm Fermium 257*
101 Md Mendelevium 258* 102 No Nobelium 259* 103 Lr Lawrencium 266* 104 Rf Rutherfordium 267* 105 Db Dubnium 268*
106 Sg Seaborgium 271* 107 Bh Bohrium 270* 108 Hs Hassium 269* 109 Mt Meitnerium 278* 110 Ds Darmstadtium 281*
111 Rg Roentgenium 282* 112 Cn Copernicium 285* 113 Nh Nihonium 286* 114 Fl Flerovium 289* 115 Mc Moscovium 289*
116 Lv Livermorium 293* 117 Ts Tennessine 294* 118 Og Oganesson 294*
"""

# the systematic placeholder symbols SRD-144 (2011) still prints, and the names IUPAC gave them in 2016
RENAMED = {"Uut": "Nh", "Uup": "Mc", "Uus": "Ts", "Uuo": "Og"}
# the two isotopes with symbols of their own (SRD-144 prints them as the isotope's "Atomic Symbol")
HYDROGEN_ALIASES = {"D": ("H", 2), "T": ("H", 3)}


def textbook_rows():
    """[(Z, symbol, name, default A, unstable?)] for Z = 1..118."""
    toks = TEXTBOOK.split()
    assert len(toks) == 4 * 118, len(toks)
    rows = []
    for i in range(0, len(toks), 4):
        z, sym, name, a = toks[i : i + 4]
        rows.append((int(z), sym, name, int(a.rstrip("*")), a.endswith("*")))
    assert [r[0] for r in rows] == list(range(1, 119))
    assert len({r[1] for r in rows}) == 118 and len({r[2] for r in rows}) == 118
    return rows


def pack(s: str) -> int:
    return int.from_bytes(b"\x01" + s.encode("ascii"), "big")


def _write_if_changed(path: Path, text: str):
    path.parent.mkdir(parents=True, exist_ok=True)
    if path.exists() and path.read_text() == text:
        return
    path.write_text(text)


def translate(ctx=None):
    """Re-encode (strings -> packed naturals; nothing matched, normalised or defaulted here)."""
    out_dir = Path(__file__).resolve().parent.parent / "lean" / "QcelVerif" / "Gen"
    repo = Path(os.environ.get("QCEL_REPO", "/repo"))
    rows = textbook_rows()
    o = ["/-! GENERATED by harness/c01_anchor.py from ITS OWN embedded textbook table (independent of /repo) — do not edit. -/",
         "namespace QcelVerif.Gen.PTAnchor", "",
         "/-- (Z, packed symbol, packed name, default mass number, no-stable-isotope?) for Z = 1 … 118 -/",
         "def rows : List (Nat × Nat × Nat × Nat × Bool) := ["]
    o.append(",\n".join(f"  ({z}, {pack(s)}, {pack(n)}, {a}, {'true' if u else 'false'})  /- {s} {n} {a} -/" for z, s, n, a, u in rows) + "]")
    o.append("/-- placeholder symbol ↦ symbol (IUPAC 2016) -/")
    o.append("def renamed : List (Nat × Nat) := [" + ", ".join(f"({pack(k)}, {pack(v)})" for k, v in RENAMED.items()) + "]")
    o.append("end QcelVerif.Gen.PTAnchor")
    _write_if_changed(out_dir / "PTAnchor.lean", "\n".join(o) + "\n")

    raw = json.loads((repo / "raw_data/nist_data/srd144_Atomic_Weights_and_Isotopic_Compositions_for_All_Elements.json").read_text())
    o = ["/-! GENERATED by harness/c01_anchor.py from raw_data/nist_data/srd144_*.json — do not edit. -/",
         "namespace QcelVerif.Gen.Srd144Saw", "",
         "/-- per element, raw strings packed: (Atomic Symbol, Atomic Number, Standard Atomic Weight?) -/",
         "def saw : List (Nat × Nat × Option Nat) := ["]
    items = []
    for e in raw["data"]:
        w = e.get("Standard Atomic Weight")
        items.append(f"  ({pack(e['Atomic Symbol'])}, {pack(e['Atomic Number'])}, {'none' if w is None else 'some ' + str(pack(w))})")
    o.append(",\n".join(items) + "]")
    o.append("end QcelVerif.Gen.Srd144Saw")
    _write_if_changed(out_dir / "Srd144Saw.lean", "\n".join(o) + "\n")


if __name__ == "__main__":
    translate()
