"""Shared machinery for the per-property checks (see DESIGN.md §1.2).

A property module (harness/cXX.py) exposes:

    PROPERTY      = "C05"
    LEAN_TARGETS  = ["QcelVerif.Props.C05"]            # lake targets that must build
    DRIVER        = "QcelVerif/Driver/C05.lean"         # line-protocol model driver (optional)
    THEOREMS      = [("QcelVerif.ChgMult.vfc_sound", "what it says"), ...]
    TRANSLATORS   = [callable(ctx), ...]                # regenerate Gen/*.lean from /repo (optional)
    TRUSTED_BASE  = [...]; ASSUMPTIONS = [...]
    RULE          = "how cases are generated and what makes one distinct/non-trivial"
    def run(ctx) -> Outcome                             # correspondence + property oracle
    def replay(ctx, case) -> Outcome                    # re-run one recorded case

`run.py` owns the decision logic (exit codes, VIOLATION / KNOWN-FINDING lines, evidence).
"""
from __future__ import annotations

import fcntl
import hashlib
import importlib
import json
import os
import random
import re
import subprocess
import sys
import time
from dataclasses import dataclass, field
from pathlib import Path
from typing import Any, Callable, Dict, List, Optional, Tuple

VERIF = Path(__file__).resolve().parent.parent
REPO = Path(os.environ.get("QCEL_REPO", "/repo"))
LEAN = VERIF / "lean"
WORK = VERIF / ".work"
# evidence of runs against a scratch copy (mutation trials) must never overwrite the evidence of /repo runs
EVIDENCE = VERIF / "evidence" if str(REPO) == "/repo" else WORK / "evidence_scratch"
REPLAYS = VERIF / "replays"
CORPUS = VERIF / "corpus"
KNOWN = VERIF / "known_findings.json"

ALLOWED_AXIOMS = {"propext", "Classical.choice", "Quot.sound"}
FORBIDDEN_RE = re.compile(
    r"\bsorry\b|\badmit\b|^\s*axiom\s|\bnative_decide\b|\bbv_decide\b|implemented_by|\bunsafe\s|maxHeartbeats\s+0\b",
    re.M,
)


def log(*a):
    print(*a, file=sys.stderr, flush=True)


# --------------------------------------------------------------------------------------
# outcome of a correspondence/oracle run


@dataclass
class Finding:
    """One thing that went wrong on one concrete input."""

    kind: str  # short class name, e.g. "oracle:rules", "mismatch", "bridge_prefixed_source"
    case: Any  # the concrete input (JSON-able) — the replay
    observed: Any = None
    expected: Any = None
    detail: str = ""

    def to_json(self):
        return {
            "kind": self.kind,
            "case": self.case,
            "observed": self.observed,
            "expected": self.expected,
            "detail": self.detail,
        }


@dataclass
class Outcome:
    evaluations: int = 0
    distinct: set = field(default_factory=set)  # keys of distinct non-trivial cases
    samples: List[Any] = field(default_factory=list)
    violations: List[Finding] = field(default_factory=list)  # property fails on the implementation
    mismatches: List[Finding] = field(default_factory=list)  # model and implementation disagree
    distribution: Dict[str, Any] = field(default_factory=dict)
    exhaustive: bool = False
    notes: List[str] = field(default_factory=list)

    def count(self, key: str, n: int = 1):
        self.distribution[key] = self.distribution.get(key, 0) + n

    def sample(self, x, limit=6):
        if len(self.samples) < limit:
            self.samples.append(x)

    def nontrivial(self, key):
        self.distinct.add(key if isinstance(key, (str, int, tuple)) else json.dumps(key, sort_keys=True))


# --------------------------------------------------------------------------------------
# context


class Ctx:
    def __init__(self, prop: str, tier: str, seed: int):
        self.prop = prop
        self.tier = tier
        self.seed = seed
        self.rng = random.Random((seed * 1000003) ^ int(hashlib.sha1(prop.encode()).hexdigest()[:8], 16))
        self.model_available = True
        self.broken: List[str] = []  # names of theorems / ties that no longer check
        WORK.mkdir(exist_ok=True)
        self.work = WORK / f"{prop}-{os.getpid()}"
        self.work.mkdir(exist_ok=True)

    @property
    def thorough(self) -> bool:
        return self.tier == "thorough"

    # Thorough-tier budget (about 20 min per property on this machine): after the source-derived programs were added to the drivers
    # (every line answered a second time) three checks ran 23-27 min; their thorough sample sizes are cut by these factors (never
    # below the quick size).  Exhaustive blocks do not go through scale() and are unaffected.
    THOROUGH_FACTOR = {"C04": 0.55, "C07": 0.6, "C16": 0.55}

    def scale(self, quick: int, thorough: int) -> int:
        if not self.thorough:
            return quick
        f = self.THOROUGH_FACTOR.get(self.prop)
        return thorough if f is None else max(quick, int(thorough * f))

    # ---- Lean -----------------------------------------------------------------------
    def lake_build(self, targets: List[str], timeout=3000) -> Tuple[bool, str]:
        """Build lake targets under a lock (checks may run concurrently)."""
        lock = open(LEAN / ".lake.lock", "w")
        fcntl.flock(lock, fcntl.LOCK_EX)
        try:
            p = subprocess.run(
                ["lake", "build"] + targets, cwd=LEAN, capture_output=True, text=True, timeout=timeout
            )
            out = p.stdout + p.stderr
            return p.returncode == 0, out
        finally:
            fcntl.flock(lock, fcntl.LOCK_UN)
            lock.close()

    def lean_file(self, path: Path, timeout=1800) -> Tuple[bool, str]:
        p = subprocess.run(
            ["lake", "env", "lean", str(path)], cwd=LEAN, capture_output=True, text=True, timeout=timeout
        )
        return p.returncode == 0, p.stdout + p.stderr

    def run_model(self, driver: str, lines: List[str], timeout=3000) -> List[str]:
        """Pipe `lines` through the Lean line-protocol driver; one output line per input line."""
        if not lines:
            return []
        self._batch = getattr(self, "_batch", 0) + 1
        inp = self.work / f"{Path(driver).stem}.{self._batch}.{os.getpid()}.in"
        inp.write_text("\n".join(lines) + "\n")
        exe = LEAN / ".lake" / "build" / "bin" / ("drv_" + Path(driver).stem.lower())
        if exe.exists():
            cmd = [str(exe)]
        else:
            cmd = ["lake", "env", "lean", "--run", driver]
        with open(inp) as fh:
            p = subprocess.run(cmd, cwd=LEAN, stdin=fh, capture_output=True, text=True, timeout=timeout)
        if p.returncode != 0:
            raise ModelCrash(f"driver {driver} exited {p.returncode}: {p.stderr[-2000:]}")
        out = p.stdout.split("\n")
        if out and out[-1] == "":
            out.pop()
        if len(out) != len(lines):
            raise ModelCrash(f"driver {driver}: {len(lines)} lines in, {len(out)} lines out; stderr={p.stderr[-1000:]}")
        return out

    def cleanup(self):
        import shutil

        shutil.rmtree(self.work, ignore_errors=True)


class ModelCrash(Exception):
    pass


# --------------------------------------------------------------------------------------
# audit


def strip_lean_comments(src: str) -> str:
    # remove block comments (nested) and line comments
    out = []
    i, depth, n = 0, 0, len(src)
    while i < n:
        if src.startswith("/-", i):
            depth += 1
            i += 2
        elif depth and src.startswith("-/", i):
            depth -= 1
            i += 2
        elif depth:
            i += 1
        elif src.startswith("--", i):
            while i < n and src[i] != "\n":
                i += 1
        else:
            out.append(src[i])
            i += 1
    return "".join(out)


def grep_forbidden(files: List[Path]) -> List[str]:
    hits = []
    for f in files:
        if not f.exists():
            continue
        body = strip_lean_comments(f.read_text())
        for m in FORBIDDEN_RE.finditer(body):
            hits.append(f"{f.relative_to(LEAN)}: {m.group(0).strip()}")
    return hits


def lean_sources_for(targets: List[str]) -> List[Path]:
    """Transitive closure of project-local imports of the given module targets."""
    seen, todo = set(), list(targets)
    files = []
    while todo:
        mod = todo.pop()
        if mod in seen or not mod.startswith("QcelVerif"):
            continue
        seen.add(mod)
        f = LEAN / (mod.replace(".", "/") + ".lean")
        if not f.exists():
            continue
        files.append(f)
        for line in f.read_text().splitlines():
            m = re.match(r"\s*(?:public\s+)?import\s+(\S+)", line)
            if m:
                todo.append(m.group(1))
    return files


def audit(ctx: Ctx, prop_mod) -> Dict[str, Any]:
    """#print axioms on every property theorem; grep sources for forbidden constructs."""
    names = [n for n, _ in prop_mod.THEOREMS]
    imports = sorted({t for t in prop_mod.LEAN_TARGETS if ".Props." in t or ".Lemmas." in t})
    body = "".join(f"import {t}\n" for t in imports) + "".join(f"#print axioms {n}\n" for n in names)
    adir = LEAN / ".audit"
    adir.mkdir(exist_ok=True)
    f = adir / f"{prop_mod.PROPERTY}_{os.getpid()}.lean"
    f.write_text(body)
    try:
        ok, out = ctx.lean_file(f)
    finally:
        f.unlink(missing_ok=True)
    res = {}
    # "'name' depends on axioms: [a, b]"  /  "'name' does not depend on any axioms"
    flat = out.replace("\n", " ")
    for n in names:
        m = re.search(r"'" + re.escape(n) + r"' depends on axioms: \[([^\]]*)\]", flat)
        if m:
            axs = {a.strip() for a in m.group(1).split(",") if a.strip()}
            res[n] = {"axioms": sorted(axs), "ok": axs <= ALLOWED_AXIOMS}
        elif re.search(r"'" + re.escape(n) + r"' does not depend on any axioms", flat):
            res[n] = {"axioms": [], "ok": True}
        else:
            res[n] = {"axioms": None, "ok": False, "error": "theorem not found / did not elaborate"}
    forbidden = grep_forbidden(lean_sources_for(prop_mod.LEAN_TARGETS))
    return {"theorems": res, "forbidden": forbidden, "raw_ok": ok, "raw": out[-3000:] if not ok else ""}


# --------------------------------------------------------------------------------------
# known findings


def load_known() -> List[Dict[str, Any]]:
    if KNOWN.exists():
        return json.loads(KNOWN.read_text()).get("findings", [])
    return []


def known_for(prop: str) -> List[Dict[str, Any]]:
    return [k for k in load_known() if k.get("property") == prop and k.get("status", "open") == "open"]


# --------------------------------------------------------------------------------------
# evidence / replay


def write_replay(prop: str, payload: Dict[str, Any]) -> Path:
    REPLAYS.mkdir(exist_ok=True)
    h = hashlib.sha1(json.dumps(payload, sort_keys=True, default=str).encode()).hexdigest()[:12]
    p = REPLAYS / f"{prop}-{h}.json"
    p.write_text(json.dumps(payload, indent=1, sort_keys=True, default=str))
    return p


def write_evidence(prop: str, ev: Dict[str, Any]):
    EVIDENCE.mkdir(parents=True, exist_ok=True)
    p = EVIDENCE / f"{prop}.json"
    p.write_text(json.dumps(ev, indent=1, default=str))
    try:
        import jsonschema

        schema = json.loads(Path("/root/.vp/EVIDENCE.schema.json").read_text())
        jsonschema.validate(ev, schema)
    except FileNotFoundError:
        pass
    except ImportError:
        pass


# --------------------------------------------------------------------------------------
# small helpers used by several property modules


def err_class(exc: BaseException) -> str:
    """Map an exception to the small enum used in the line protocols."""
    import qcelemental as qcel

    if isinstance(exc, qcel.exceptions.NotAnElementError):
        return "NotAnElement"
    if isinstance(exc, qcel.exceptions.MoleculeFormatError):
        return "MoleculeFormat"
    if isinstance(exc, qcel.exceptions.DataUnavailableError):
        return "DataUnavailable"
    if isinstance(exc, qcel.exceptions.ValidationError):
        return "Validation"
    try:
        import pydantic.v1 as pv1

        if isinstance(exc, pv1.ValidationError):
            return "Validation"
    except Exception:
        pass
    try:
        import pydantic

        if isinstance(exc, pydantic.ValidationError):
            return "Validation"
    except Exception:
        pass
    return "other:" + type(exc).__name__


def shrink_list(items: list, still_fails: Callable[[list], bool], max_steps=200) -> list:
    """ddmin-style shrinking of a list-shaped case."""
    cur = list(items)
    n = 2
    steps = 0
    while len(cur) >= 2 and steps < max_steps:
        chunk = max(1, len(cur) // n)
        reduced = False
        for i in range(0, len(cur), chunk):
            cand = cur[:i] + cur[i + chunk :]
            steps += 1
            if cand and still_fails(cand):
                cur = cand
                n = max(n - 1, 2)
                reduced = True
                break
        if not reduced:
            if n >= len(cur):
                break
            n = min(len(cur), n * 2)
    return cur


def load_property(prop: str):
    mod = importlib.import_module(prop.lower())
    # cross-property additions (harness/consttie.py): extra translators / Lean targets / theorems tying the numeric
    # constants and defaults hard-coded in a property's hand model to the values re-read from the source on every run
    try:
        extra = importlib.import_module("consttie").EXTRA.get(prop.upper(), {})
    except ModuleNotFoundError:
        extra = {}
    if extra and not getattr(mod, "_consttie_applied", False):
        mod.TRANSLATORS = list(getattr(mod, "TRANSLATORS", [])) + list(extra.get("translators", []))
        mod.LEAN_TARGETS = list(mod.LEAN_TARGETS) + [t for t in extra.get("targets", []) if t not in mod.LEAN_TARGETS]
        mod.THEOREMS = list(mod.THEOREMS) + list(extra.get("theorems", []))
        mod.TRUSTED_BASE = list(mod.TRUSTED_BASE) + list(extra.get("trusted_base", []))
        mod._consttie_applied = True
    return mod
