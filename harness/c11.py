"""C11 — the molecular hash is a canonical identity for the molecule.

generator -> real qcelemental (in process) -> same molecules as lines to the Lean driver -> diff
(canonical fields, the concatenated json preimage, sha1(preimage) == get_hash()),
plus an independent Python oracle: on every pair of molecules of a group
    hash equal  <=>  == True  <=>  the listed fields agree after the documented rounding.
"""
from __future__ import annotations

import contextlib
import copy
import hashlib
import io
import json
import math
import os
import random
import tempfile
import warnings
from decimal import Decimal
from fractions import Fraction

import numpy as np

from common import Ctx, Finding, Outcome, err_class

PROPERTY = "C11"
LEAN_TARGETS = ["QcelVerif.Props.C11", "QcelVerif.Props.C11Preimage", "QcelVerif.Props.C11Examples", "QcelVerif.Driver.C11"]
DRIVER = "QcelVerif/Driver/C11.lean"
THEOREMS = [
    ("QcelVerif.Hash.hash_of_canon", "canon a = canon b -> hash a = hash b (and == holds), for any printing / SHA-1 parameters"),
    ("QcelVerif.Hash.hash_indep_nonhash", "changing name, comment, labels, identifiers, provenance, extras, frame flags, id never changes the hash"),
    ("QcelVerif.Hash.hash_sign_of_zero", "replacing -0.0 by +0.0 (or back) in geometry, masses, charge, fragment charges never changes the hash"),
    ("QcelVerif.Hash.prepArr_small_zero", "an array entry with |x|*10^k < 1/2 (geometry: |x| < 5e-9) is hashed as +0.0 whatever its sign"),
    ("QcelVerif.Hash.round_stable", "|d|*10^k <= 1/100 (geometry: |d| <= 1e-10) and x*10^k within 0.49 of an integer: x+d and x are rounded and hashed alike"),
    ("QcelVerif.Hash.hash_noise", "whole geometries that differ entrywise by such noise away from rounding boundaries have the same hash"),
    ("QcelVerif.Hash.prep_idempotent", "re-rounding a stored (pre-rounded) coordinate gives the same canonical value: construction-time float_prep never changes the hash"),
    ("QcelVerif.Hash.construct_hash", "hash (construct m) = hash {m with bonds canonicalised}: geometry pre-rounding at construction is invisible to the hash"),
    ("QcelVerif.Hash.sortBy_sorted_perm", "the model's sort returns a sorted permutation of its input; on a total antisymmetric order that output is unique (sortBy_unique)"),
    ("QcelVerif.Hash.sortBy_unique", "any sorted permutation of l equals sortBy l (total, transitive, antisymmetric order): the choice of sorting algorithm is immaterial"),
    ("QcelVerif.Hash.bonds_order_free", "bond lists that are permutations of each other up to orientation (a,b)/(b,a) are stored identically (full lexicographic sort)"),
    ("QcelVerif.Hash.bonds_permuted_reversed", "literally: reverse any subset of the bonds and permute the list -> same stored connectivity"),
    ("QcelVerif.Hash.prepBonds_eq_iff", "stored bond lists are equal exactly when the oriented bonds agree as multisets"),
    ("QcelVerif.Hash.bonds_first_atom_sort_not_order_free", "counter-example: sorting by the first atom only (the code before the fix) is not order-free"),
    ("QcelVerif.Hash.preimage_injective", "charge-tied canonical data with letter-only symbols: equal json preimages -> equal canonical data (printing assumed injective with the stated alphabet)"),
    ("QcelVerif.Hash.preimage_collision_unvalidated", "without the charge tie the preimage is not injective: (0.0, 11) and (0.01, 1) print the same adjacent scalars"),
    ("QcelVerif.Hash.canon_eq_iff_fields_agree", "no rounded array entry in (0, 5^-(k+1)): canon a = canon b <-> all ten listed fields agree after rounding to 8/6/4 decimals"),
    ("QcelVerif.Hash.zero_band_counterexample", "fragment charges [2e-4,-2e-4] and [3e-4,-3e-4] (and coordinates 1e-7 / 3e-7) have equal canon although they differ after rounding: the excluded band is necessary"),
    ("QcelVerif.Hash.hash_eq_iff_fields_agree", "validated, out of the zero band, injective SHA-1 and printing: hash a = hash b <-> the listed fields agree after rounding"),
    ("QcelVerif.Hash.round_separates", "|x - y| * 10^k > 1 -> x and y round to different k-decimal values"),
    ("QcelVerif.Hash.single_edit_changes_canon", "one coordinate moved by more than 1e-8 (outside the zero band) changes canon, hence the preimage and the hash"),
    ("QcelVerif.Hash.discrete_edit_changes_canon", "a changed symbol list, multiplicity, real flags, fragments, fragment multiplicities or stored bond list changes canon"),
]
TRUSTED_BASE = [
    "Lean 4.33 kernel; axioms per theorem audited on every run (subset of propext, Classical.choice, Quot.sound)",
    "hand-written model Model/Hash.lean of float_prep, the property accessors' defaults, get_hash's field loop + json.dumps layout, __eq__, construction-time geometry rounding and the bond canonicalisation of from_arrays; tied by differential correspondence (canonical fields, the whole json preimage, sha1(preimage) == get_hash())",
    "SHA-1 is an abstract parameter of the theorems (collision-freeness is an explicit hypothesis, never proved); the harness applies hashlib.sha1 to the model's preimage",
    "CPython repr(float) / json.dumps float printing is an abstract parameter of the theorems (hypothesis Params.Ok: injective on canonical values, output over 0-9 + - . e, non-empty); the driver's concrete printer (shortest repr of a <=15-digit decimal) is checked character by character on every generated value",
    "np.around is modelled as rint(fl(x*10^k)) with fl = rounding of the product to a double, a parameter of the theorems (hypothesis FlOk: |fl y - y| <= 1/256 for |y| <= 2^45, i.e. IEEE round-to-nearest); the driver instantiates fl by an executable round-to-nearest-even to 53 bits (normal range), compared with numpy on arbitrary doubles including decimal near-ties (default masses such as 207.9766525 sit on them). Python round() (scalar branch) is exact (fl = id)",
    "default masses (periodictable.to_mass, property C01) are handed to the model by the harness",
    "everything else the constructor does (validation, charge/multiplicity completion, text parsing, serialisation) is C04/C05/C07/C10's subject: here it is exercised through the oracle only",
    "harness/c11.py generators and the Python oracle (independent rounding with fractions.Fraction, half-even)",
]
ASSUMPTIONS = [
    "validated molecules with integer charges/multiplicities, contiguous fragments, finite coordinates |x| < 1e5 bohr (printing of <=15 significant digits), element symbols made of letters",
    "bond orders strictly positive multiples of 1/8 in the model stream (exactly printable); bond order -0.0 vs 0.0 prints differently (bond orders are not float_prep'ed) - outside the quantifier, not generated",
    "text routes (psi4 text, .psimol/.psi4/.xyz/.npy files) only for molecules those formats can carry: default masses, no atom labels; bonds are re-attached through a re-validated dict; .xyz/.npy additionally single-fragment neutral all-real molecules",
    "the mixed route Molecule.from_data(text, connectivity=...) (structural kwargs merged after validation; bonds stored un-canonicalised) is outside the property's construction routes: not generated, no demand",
    "noise twins: coordinates at least 0.05 rounding units from a rounding boundary, noise <= 1e-10 (the property's quantifier)",
    "the theorem preimage_injective needs the charge tie (charge = sum of fragment charges, exact for the integer charges in scope); fractional fragment charges are generated only for the zero-band known finding",
]
RULE = (
    "groups: one random validated base molecule (1-8 atoms on a jittered lattice, coordinates = decimals with 10 fractional digits whose sub-1e-8 part keeps "
    "away from rounding boundaries, ~12% exact zeros and ~12% tiny |x|<6e-7 entries, ghosts, explicit masses, 1-3 fragments, charges, bonds given in random "
    "order/orientation with rare duplicate pairs, non-hash fields) x construction routes (kwargs, dict, from_data(dict), re-validated dict, 4 encodings, psi4 text "
    "Bohr/Angstrom, .json/.msgpack/.psimol/.psi4/.xyz/.npy files) x must-be-equal twins (noise<=1e-10, +-0 and |x|<=4.4e-9 substitutions incl. charges, "
    "shuffled+flipped bonds, edited non-hash fields) x must-differ single edits (coordinate +-1e-6, symbol, mass, charge, multiplicity, ghost flag, fragment "
    "boundary, bond order/add/remove); every pair inside a group is judged by the pairwise iff. Plus unvalidated molecules with raw float fields (band, -0.0, "
    "fractional charges) and float_prep value streams (array: ties odd/2^(k+1), band edges, re-fed rounded doubles; scalar: arbitrary doubles incl. near-ties) for "
    "the model tie. A case is distinct by (clause, hash pair) and non-trivial when it is a pair of different constructions/inputs."
)
LEVEL_TEXT = (
    "Lean proofs for all molecules (no size bound) about a hand model of get_hash/float_prep/bond sorting, with SHA-1 and float printing as explicit injectivity "
    "hypotheses (partial); the model is tied to the code by differential runs comparing canonical fields and the complete json preimage; construction routes are "
    "oracle-only."
)
TECHNIQUE = "Lean 4 proof of canonical-form / injectivity / sorting theorems about a hand model + behavioural correspondence + independent pairwise oracle"

KNOISE = {"masses": 6, "geometry": 8, "fragment_charges": 4}
ZERO_BAND_KIND = "oracle:zero_band_collision"


def quiet():
    return contextlib.redirect_stdout(io.StringIO())


# --------------------------------------------------------------------------------------
# protocol encoding


def dstr(x) -> str:
    x = float(x)
    if x == 0.0:
        return "nz" if math.copysign(1.0, x) < 0 else "0"
    fr = Fraction(x)
    return str(fr.numerator) if fr.denominator == 1 else f"{fr.numerator}/{fr.denominator}"


def qstr(fr: Fraction) -> str:
    return str(fr.numerator) if fr.denominator == 1 else f"{fr.numerator}/{fr.denominator}"


def rd_str(d, k) -> str:
    """a double that should be a k-decimal value -> signed scaled integer (the model's `Rd`)"""
    d = float(d)
    if d != d or d in (float("inf"), float("-inf")):
        return "?" + repr(d)
    sign = "-" if math.copysign(1.0, d) < 0 else "+"
    n = abs(round(Fraction(d) * 10**k))
    if n / 10**k != abs(d):  # int/int true division is correctly rounded
        return "?" + repr(d)
    return sign + str(n)


def bonds_str(conn) -> str:
    if conn is None:
        return "N"
    if len(conn) == 0:
        return "E"
    return ";".join(f"{int(a)},{int(b)},{qstr(Fraction(float(o)))}" for a, b, o in conn)


def frags_str(fr) -> str:
    if len(fr) == 0:
        return "E"
    return ";".join(",".join(str(int(i)) for i in f) for f in fr)


def enc_hash_line(mol) -> str:
    import qcelemental as qcel

    d = mol.__dict__
    syms = [str(s) for s in mol.symbols]

    def opt(v, f):
        return "N" if v is None else f(v)

    table = []
    for s in sorted(set(syms)):
        try:
            table.append(f"{s}={dstr(qcel.periodictable.to_mass(s))}")
        except Exception:
            pass
    return "|".join(
        [
            "hash",
            ",".join(syms),
            opt(d.get("masses_"), lambda v: " ".join(dstr(x) for x in np.asarray(v).ravel())),
            dstr(mol.molecular_charge),
            str(int(mol.molecular_multiplicity)),
            opt(d.get("real_"), lambda v: ",".join("1" if bool(x) else "0" for x in np.asarray(v).ravel())),
            " ".join(dstr(x) for x in np.asarray(mol.geometry).ravel()),
            opt(d.get("fragments_"), frags_str),
            opt(d.get("fragment_charges_"), lambda v: " ".join(dstr(x) for x in v)),
            opt(d.get("fragment_multiplicities_"), lambda v: ",".join(str(int(x)) for x in v)),
            bonds_str(d.get("connectivity_")),
            ",".join(table),
        ]
    )


def impl_record(mol):
    """canonical fields + preimage recomputed exactly as get_hash does (molecule.py:799-816)."""
    from qcelemental.models.molecule import float_prep

    def prepped(field):
        v = getattr(mol, field)
        if field == "geometry":
            v = float_prep(v, 8)
        elif field == "fragment_charges":
            v = float_prep(v, 4)
        elif field == "molecular_charge":
            v = float_prep(v, 4)
        elif field == "masses":
            v = float_prep(v, 6)
        return v

    # the preimage, field list as the implementation has it
    concat = ""
    for field in mol.hash_fields:
        concat += json.dumps(prepped(field), default=lambda x: x.ravel().tolist())
    # the canonical data of the ten fields the property lists (whatever hash_fields says)
    data = {field: prepped(field) for field in FIELD_NAMES}
    canon = "|".join(
        [
            ",".join(str(s) for s in data["symbols"]),
            " ".join(rd_str(x, 6) for x in np.asarray(data["masses"]).ravel()),
            rd_str(data["molecular_charge"], 4),
            str(int(data["molecular_multiplicity"])),
            ",".join("1" if bool(x) else "0" for x in np.asarray(data["real"]).ravel()),
            " ".join(rd_str(x, 8) for x in np.asarray(data["geometry"]).ravel()),
            frags_str(data["fragments"]),
            " ".join(rd_str(x, 4) for x in np.asarray(data["fragment_charges"]).ravel()),
            ",".join(str(int(x)) for x in data["fragment_multiplicities"]),
            bonds_str(data["connectivity"]),
        ]
    )
    return canon, concat


# --------------------------------------------------------------------------------------
# the independent statement of "agree after the documented rounding"


def rhe(x, k):
    """the documented rounding, exact (round(Fraction) is round-half-even). A value within 1e-3 units of a tie is outside
    the property's quantifier ('not near a rounding boundary'): it is kept as the double itself, so that it only ever
    agrees with the identical double."""
    y = Fraction(float(x)) * 10**k
    n = round(y)
    if abs(abs(y - n) - Fraction(1, 2)) < Fraction(1, 1000):
        return ("near-tie", float(x))
    return n


def rounded_tuple(mol, input_geometry=None):
    """`input_geometry`: for a molecule built from keyword arguments the identity is that of the coordinates handed in
    (the constructor stores them already rounded AND zero-flipped)."""
    conn = mol.connectivity
    geom = np.asarray(mol.geometry).ravel() if input_geometry is None else input_geometry
    bonds = None if conn is None else tuple(sorted((min(int(a), int(b)), max(int(a), int(b)), Fraction(float(o))) for a, b, o in conn))
    return (
        tuple(str(s) for s in mol.symbols),
        tuple(rhe(x, 6) for x in np.asarray(mol.masses).ravel()),
        rhe(mol.molecular_charge, 4),
        int(mol.molecular_multiplicity),
        tuple(bool(x) for x in np.asarray(mol.real).ravel()),
        tuple(rhe(x, 8) for x in geom),
        tuple(tuple(int(i) for i in f) for f in mol.fragments),
        tuple(rhe(x, 4) for x in mol.fragment_charges),
        tuple(int(x) for x in mol.fragment_multiplicities),
        bonds,
    )


FIELD_NAMES = ["symbols", "masses", "molecular_charge", "molecular_multiplicity", "real", "geometry", "fragments", "fragment_charges", "fragment_multiplicities", "connectivity"]


def tuple_diff(ta, tb):
    """[(field, index, va, vb)] of differing entries; index None when the shapes differ."""
    out = []
    for name, a, b in zip(FIELD_NAMES, ta, tb):
        if a == b:
            continue
        if isinstance(a, tuple) and isinstance(b, tuple) and len(a) == len(b) and name in KNOISE:
            for i, (x, y) in enumerate(zip(a, b)):
                if x != y:
                    out.append([name, i, x, y])
        else:
            out.append([name, None, str(a)[:80], str(b)[:80]])
    return out


def in_zero_band(n, k) -> bool:
    return abs(n) * 5 ** (k + 1) < 10**k


def is_zero_band_diff(diff) -> bool:
    """only list-valued rounded fields differ and, at every differing entry, both rounded magnitudes are below 5**-(k+1)."""
    if not diff:
        return False
    for name, idx, x, y in diff:
        if name not in KNOISE or idx is None:
            return False
        k = KNOISE[name]
        if not (isinstance(x, int) and isinstance(y, int) and in_zero_band(x, k) and in_zero_band(y, k)):
            return False
    return True


def known_predicate(finding: Finding, entry) -> bool:
    if finding.kind != ZERO_BAND_KIND:
        return False
    obs = finding.observed if isinstance(finding.observed, dict) else {}
    return is_zero_band_diff(obs.get("differing"))


# --------------------------------------------------------------------------------------
# generator: specs (JSON-able) -> kwargs -> Molecule

ELEMS_LIGHT = ["H", "H", "H", "He", "Li", "Be", "B", "C", "C", "C", "N", "N", "O", "O", "F", "Ne", "Na", "Mg", "Al", "Si", "P", "S", "Cl", "Ar"]
ELEMS_HEAVY = ["K", "Ca", "Ti", "Fe", "Cu", "Zn", "Br", "Kr", "Rb", "Zr", "Ag", "I", "Xe", "Cs", "W", "Au", "Hg", "Pb", "Rn", "U"]
SAFE_SUB = [d for d in range(100) if d <= 44 or d >= 56]
ORDERS8 = [4, 8, 8, 8, 12, 16, 16, 20, 24, 10, 6, 32, 40, 1]


def coord_of(v: int) -> float:
    """v counts 1e-10 bohr; the decimal is converted with correct rounding"""
    return float(Decimal(v).scaleb(-10))


def mass_of(v: int) -> float:
    return float(Decimal(v).scaleb(-8))


def gen_spec(rng: random.Random):
    nat = rng.choice([1, 2, 2, 3, 3, 3, 4, 4, 5, 6, 8])
    sites = [(i, j, k) for i in range(-2, 3) for j in range(-2, 3) for k in range(-1, 2)]
    rng.shuffle(sites)
    symbols, v = [], []
    for a in range(nat):
        symbols.append(rng.choice(ELEMS_LIGHT) if rng.random() < 0.75 else rng.choice(ELEMS_HEAVY))
        for g in sites[a]:
            r = rng.random()
            if r < 0.12:
                units = 0  # exactly on the lattice (exact zeros when g == 0)
                sub = 0
            elif r < 0.24:
                units = rng.randint(-60, 60)  # tiny offsets: the neighbourhood of the zero band when g == 0
                sub = rng.choice(SAFE_SUB)
            else:
                units = rng.randint(-30000000, 30000000)
                sub = rng.choice(SAFE_SUB) if rng.random() < 0.8 else 0
            v.append(g * 2 * 10**10 + units * 100 + (sub if units >= 0 else -sub))
    spec = {"symbols": symbols, "v": v, "noise": None, "over": {}}
    spec["real"] = [rng.random() > 0.2 for _ in range(nat)] if rng.random() < 0.35 else None
    spec["masses_delta_v"] = None
    if rng.random() < 0.3:
        # explicit masses: default mass (rounded to 1e-6) + a clearly non-default offset, sub-1e-6 digits away from boundaries
        spec["masses_delta_v"] = [rng.choice([-1, 1]) * (rng.randint(1, 50) * 10**6 + rng.randint(0, 999999) * 100 + rng.choice(SAFE_SUB)) for _ in range(nat)]
    # fragments: contiguous split
    spec["fragments"] = None
    if nat >= 2 and rng.random() < 0.5:
        ncut = rng.choice([1, 1, 2]) if nat >= 3 else 1
        cuts = sorted(rng.sample(range(1, nat), ncut))
        bounds = [0] + cuts + [nat]
        spec["fragments"] = [list(range(bounds[i], bounds[i + 1])) for i in range(len(bounds) - 1)]
    nfr = len(spec["fragments"]) if spec["fragments"] else 1
    spec["molecular_charge"] = rng.choice([None, None, None, 0, 1, -1, 2])
    spec["molecular_multiplicity"] = rng.choice([None, None, None, 1, 2, 3])
    spec["fragment_charges"] = [rng.choice([None, 0, 0, 1, -1]) for _ in range(nfr)] if (spec["fragments"] and rng.random() < 0.4) else None
    spec["fragment_multiplicities"] = None
    spec["connectivity"] = None
    if nat >= 2 and rng.random() < 0.55:
        nb = rng.randint(1, min(6, nat * (nat - 1) // 2 + 1))
        bonds = []
        for _ in range(nb):
            a, b = rng.sample(range(nat), 2)
            bonds.append([a, b, rng.choice(ORDERS8)])
        if rng.random() < 0.25:  # the same pair twice (either orientation), another order
            a, b, o = rng.choice(bonds)
            bonds.append([b, a, rng.choice([x for x in ORDERS8 if x != o])])
        spec["connectivity"] = bonds
    spec["nonhash"] = gen_nonhash(rng, nat)
    return spec


def gen_nonhash(rng, nat):
    nh = {}
    if rng.random() < 0.5:
        nh["name"] = rng.choice(["water", "mol-%d" % rng.randint(0, 99), "x y", ""])
    if rng.random() < 0.3:
        nh["comment"] = rng.choice(["generated", "a comment with [brackets], \"quotes\"", "0.01"])
    if rng.random() < 0.3:
        nh["extras"] = {"k": rng.randint(0, 9), "l": [1, 2.5]}
    if rng.random() < 0.25:
        nh["identifiers"] = {"smiles": rng.choice(["O", "C#N", "[H][H]"])}
    if rng.random() < 0.2:
        nh["provenance"] = {"creator": "c11", "version": "1.%d" % rng.randint(0, 9), "routine": "gen"}
    if rng.random() < 0.2:
        nh["atom_labels"] = [rng.choice(["", "a", "b1", "_x", "7"]) for _ in range(nat)]
    nh["fix_com"] = rng.random() < 0.5
    nh["fix_orientation"] = rng.random() < 0.5
    if rng.random() < 0.15:
        nh["fix_symmetry"] = rng.choice(["c1", "c2v"])
    return nh


def geometry_of(spec):
    g = [coord_of(x) for x in spec["v"]]
    if spec.get("noise"):
        g = [x + d for x, d in zip(g, spec["noise"])]
    for k, val in (spec.get("over") or {}).items():
        g[int(k)] = float(val)
    return g


def default_mass6(sym) -> int:
    import qcelemental as qcel

    return round(Fraction(float(qcel.periodictable.to_mass(sym))) * 10**6)


def masses_of(spec):
    if spec.get("masses_delta_v") is None:
        return None
    return [mass_of(default_mass6(s) * 100 + d) for s, d in zip(spec["symbols"], spec["masses_delta_v"])]


def kwargs_of(spec):
    kw = {"symbols": list(spec["symbols"]), "geometry": geometry_of(spec)}
    if spec.get("real") is not None:
        kw["real"] = list(spec["real"])
    m = masses_of(spec)
    if m is not None:
        kw["masses"] = m
    for key in ("fragments", "molecular_charge", "molecular_multiplicity", "fragment_charges", "fragment_multiplicities"):
        if spec.get(key) is not None:
            kw[key] = copy.deepcopy(spec[key])
    if spec.get("connectivity") is not None:
        kw["connectivity"] = [(a, b, o / 8.0) for a, b, o in spec["connectivity"]]
    kw.update(copy.deepcopy(spec.get("nonhash") or {}))
    return kw


def build(spec):
    from qcelemental.models import Molecule

    with quiet(), warnings.catch_warnings():
        warnings.simplefilter("ignore")
        return Molecule(**kwargs_of(spec))


def relax_chgmult(spec):
    s = copy.deepcopy(spec)
    for key in ("molecular_charge", "molecular_multiplicity", "fragment_charges", "fragment_multiplicities"):
        s[key] = None
    return s


def pin_chgmult(spec, mol):
    """the completed charges/multiplicities become part of the spec (so that twins state them explicitly)"""
    s = copy.deepcopy(spec)
    s["molecular_charge"] = float(mol.molecular_charge)
    s["molecular_multiplicity"] = int(mol.molecular_multiplicity)
    if s.get("fragments"):
        s["fragment_charges"] = [float(x) for x in mol.fragment_charges]
        s["fragment_multiplicities"] = [int(x) for x in mol.fragment_multiplicities]
    else:
        s["fragment_charges"] = None
        s["fragment_multiplicities"] = None
    return s


# ---- must-be-equal twins ------------------------------------------------------------------


def twin_noise(rng, spec):
    s = copy.deepcopy(spec)
    s["noise"] = [rng.uniform(-1e-10, 1e-10) for _ in spec["v"]]
    return s


def zero_like_indices(spec):
    return [i for i, x in enumerate(spec["v"]) if abs(x) <= 44]


def twin_signzero(rng, spec):
    idx = zero_like_indices(spec)
    s = copy.deepcopy(spec)
    changed = False
    for i in idx:
        s["over"][str(i)] = rng.choice([0.0, -0.0, -0.0, 1e-9, -1e-9, 3e-9, -3e-9, 4.4e-9, -4.4e-9, -1e-12, 5e-324, -5e-324])
        changed = True
    if s.get("molecular_charge") == 0 and rng.random() < 0.7:
        s["molecular_charge"] = -0.0
        changed = True
    if s.get("fragment_charges"):
        fc = [(-0.0 if (x == 0 and rng.random() < 0.7) else x) for x in s["fragment_charges"]]
        if any(math.copysign(1.0, x) < 0 and x == 0 for x in fc if x is not None):
            changed = True
        s["fragment_charges"] = fc
    return s if changed else None


def twin_bonds(rng, spec):
    if not spec.get("connectivity"):
        return None
    s = copy.deepcopy(spec)
    b = [list(x) for x in s["connectivity"]]
    for _ in range(4):
        rng.shuffle(b)
        b = [[y, x, o] if rng.random() < 0.5 else [x, y, o] for x, y, o in b]
        if b != spec["connectivity"]:
            break
    if rng.random() < 0.3:
        b = list(reversed([list(x) for x in spec["connectivity"]]))
    s["connectivity"] = b
    return s


def twin_nonhash(rng, spec):
    s = copy.deepcopy(spec)
    nat = len(spec["symbols"])
    for _ in range(5):
        s["nonhash"] = gen_nonhash(rng, nat)
        if rng.random() < 0.5:
            s["nonhash"]["name"] = "renamed-%d" % rng.randint(0, 999)
        if s["nonhash"] != spec["nonhash"]:
            return s
    return s


# ---- must-differ single edits ---------------------------------------------------------------


def neighbours_same_parity(sym):
    import qcelemental as qcel

    z = int(qcel.periodictable.to_Z(sym))
    out = []
    for dz in (2, -2, 4, -4, 8):
        if 1 <= z + dz <= 86:
            out.append(qcel.periodictable.to_E(z + dz))
    return out


def edits(rng, spec, mol):
    """yield (label, spec') — each is the pinned base spec with ONE listed field changed above its rounding unit."""
    nat = len(spec["symbols"])
    # coordinate +-1e-6
    for _ in range(2):
        s = copy.deepcopy(spec)
        i = rng.randrange(len(s["v"]))
        s["v"][i] += rng.choice([-10000, 10000])
        s["over"].pop(str(i), None)
        yield "edit:coordinate", s
    # a coordinate inside the zero band's neighbourhood, if there is one: -5e-7 <-> +5e-7 is an edit of 1e-6
    tiny = [i for i, x in enumerate(spec["v"]) if abs(x) <= 6100 and str(i) not in spec["over"]]
    if tiny:
        s = copy.deepcopy(spec)
        i = rng.choice(tiny)
        s["v"][i] += 10000 if s["v"][i] <= 0 else -10000
        yield "edit:coordinate_tiny", s
    # symbol
    s = copy.deepcopy(spec)
    i = rng.randrange(nat)
    nb = neighbours_same_parity(s["symbols"][i])
    if nb:
        s["symbols"][i] = rng.choice(nb)
        yield "edit:symbol", s
    # mass: all masses explicit, one moved by > 1e-6 (far enough not to be taken for the default)
    s = copy.deepcopy(spec)
    i = rng.randrange(nat)
    if s.get("masses_delta_v") is None:
        s["masses_delta_v"] = [0] * nat
        s["masses_delta_v"][i] = rng.choice([-1, 1]) * rng.randint(5, 40) * 10**6
    else:
        s["masses_delta_v"][i] += rng.choice([-1, 1]) * rng.choice([200, 300, 1000, 10**5, 10**7])
    yield "edit:mass", s
    # charge (the fragment charges follow: re-completed by validation)
    for dc in rng.sample([2, -2, 1, -1], 2):
        s = relax_chgmult(spec)
        s["molecular_charge"] = float(mol.molecular_charge) + dc
        yield "edit:charge", s
    # multiplicity
    s = relax_chgmult(spec)
    s["molecular_charge"] = float(mol.molecular_charge)
    s["molecular_multiplicity"] = int(mol.molecular_multiplicity) + 2
    yield "edit:multiplicity", s
    # ghost flag
    s = relax_chgmult(spec)
    real = [bool(x) for x in mol.real]
    i = rng.randrange(nat)
    real[i] = not real[i]
    s["real"] = real
    yield "edit:ghost", s
    # fragment boundary
    if nat >= 2:
        s = relax_chgmult(spec)
        if not s.get("fragments"):
            c = rng.randrange(1, nat)
            s["fragments"] = [list(range(0, c)), list(range(c, nat))]
        else:
            bounds = [f[0] for f in s["fragments"]][1:]
            j = rng.randrange(len(bounds))
            cand = [b for b in (bounds[j] - 1, bounds[j] + 1) if 0 < b < nat and b not in bounds]
            if cand:
                bounds[j] = rng.choice(cand)
            else:
                bounds.pop(j)
            bounds = [0] + sorted(bounds) + [nat]
            fr = [list(range(bounds[k], bounds[k + 1])) for k in range(len(bounds) - 1)]
            s["fragments"] = fr if len(fr) > 1 else None
        yield "edit:fragment_boundary", s
    # bonds
    if nat >= 2:
        s = copy.deepcopy(spec)
        if not s.get("connectivity"):
            a, b = rng.sample(range(nat), 2)
            s["connectivity"] = [[a, b, rng.choice(ORDERS8)]]
            yield "edit:bond_added", s
        else:
            j = rng.randrange(len(s["connectivity"]))
            o = s["connectivity"][j][2]
            s["connectivity"][j][2] = o + 4 if o + 4 <= 40 else o - 4
            yield "edit:bond_order", s
            if len(spec["connectivity"]) > 1:
                s2 = copy.deepcopy(spec)
                s2["connectivity"].pop(rng.randrange(len(s2["connectivity"])))
                yield "edit:bond_removed", s2
            s3 = copy.deepcopy(spec)
            j = rng.randrange(len(s3["connectivity"]))
            a, b, o = s3["connectivity"][j]
            others = [x for x in range(nat) if x not in (a, b)]
            if others:
                s3["connectivity"][j] = [a, rng.choice(others), o]
                yield "edit:bond_atom", s3


# ---- construction routes ----------------------------------------------------------------------

ENCODINGS = ["json", "json-ext", "msgpack", "msgpack-ext"]
ROUTES_ALWAYS = ["dict", "from_data_dict", "revalidate"] + ["enc:" + e for e in ENCODINGS] + ["file:.json", "file:.msgpack"]
ROUTES_TEXT = ["text:psi4:Bohr", "text:psi4:Angstrom", "file:.psimol", "file:.psi4"]
ROUTES_PLAIN = ["file:.xyz", "file:.npy", "text:xyz:Angstrom"]


def text_ok(mol) -> bool:
    d = mol.__dict__
    return d.get("masses_") is None and d.get("atom_labels_") is None


def plain_ok(mol) -> bool:
    d = mol.__dict__
    return (
        text_ok(mol)
        and d.get("real_") is None
        and d.get("fragments_") is None
        and float(mol.molecular_charge) == 0.0
        and d.get("connectivity_") is None
        and int(mol.molecular_multiplicity) == default_multiplicity(mol)
    )


def default_multiplicity(mol) -> int:
    import qcelemental as qcel

    z = sum(int(qcel.periodictable.to_Z(str(s))) for s in mol.symbols)
    return 1 + z % 2


def via_route(route, mol, workdir, rng=None):
    """re-create `mol` through a storage/transport route; molecules with bonds go through text by re-attaching the bonds to a re-validated dict"""
    from qcelemental.models import Molecule

    with quiet(), warnings.catch_warnings():
        warnings.simplefilter("ignore")
        if route == "dict":
            return Molecule(**mol.dict())
        if route == "from_data_dict":
            return Molecule.from_data(mol.dict())
        if route == "revalidate":
            d = mol.dict()
            d.pop("validated", None)
            return Molecule(**d)
        if route.startswith("enc:"):
            e = route[4:]
            return Molecule.parse_raw(mol.serialize(e), encoding=e)
        conn = mol.__dict__.get("connectivity_")
        bare = mol
        if conn is not None and (route.startswith("text:") or route in ("file:.psimol", "file:.psi4")):
            d = mol.dict()
            d.pop("connectivity", None)
            bare = Molecule(**d)
        if route.startswith("text:"):
            _, dt, un = route.split(":")
            got = Molecule.from_data(bare.to_string(dt, units=un), dtype=dt)
        elif route.startswith("file:"):
            ext = route[5:]
            p = os.path.join(workdir, "m" + ext)
            bare.to_file(p)
            got = Molecule.from_file(p)
        else:
            raise KeyError(route)
        if bare is not mol:
            d = got.dict()
            d.pop("validated", None)
            bl = [tuple(x) for x in conn]
            if rng is not None:
                rng.shuffle(bl)
                bl = [(b, a, o) if rng.random() < 0.5 else (a, b, o) for a, b, o in bl]
            d["connectivity"] = bl
            got = Molecule(**d)
        return got


# --------------------------------------------------------------------------------------
# group evaluation


class Member:
    __slots__ = ("label", "spec", "route", "mol", "hash", "rt", "rt_in", "expect")

    def __init__(self, label, spec, route, mol, expect):
        self.label, self.spec, self.route, self.mol, self.expect = label, spec, route, mol, expect
        self.hash = mol.get_hash()
        ig = None
        if route == "kwargs" and isinstance(spec, dict) and "v" in spec:
            ig = geometry_of(spec)
        elif route == "kwargs-literal" and isinstance(spec.get("kwargs"), dict):
            ig = [float(x) for x in spec["kwargs"]["geometry"]]
        self.rt = rounded_tuple(mol)  # the stored attributes
        self.rt_in = rounded_tuple(mol, ig) if ig is not None else None  # identity of what was handed to the constructor


CLAUSE_KIND = {
    "route": "oracle:route_changes_hash",
    "noise": "oracle:noise_changes_hash",
    "signzero": "oracle:sign_of_zero_changes_hash",
    "bonds": "oracle:bond_listing_changes_hash",
    "nonhash": "oracle:nonhash_field_changes_hash",
}


def case_of(base: Member, other: Member, seed_note=None):
    c = {"block": "pair", "a": {"spec": base.spec, "route": base.route}, "b": {"spec": other.spec, "route": other.route}, "clause": other.label}
    if seed_note is not None:
        c["note"] = seed_note
    return c


def judge_pair(out: Outcome, a: Member, b: Member, clause: str, expect: str | None, inputs=False):
    """the pairwise iff, plus the clause's own expectation (same / None = whatever the fields say).
    inputs=True: both were built from keyword arguments; their identity is that of the coordinates handed in."""
    heq = a.hash == b.hash
    use_in = inputs and a.rt_in is not None and b.rt_in is not None
    ta, tb = (a.rt_in, b.rt_in) if use_in else (a.rt, b.rt)
    teq = ta == tb
    try:
        with quiet(), warnings.catch_warnings():
            warnings.simplefilter("ignore")
            eq = bool(a.mol == b.mol)
            eqd = bool(a.mol == b.mol.dict())
    except Exception as e:  # noqa
        out.violations.append(Finding("oracle:eq_raises", case_of(a, b), observed=err_class(e), detail="== raised on two molecules"))
        eq = eqd = heq
    if eq != heq or eqd != heq:
        out.violations.append(Finding("oracle:eq_vs_hash", case_of(a, b), observed={"eq": eq, "eq_dict": eqd, "hash_equal": heq}, detail="== disagrees with hash equality"))
    if expect == "same" and not heq:
        fam = clause.split(":")[0]
        out.violations.append(
            Finding(CLAUSE_KIND.get(fam, "oracle:not_canonical"), case_of(a, b), observed={"hash_a": a.hash, "hash_b": b.hash, "differing": tuple_diff(ta, tb)},
                    expected="equal hashes", detail=f"{clause}: molecules that must be identical hash differently")
        )
        return
    if teq and not heq:
        out.violations.append(
            Finding("oracle:not_canonical", case_of(a, b), observed={"hash_a": a.hash, "hash_b": b.hash}, expected="equal hashes",
                    detail=f"{clause}: all listed fields agree after rounding but the hashes differ")
        )
    if heq and not teq:
        diff = tuple_diff(ta, tb)
        if is_zero_band_diff(diff):
            out.count("zero_band_collision_pairs")
            out.violations.append(
                Finding(ZERO_BAND_KIND, case_of(a, b), observed={"hash": a.hash, "differing": diff}, expected="different hashes",
                        detail="entries differ by more than the rounding unit but both lie below 5**-(k+1) and are zeroed by float_prep")
            )
        else:
            out.violations.append(
                Finding("oracle:edit_keeps_hash", case_of(a, b), observed={"hash": a.hash, "differing": diff}, expected="different hashes",
                        detail=f"{clause}: listed fields differ after rounding but the hashes are equal")
            )


def tie_lines_for(mem: Member, lines, checks):
    """queue the model lines for one molecule"""
    canon, pre = impl_record(mem.mol)
    lines.append(enc_hash_line(mem.mol))
    checks.append(("hash", mem, canon, pre))
    if mem.route == "kwargs":
        g = geometry_of(mem.spec)
        conn = mem.spec.get("connectivity")
        cs = "N" if conn is None else ";".join(f"{a},{b},{qstr(Fraction(o, 8))}" for a, b, o in conn)
        lines.append("cons|" + " ".join(dstr(x) for x in g) + "|" + cs)
        stored = " ".join(rd_str(x, 8) for x in np.asarray(mem.mol.geometry).ravel())
        checks.append(("cons", mem, stored + "|" + bonds_str(mem.mol.connectivity) + "|" + stored, None))


def compare_tie(out: Outcome, checks, model):
    for (kind, mem, exp, pre), ml in zip(checks, model):
        case = {"block": "single", "spec": mem.spec, "route": mem.route, "op": kind}
        if kind == "hash":
            if not ml.startswith("ok ") or "\t" not in ml:
                out.mismatches.append(Finding("mismatch:hash", case, observed=exp[:300], expected=ml[:300], detail="model rejected the molecule"))
                continue
            mc, mp = ml[3:].split("\t", 1)
            if mc != exp:
                out.mismatches.append(Finding("mismatch:canon", case, observed=exp[:600], expected=mc[:600], detail="canonical fields: implementation (float_prep on the attributes) vs Lean model"))
            elif mp != pre:
                out.mismatches.append(Finding("mismatch:preimage", case, observed=pre[:600], expected=mp[:600], detail="json preimage: implementation vs Lean model"))
            elif hashlib.sha1(mp.encode("utf-8")).hexdigest() != mem.hash:
                out.mismatches.append(Finding("mismatch:sha1", case, observed=mem.hash, expected=hashlib.sha1(mp.encode()).hexdigest(), detail="get_hash() is not sha1 of the model's preimage"))
            else:
                out.count("tie:hash_ok")
                if out.distribution.get("tie:hash_ok", 0) in (1, 400):
                    out.sample({"route": mem.route, "label": mem.label, "canon": mc[:300], "preimage": mp[:300], "get_hash": mem.hash})
        else:
            if ml != "ok " + exp:
                out.mismatches.append(Finding("mismatch:construct", case, observed=exp[:600], expected=ml[:600], detail="stored geometry / connectivity after construction vs Lean model (pre-rounding, bond canonicalisation)"))
            else:
                out.count("tie:construct_ok")


def run_group(ctx, out: Outcome, rng, spec0, workdir, lines, checks, tag="gen"):
    """one base molecule with all its twins, edits and routes"""
    try:
        base_mol = build(spec0)
    except Exception as e:  # noqa
        out.count("base_rejected:" + err_class(e))
        spec0 = relax_chgmult(spec0)
        try:
            base_mol = build(spec0)
        except Exception as e2:  # noqa
            out.count("base_rejected_twice:" + err_class(e2))
            return
    spec = pin_chgmult(spec0, base_mol)
    try:
        pinned_mol = build(spec)
    except Exception as e:  # noqa
        out.count("pinned_rejected:" + err_class(e))
        return
    base = Member("base", spec0, "kwargs", base_mol, None)
    members = [base]
    out.count("groups")
    out.count("natoms:%d" % len(spec["symbols"]))
    for feat, on in (("ghosts", spec.get("real") is not None and not all(spec["real"])), ("explicit_masses", spec.get("masses_delta_v") is not None),
                     ("fragments", bool(spec.get("fragments"))), ("bonds", bool(spec.get("connectivity"))), ("charged", float(base_mol.molecular_charge) != 0),
                     ("zero_coordinate", bool(zero_like_indices(spec))), ("tiny_coordinate", any(44 < abs(x) <= 6100 for x in spec["v"]))):
        if on:
            out.count("feature:" + feat)
    pinned = Member("pinned", spec, "kwargs", pinned_mol, "same")
    members.append(pinned)

    def add(label, s, expect, route="kwargs", mol=None):
        try:
            m = mol if mol is not None else build(s)
        except Exception as e:  # noqa
            out.count(f"rejected:{label}:{err_class(e)}")
            return None
        mem = Member(label, s, route, m, expect)
        members.append(mem)
        out.count("member:" + label.split("/")[0])
        return mem

    # twins
    for label, fn in (("noise", twin_noise), ("signzero", twin_signzero), ("bonds", twin_bonds), ("nonhash", twin_nonhash)):
        for _ in range(2 if label in ("noise", "bonds") else 1):
            s = fn(rng, spec)
            if s is not None:
                add(label, s, "same")
    # combined twin
    s = twin_noise(rng, spec)
    s = twin_bonds(rng, s) or s
    s = twin_nonhash(rng, s)
    add("noise+bonds+nonhash", s, "same")
    # routes (from the pinned molecule and from one twin)
    sources = [pinned]
    tw = [m for m in members if m.label in ("bonds", "noise+bonds+nonhash")]
    if tw:
        sources.append(rng.choice(tw))
    for src in sources:
        routes = list(ROUTES_ALWAYS)
        if text_ok(src.mol):
            routes += ROUTES_TEXT
            if plain_ok(src.mol):
                routes += ROUTES_PLAIN
        if src is not pinned:
            routes = rng.sample(routes, min(4, len(routes)))
        for r in routes:
            try:
                got = via_route(r, src.mol, workdir, rng=random.Random(rng.getrandbits(32)))
            except Exception as e:  # noqa  (parsers / writers are C07's and C10's subject)
                out.count(f"route_error:{r}:{err_class(e)}")
                continue
            mem = Member("route:" + r, src.spec, r, got, "same")
            members.append(mem)
            out.count("member:route:" + r)
    # edits
    for label, s in edits(rng, spec, pinned_mol):
        add(label, s, "diff")

    # ---- oracle
    for m in members[1:]:
        clause = m.label
        expect = m.expect
        if expect == "diff":
            if m.rt_in == pinned.rt_in:
                out.count("edit_without_effect:" + clause)
            expect = None  # the pairwise iff on the inputs decides (zero band -> its own kind)
        judge_pair(out, pinned if m is not pinned else base, m, clause, expect, inputs=True)
        out.evaluations += 1
        out.nontrivial((clause, pinned.hash[:12], m.hash[:12]))
    # all other pairs: the iff only
    others = members[2:]
    npairs = 0
    for i in range(len(others)):
        for j in range(i + 1, len(others)):
            a, b = others[i], others[j]
            if (a.hash == b.hash) != (a.rt == b.rt):
                judge_pair(out, a, b, a.label + " vs " + b.label, None)
            npairs += 1
    out.evaluations += npairs
    out.count("pairs_cross", npairs)
    for m in members:
        out.count("hash_equal_to_base" if m.hash == base.hash else "hash_differs_from_base")
    if len(out.samples) < 4:
        out.sample({"symbols": spec["symbols"], "hash": base.hash, "members": len(members), "distinct_hashes": len({m.hash for m in members})})
    # ---- tie
    for m in members:
        tie_lines_for(m, lines, checks)


# --------------------------------------------------------------------------------------
# fixed reproducers of the known zero-band defect (so that the KNOWN-FINDING line is printed on every run)


def zero_band_fixed(out: Outcome):
    from qcelemental.models import Molecule

    pairs = [
        ("fragment_charges 2e-4 vs 3e-4",
         dict(symbols=["He", "He"], geometry=[0, 0, 0, 0, 0, 3], fragments=[[0], [1]], fragment_charges=[2e-4, -2e-4]),
         dict(symbols=["He", "He"], geometry=[0, 0, 0, 0, 0, 3], fragments=[[0], [1]], fragment_charges=[3e-4, -3e-4])),
        ("coordinate 1e-7 vs 3e-7",
         dict(symbols=["He", "He"], geometry=[1e-7, 0, 0, 0, 0, 3]),
         dict(symbols=["He", "He"], geometry=[3e-7, 0, 0, 0, 0, 3])),
        ("coordinate -5e-7 vs +5e-7 (an edit of 1e-6)",
         dict(symbols=["He", "He"], geometry=[-5e-7, 0, 0, 0, 0, 3]),
         dict(symbols=["He", "He"], geometry=[5e-7, 0, 0, 0, 0, 3])),
    ]
    for note, ka, kb in pairs:
        with quiet():
            a, b = Molecule(**ka), Molecule(**kb)
        ma = Member("fixed", {"kwargs": ka}, "kwargs-literal", a, None)
        mb = Member("zero_band:" + note, {"kwargs": kb}, "kwargs-literal", b, None)
        judge_pair(out, ma, mb, mb.label, None, inputs=True)
        out.evaluations += 1
        out.nontrivial(("zero_band_fixed", note))
    # just outside the band the hash must separate
    with quiet():
        a = Molecule(symbols=["He", "He"], geometry=[5.2e-7, 0, 0, 0, 0, 3])
        b = Molecule(symbols=["He", "He"], geometry=[5.3e-7, 0, 0, 0, 0, 3])
    judge_pair(out, Member("fixed", {"kwargs": "5.2e-7"}, "kwargs-literal", a, None), Member("band_edge", {"kwargs": "5.3e-7"}, "kwargs-literal", b, None), "band_edge", None, inputs=True)
    out.evaluations += 1


# --------------------------------------------------------------------------------------
# unvalidated molecules: get_hash on raw float fields (model tie + the == / hash iff)


def gen_raw_value(rng, k, allow_near_tie=False):
    r = rng.random()
    unit = 10.0 ** (-k)
    if r < 0.12:
        return rng.choice([0.0, -0.0])
    if r < 0.45:  # around the zero band: 0 .. ~1.3 * 5^-(k+1)
        n = rng.randint(0, int(1.3 * 10**k / 5 ** (k + 1)) + 2)
        sub = rng.choice(SAFE_SUB)
        return rng.choice([-1, 1]) * float(Decimal(n * 100 + sub).scaleb(-(k + 2)))
    if r < 0.55:
        return rng.choice([-1, 1]) * rng.choice([1e-12, 3e-11, 4.4e-1 * unit, 1e-300, 5e-324])
    n = rng.randint(0, 10 ** rng.randint(1, 11))
    sub = rng.choice(SAFE_SUB)
    return rng.choice([-1, 1]) * float(Decimal(n * 100 + sub).scaleb(-(k + 2)))


def gen_scalar_charge(rng):
    r = rng.random()
    if r < 0.2:
        return rng.choice([0.0, -0.0, 1.0, -1.0, 2.0])
    if r < 0.6:  # near ties of the 4th decimal: Python round() is exact, so the model must agree everywhere
        n = rng.randint(-40, 40)
        return float(Decimal(n * 10 + 5).scaleb(-5)) + rng.choice([0.0, 1e-19, -1e-19, 1e-12, -1e-12])
    return rng.choice([-1, 1]) * rng.random() * 10 ** rng.randint(-7, 1)


def raw_molecule(rng):
    from qcelemental.models import Molecule

    nat = rng.choice([1, 2, 3, 4])
    syms = [rng.choice(ELEMS_LIGHT + ELEMS_HEAVY) for _ in range(nat)]
    kw = dict(symbols=syms, geometry=[gen_raw_value(rng, 8) for _ in range(3 * nat)], validate=False)
    kw["molecular_charge"] = gen_scalar_charge(rng)
    kw["molecular_multiplicity"] = rng.choice([1, 1, 2, 3, 11, 101])
    if rng.random() < 0.5:
        kw["masses"] = [abs(gen_raw_value(rng, 6)) if rng.random() < 0.8 else gen_raw_value(rng, 6) for _ in range(nat)]
    if rng.random() < 0.4:
        kw["real"] = [rng.random() < 0.7 for _ in range(nat)]
    nfr = 1
    if rng.random() < 0.5:
        nfr = rng.randint(1, nat)
        cuts = sorted(rng.sample(range(1, nat), nfr - 1)) if nfr > 1 else []
        b = [0] + cuts + [nat]
        kw["fragments"] = [list(range(b[i], b[i + 1])) for i in range(nfr)]
    # fragment charges explicit (array branch; np.around is not modelled at near-ties, so those stay in the scalar only)
    kw["fragment_charges"] = [gen_raw_value(rng, 4) for _ in range(nfr)]
    if rng.random() < 0.5:
        kw["fragment_multiplicities"] = [rng.choice([1, 2, 3]) for _ in range(nfr)]
    if nat >= 2 and rng.random() < 0.5:
        bl = []
        for _ in range(rng.randint(1, 4)):
            a, b = rng.sample(range(nat), 2)
            bl.append((a, b, rng.choice(ORDERS8) / 8.0))
        kw["connectivity"] = bl
    with quiet():
        return kw, Molecule(**kw)


def raw_stream(ctx, out: Outcome, lines, checks):
    rng = ctx.rng
    prev = None
    for _ in range(ctx.scale(1200, 12000)):
        try:
            kw, mol = raw_molecule(rng)
        except Exception as e:  # noqa
            out.count("raw_rejected:" + err_class(e))
            continue
        kwj = {k: v for k, v in kw.items()}
        mem = Member("raw", {"raw_kwargs": json.loads(json.dumps(kwj))}, "raw", mol, None)
        out.count("member:raw")
        out.evaluations += 1
        out.nontrivial(("raw", mem.hash[:12]))
        canon, pre = impl_record(mol)
        lines.append(enc_hash_line(mol))
        checks.append(("hash", mem, canon, pre))
        # == vs hash on raw molecules too
        if prev is not None:
            heq = prev.hash == mem.hash
            if bool(prev.mol == mem.mol) != heq:
                out.violations.append(Finding("oracle:eq_vs_hash", {"block": "rawpair", "a": prev.spec, "b": mem.spec}, observed={"hash_equal": heq}, detail="== disagrees with hash equality (unvalidated molecules)"))
        prev = mem


# --------------------------------------------------------------------------------------
# float_prep value streams


def prep_stream(ctx, out: Outcome):
    from qcelemental.models.molecule import float_prep

    rng = ctx.rng
    lines, exps, cases = [], [], []
    nblk = ctx.scale(300, 3000)
    for _ in range(nblk):
        k = rng.choice([4, 6, 8])
        # --- array branch
        xs = []
        for _j in range(12):
            r = rng.random()
            if r < 0.5:
                xs.append(gen_raw_value(rng, k))
            elif r < 0.7:  # exact ties: odd / 2^(k+1) has x*10^k = half-integer exactly
                xs.append(rng.choice([-1, 1]) * (2 * rng.randint(0, 2000) + 1) / 2.0 ** (k + 1))
            elif r < 0.85:  # the band edge 5^-(k+1): entries just below / above
                e = 10**k / 5 ** (k + 1)
                n = rng.choice([math.floor(e), math.floor(e) + 1, math.floor(e) - 1])
                xs.append(rng.choice([-1, 1]) * float(Decimal(n * 100 + rng.choice(SAFE_SUB[:45])).scaleb(-(k + 2))))
            elif r < 0.93:  # near a boundary: the decimal tie n.5 units (the double is a hair off; the float product decides)
                n = rng.randint(0, 10 ** rng.randint(1, 11))
                xs.append(float(Decimal(n * 10 + 5).scaleb(-(k + 1))) * rng.choice([1, -1]))
            else:  # the implementation's own rounded double fed back (idempotence on stored values)
                n = rng.randint(0, 10**6)
                x = float(Decimal(n * 10 + 5).scaleb(-(k + 1))) * rng.choice([1, -1])
                xs.append(float(np.around(np.array([x]), k)[0]))
        got = float_prep(np.array(xs, dtype=float), k)
        lines.append(f"prep|{k}|a|" + " ".join(dstr(x) for x in xs))
        exps.append("ok " + " ".join(rd_str(x, k) for x in got))
        cases.append({"block": "prep", "k": k, "mode": "a", "xs": xs})
        # --- scalar branch (Python round: exact)
        ys = []
        for _j in range(12):
            r = rng.random()
            if r < 0.5:
                n = rng.randint(-10**5, 10**5)
                ys.append(float(Decimal(n * 10 + 5).scaleb(-(k + 1))) + rng.choice([0.0, 0.0, 1e-18, -1e-18]))
            elif r < 0.6:
                ys.append(rng.choice([0.0, -0.0, -1e-9, 1e-9, -0.4 * 10.0**-k]))
            else:
                ys.append(rng.choice([-1, 1]) * rng.random() * 10 ** rng.randint(-9, 3))
        goty = [float_prep(float(y), k) for y in ys]
        lines.append(f"prep|{k}|s|" + " ".join(dstr(y) for y in ys))
        exps.append("ok " + " ".join(rd_str(y, k) for y in goty))
        cases.append({"block": "prep", "k": k, "mode": "s", "xs": ys})
    model = ctx.run_model(DRIVER, lines) if ctx.model_available else [None] * len(lines)
    for ln, exp, case, ml in zip(lines, exps, cases, model):
        out.evaluations += 1
        out.count("prep:" + case["mode"])
        if ml is not None and ml != exp:
            out.mismatches.append(Finding("mismatch:float_prep", case, observed=exp, expected=ml, detail="float_prep (implementation) vs prepArr/prepScalar (model)"))
    out.nontrivial(("prep_blocks", len(lines)))


# --------------------------------------------------------------------------------------


def run(ctx: Ctx) -> Outcome:
    out = Outcome()
    workdir = tempfile.mkdtemp(prefix="c11-", dir=str(ctx.work))
    lines, checks = [], []
    with warnings.catch_warnings():
        warnings.simplefilter("ignore")
        zero_band_fixed(out)
        ngroups = ctx.scale(220, 2500)
        for g in range(ngroups):
            sub = random.Random(ctx.rng.getrandbits(48))
            spec0 = gen_spec(sub)
            run_group(ctx, out, sub, spec0, workdir, lines, checks)
        raw_stream(ctx, out, lines, checks)
        if ctx.model_available:
            model = ctx.run_model(DRIVER, lines)
            compare_tie(out, checks, model)
        prep_stream(ctx, out)
    out.exhaustive = False
    out.notes.append("all streams sampled from VERIF_SEED; three fixed reproducers of the known zero-band defect run first")
    return out


def replay(ctx: Ctx, case) -> Outcome:
    from qcelemental.models import Molecule

    out = Outcome()
    block = case.get("block") if isinstance(case, dict) else None
    workdir = tempfile.mkdtemp(prefix="c11-", dir=str(ctx.work))
    lines, checks = [], []

    def member_of(side, label):
        spec, route = side["spec"], side["route"]
        if "kwargs" in spec and route == "kwargs-literal":
            with quiet():
                return Member(label, spec, route, Molecule(**spec["kwargs"]), None)
        if "raw_kwargs" in spec:
            with quiet():
                return Member(label, spec, route, Molecule(**spec["raw_kwargs"]), None)
        mol = build(spec)
        if route not in ("kwargs",):
            mol = via_route(route, mol, workdir, rng=random.Random(0))
        return Member(label, spec, route, mol, None)

    with warnings.catch_warnings():
        warnings.simplefilter("ignore")
        if block == "pair":
            a = member_of(case["a"], "a")
            b = member_of(case["b"], case.get("clause", "b"))
            fam = case.get("clause", "").split(":")[0].split("+")[0]
            expect = "same" if fam in CLAUSE_KIND or case.get("clause", "") in ("pinned", "noise+bonds+nonhash") else None
            judge_pair(out, a, b, case.get("clause", "replay"), expect, inputs=True)
            out.evaluations += 1
            for m in (a, b):
                tie_lines_for(m, lines, checks)
        elif block == "rawpair":
            with quiet():
                a = Member("raw", case["a"], "raw", Molecule(**case["a"]["raw_kwargs"]), None)
                b = Member("raw", case["b"], "raw", Molecule(**case["b"]["raw_kwargs"]), None)
            if bool(a.mol == b.mol) != (a.hash == b.hash):
                out.violations.append(Finding("oracle:eq_vs_hash", case, observed={"hash_equal": a.hash == b.hash}, detail="== disagrees with hash equality"))
            out.evaluations += 1
        elif block == "single":
            m = member_of({"spec": case["spec"], "route": case["route"]}, "single")
            tie_lines_for(m, lines, checks)
            # look for a property-level failure around this molecule as well
            if "v" in case["spec"]:
                run_group(ctx, out, random.Random(1), case["spec"], workdir, lines, checks)
            out.evaluations += 1
        elif block == "prep":
            from qcelemental.models.molecule import float_prep

            k, xs = case["k"], case["xs"]
            if case["mode"] == "a":
                got = float_prep(np.array(xs, dtype=float), k)
            else:
                got = [float_prep(float(y), k) for y in xs]
            exp = "ok " + " ".join(rd_str(x, k) for x in got)
            if ctx.model_available:
                ml = ctx.run_model(DRIVER, [f"prep|{k}|{case['mode']}|" + " ".join(dstr(x) for x in xs)])[0]
                if ml != exp:
                    out.mismatches.append(Finding("mismatch:float_prep", case, observed=exp, expected=ml, detail="float_prep vs model"))
            out.evaluations += 1
        else:
            return run(ctx)
        if lines and ctx.model_available:
            compare_tie(out, checks, ctx.run_model(DRIVER, lines))
    return out
