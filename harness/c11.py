"""C11 — the molecular hash is a canonical identity for the molecule.

generator -> real qcelemental (in process) -> same molecules as lines to the Lean driver -> diff
(canonical fields, the concatenated json preimage, sha1(preimage) == get_hash()),
every driver line answered THREE ways (implementation, hand model Model/Hash.lean, and the evaluator of Model/HashAst.lean at
the terms harness/c11_src.py re-reads from the source on every run - Props/C11Src.lean proves the last two equal for all inputs),
plus an independent Python oracle: on every pair of molecules of a group
    hash equal  <=>  == True  <=>  the listed fields agree after the documented rounding.
"""
from __future__ import annotations

import ast as pyast
import contextlib
import copy
import hashlib
import io
import json
import math
import os
import random
import tempfile
import warnings
from decimal import Decimal
from fractions import Fraction

import numpy as np

from c11_src import gen_hash_src
from common import Ctx, Finding, Outcome, err_class

PROPERTY = "C11"
LEAN_TARGETS = ["QcelVerif.Props.C11", "QcelVerif.Props.C11Preimage", "QcelVerif.Props.C11Examples", "QcelVerif.Lemmas.HashConcrete",
                "QcelVerif.Props.C11Concrete", "QcelVerif.Props.C11Spec", "QcelVerif.Model.HashAst", "QcelVerif.Props.C11Src", "QcelVerif.Driver.C11"]
DRIVER = "QcelVerif/Driver/C11.lean"
THEOREMS = [
    ("QcelVerif.Hash.hash_of_canon", "canon a = canon b -> hash a = hash b (and == holds), for any printing / SHA-1 parameters"),
    ("QcelVerif.Hash.hash_indep_nonhash", "changing name, comment, labels, identifiers, provenance, extras, frame flags, id never changes the hash"),
    ("QcelVerif.Hash.hash_sign_of_zero", "replacing -0.0 by +0.0 (or back) in geometry, masses, charge, fragment charges never changes the hash"),
    ("QcelVerif.Hash.prepArr_small_zero", "an array entry with |x|*10^k < 1/2 (geometry: |x| < 5e-9) is hashed as +0.0 whatever its sign"),
    ("QcelVerif.Hash.round_stable", "|d|*10^k <= 1/100 (geometry: |d| <= 1e-10) and x*10^k within 0.49 of an integer: x+d and x are rounded and hashed alike"),
    ("QcelVerif.Hash.hash_noise", "whole geometries that differ entrywise by such noise away from rounding boundaries have the same hash"),
    ("QcelVerif.Hash.prep_idempotent", "re-rounding a stored (pre-rounded) coordinate gives the same canonical value: construction-time float_prep never changes the hash"),
    ("QcelVerif.Hash.construct_hash", "hash (construct m) = hash {m with bonds canonicalised}: geometry pre-rounding at construction is invisible to the hash"),
    ("QcelVerif.Hash.sortBy_sorted_perm", "the model's sort returns a sorted permutation of its input; on a total antisymmetric order that output is unique (sortBy_unique)"),
    ("QcelVerif.Hash.sortBy_unique", "any sorted permutation of l equals sortBy l (total, transitive, antisymmetric order): the choice of sorting algorithm is immaterial"),
    ("QcelVerif.Hash.bonds_order_free", "bond lists that are permutations of each other up to orientation (a,b)/(b,a) are stored identically (full lexicographic sort)"),
    ("QcelVerif.Hash.bonds_permuted_reversed", "literally: reverse any subset of the bonds and permute the list -> same stored connectivity"),
    ("QcelVerif.Hash.prepBonds_eq_iff", "stored bond lists are equal exactly when the oriented bonds agree as multisets"),
    ("QcelVerif.Hash.bonds_first_atom_sort_not_order_free", "counter-example: sorting by the first atom only (the code before the fix) is not order-free"),
    ("QcelVerif.Hash.preimage_injective", "charge-tied canonical data with letter-only symbols: equal json preimages -> equal canonical data (printing assumed injective with the stated alphabet)"),
    ("QcelVerif.Hash.preimage_collision_unvalidated", "without the charge tie the preimage is not injective: (0.0, 11) and (0.01, 1) print the same adjacent scalars"),
    ("QcelVerif.Hash.canon_eq_iff_fields_agree", "no rounded array entry in (0, 5^-(k+1)): canon a = canon b <-> all ten listed fields agree after rounding to 8/6/4 decimals"),
    ("QcelVerif.Hash.zero_band_counterexample", "fragment charges [2e-4,-2e-4] and [3e-4,-3e-4] (and coordinates 1e-7 / 3e-7) have equal canon although they differ after rounding: the excluded band is necessary"),
    ("QcelVerif.Hash.hash_eq_iff_fields_agree", "validated, out of the zero band, injective SHA-1 and printing: hash a = hash b <-> the listed fields agree after rounding"),
    ("QcelVerif.Hash.round_separates", "|x - y| * 10^k > 1 -> x and y round to different k-decimal values"),
    ("QcelVerif.Hash.single_edit_changes_canon", "one coordinate moved by more than 1e-8 (outside the zero band) changes canon, hence the preimage and the hash"),
    ("QcelVerif.Hash.discrete_edit_changes_canon", "a changed symbol list, multiplicity, real flags, fragments, fragment multiplicities or stored bond list changes canon"),
    # ---- Props/C11Concrete.lean: the hypotheses discharged for the driver's concrete parameters
    ("QcelVerif.Hash.flOk_concrete", "the concrete rounding rndDouble (round-to-nearest-even to 53 bits) satisfies FlOk: |rndDouble y - y| <= 1/256 for every |y| <= 2^45"),
    ("QcelVerif.Hash.concrete_printer_exact", "the concrete printer prints the exact value: read back as a decimal literal, reprRd k r is sign r.neg and magnitude r.mag/10^k, for every k and every r (no bound)"),
    ("QcelVerif.Hash.reprF_concrete_ok", "hence reprRd k is injective, non-empty and over the alphabet 0-9 + - . e, for every k and every rounded value: the reprF half of Params.Ok holds of the concrete printer"),
    ("QcelVerif.Hash.reprB_concrete_ok", "the concrete bond-order printer reprRat is injective, non-empty and delimiter-free on DecPrintable rationals (denominator divides 10^k, k <= 18)"),
    ("QcelVerif.Hash.decPrintable_eighths", "every multiple of 1/8 (the bond orders of the model stream) is DecPrintable"),
    ("QcelVerif.Hash.reprRat_not_injective", "counter-example: outside that domain reprRat prints '?' (1/3 and 1/7 collide), so Params.Ok as stated for all rationals is false of the concrete printer - hence the domain version below"),
    ("QcelVerif.Hash.preimage_injective_on", "preimage_injective with the bond-order printer assumed only on a domain SB and all stored bond orders in SB (the old theorem is the instance SB = True)"),
    ("QcelVerif.Hash.concreteParams_okOn", "the driver's parameters (rndDouble, reprRd, reprRat; SHA-1 and mass table arbitrary) satisfy the printing hypotheses on DecPrintable bond orders"),
    ("QcelVerif.Hash.preimage_injective_concrete", "at the concrete printers, with NO printing hypothesis: charge-tied canonical data with letter symbols and DecPrintable bond orders are determined by their json preimage"),
    ("QcelVerif.Hash.hash_sign_of_zero_concrete", "hash_sign_of_zero at the concrete parameters, FlOk hypothesis gone"),
    ("QcelVerif.Hash.prepArr_small_zero_concrete", "prepArr_small_zero at rndDouble, FlOk hypothesis gone"),
    ("QcelVerif.Hash.round_stable_concrete", "round_stable at rndDouble, FlOk hypothesis gone"),
    ("QcelVerif.Hash.hash_noise_concrete", "hash_noise at the concrete parameters, FlOk hypothesis gone"),
    ("QcelVerif.Hash.prep_idempotent_concrete", "prep_idempotent at rndDouble, FlOk hypothesis gone"),
    ("QcelVerif.Hash.construct_hash_concrete", "construct_hash at the concrete parameters, FlOk hypothesis gone"),
    ("QcelVerif.Hash.canon_eq_iff_fields_agree_concrete", "canon_eq_iff_fields_agree at the concrete parameters, FlOk hypothesis gone (zero-band exclusion stays)"),
    ("QcelVerif.Hash.hash_eq_iff_fields_agree_concrete", "hash a = hash b <-> listed fields agree after rounding, at the concrete rounding and printers: the only parameter hypothesis left is SHA-1 not colliding on the two preimages"),
    ("QcelVerif.Hash.round_separates_concrete", "round_separates at rndDouble, FlOk hypothesis gone"),
    ("QcelVerif.Hash.single_edit_changes_canon_concrete", "single_edit_changes_canon at the concrete parameters, FlOk hypothesis gone"),
    # ---- Props/C11Spec.lean: the model's constants / field list are those re-read from molecule.py
    ("QcelVerif.Hash.noise_constants_match_source", "the model's GEOMETRY_NOISE / MASS_NOISE / CHARGE_NOISE equal the constants re-read from molecule.py on this run"),
    ("QcelVerif.Hash.fieldSpec_matches_source", "the model's field table (ten fields, their order, decimals per rounded field) equals hash_fields + get_hash's float_prep map re-read from molecule.py"),
    ("QcelVerif.Hash.fieldConst_matches_source", "which named constant get_hash hands to float_prep for which field: model table equals the source's"),
    ("QcelVerif.Hash.zeroBand_constants_match_source", "base 5 and exponent offset 1 of float_prep's zero band equal those re-read from the expression in molecule.py"),
    ("QcelVerif.Hash.preimage_follows_fieldSpec", "the model's preimage is the concatenation, in table order, of the per-field json texts (the table is not decoration)"),
    ("QcelVerif.Hash.canon_follows_fieldSpec", "the model's canon rounds each field to the decimals the table gives"),
    ("QcelVerif.Hash.zeroBand_follows_constants", "the model's zero band is mag * base^(k+offset) < 10^k at the table's base and offset"),
    ("QcelVerif.Hash.preimage_matches_source", "preimage = table-driven preimage at the field list READ FROM THE SOURCE (order included)"),
    ("QcelVerif.Hash.canon_matches_source", "canon = table-driven canon at the decimals READ FROM THE SOURCE"),
    ("QcelVerif.Hash.zeroBand_matches_source", "zeroBand k r = (r.mag * B^(k+O) < 10^k) with B, O READ FROM THE SOURCE"),
    # ---- Props/C11Src.lean: the hand model equals the generic evaluator (Model/HashAst.lean) at the terms re-read from the source (Gen/HashSrc.lean)
    ("QcelVerif.Hash.src_translated", "the translator harness/c11_src.py recognised every one of the five code regions on this run (otherwise it emits inert terms and this fails)"),
    ("QcelVerif.Hash.src_prepArr_eq", "source-derived float_prep (isinstance dispatch in source order, np.around, the zero-band assignment with its threshold expression and +0) on a list / ndarray entry = prepArr, for every double, every `around`, every rounding fl"),
    ("QcelVerif.Hash.src_prepScalar_eq", "source-derived float_prep on a float / int (round, then `if array == -0.0: array = 0.0`) = prepScalar, for every double and every `around`"),
    ("QcelVerif.Hash.src_prep_typeError", "source-derived float_prep on any other class raises (the final else)"),
    ("QcelVerif.Hash.src_preimage_eq", "the string the source's get_hash loop builds (hash_fields in source order, getattr, first matching branch of the if/elif chain -> float_prep with the named constant, json.dumps with the default= hook, concatenation) = preimage (canon m), for every molecule and all parameters"),
    ("QcelVerif.Hash.src_hash_eq", "source-derived get_hash() = the model's hash, for every molecule"),
    ("QcelVerif.Hash.src_digest_sha1_utf8", "the source hashes with hashlib.sha1 ... hexdigest over concat.encode('utf-8'); json.dumps gets no sort_keys and does get default=lambda x: x.ravel().tolist()"),
    ("QcelVerif.Hash.src_molEq_eq", "source-derived __eq__ on two Molecule objects never raises and equals molEq: self.get_hash() == other.get_hash() (left self, right other)"),
    ("QcelVerif.Hash.src_prepBonds_eq", "source-derived connectivity block (checks in source order, (int(min), int(max), float(order)) tuple, plain conn.sort()) = prepBonds on every bond list with orders in [0,5]"),
    ("QcelVerif.Hash.src_prepBonds_rejects", "the source-derived block refuses an entry with negative first index / negative second index / order outside [0,5] by its 1st / 2nd / 3rd check, whatever follows"),
    ("QcelVerif.Hash.src_construct_eq", "source-derived construction (geometry_noise default read from the kwargs.pop call, float_prep(values['geometry'], geometry_noise) on the validate branch, bonds through the connectivity block) = construct, bond orders in [0,5]"),
    ("QcelVerif.Hash.src_hash_eq_iff_fields_agree", "HEADLINE over the source-derived get_hash: hash equal <-> the ten listed fields agree after rounding (validated, bounded, out of the zero band, concrete rounding/printing; SHA-1 not colliding on the two source-derived preimages)"),
    ("QcelVerif.Hash.src_eq_iff_fields_agree", "same for the source-derived ==: a == b is True <-> the listed fields agree after rounding"),
    ("QcelVerif.Hash.src_hash_indep_nonhash", "the source-derived hash does not depend on name, comment, labels, identifiers, provenance, extras, frame flags, id (any parameters)"),
    ("QcelVerif.Hash.src_hash_sign_of_zero", "the source-derived hash does not depend on the sign of zero in geometry, masses, charge, fragment charges"),
    ("QcelVerif.Hash.src_hash_noise", "the source-derived hash is unchanged by coordinate noise <= 1e-10 away from rounding boundaries"),
    ("QcelVerif.Hash.src_bonds_permuted_reversed", "reverse any bonds and permute the list: the source-derived connectivity block stores the same list (orders in [0,5])"),
    ("QcelVerif.Hash.src_construct_hash", "source-derived construction followed by the source-derived hash = source-derived hash of the un-rounded geometry with canonical bonds"),
]
TRUSTED_BASE = [
    "Lean 4.33 kernel; axioms per theorem audited on every run (subset of propext, Classical.choice, Quot.sound)",
    "hand-written model Model/Hash.lean of float_prep, the property accessors' defaults, get_hash's field loop + json.dumps layout, __eq__, construction-time geometry rounding and the bond canonicalisation of from_arrays; tied by differential correspondence (canonical fields, the whole json preimage, sha1(preimage) == get_hash()). REGENERATED FROM THE SOURCE and proved equal to the model's (Props/C11Spec.lean, broken build = broken obligation): the three *_NOISE constants, hash_fields with its order, the field -> float_prep-constant map of get_hash, base and exponent offset of float_prep's zero band",
    "REGENERATED FROM THE SOURCE as terms of a small syntax (Model/HashAst.lean) on every run, with the hand model PROVED equal, for all inputs, to the generic evaluator at those terms (Props/C11Src.lean; broken build = broken obligation): (1) float_prep's whole body - isinstance dispatch in source order, np.around / round, the zero-band assignment with its threshold expression and the zero assigned, `if array == -0.0: array = 0.0`, the final raise; (2) get_hash's whole body - hashlib.sha1 / utf-8 / hexdigest, the loop over hash_fields, getattr, the if/elif chain (which field goes through float_prep with which constant, first match wins, every other field plain), the json.dumps keywords (default= hook present, no sort_keys), `+=` concatenation; (3) __eq__ - the isinstance chain and `self.get_hash() == other.get_hash()` with its operands; (4) the connectivity block of from_arrays.py - the three validations in source order, the (int(min), int(max), float(order)) tuple, `conn.sort()` with its keywords; (5) Molecule.__init__'s `geometry_noise = kwargs.pop('geometry_noise', GEOMETRY_NOISE)` and the `elif validate or geometry_prep: values['geometry'] = float_prep(values['geometry'], geometry_noise)` branch. The driver runs this evaluator as a THIRD voice on every line (implementation vs hand model vs source-derived)",
    "what the source-derived evaluator itself takes from python / numpy, by hand and tied differentially only: np.around(x,k) = rint(fl(x*10^k)) keeping the sign bit and round(x,k) exact (as in Model/Hash.lean), array statements acting entry by entry, `==` ignoring the sign of zero, json.dumps' list / scalar layout (renderList ...), tuple comparison being lexicographic and list.sort a stable sort, getattr = the property accessors with their defaults (masses from the mass table, real, fragments, fragment charges / multiplicities). Recorded by the translator but not evaluated: the dict operand of __eq__ (`Molecule(orient=False, **other)`), the `if orient:` branch of __init__, an explicit geometry_noise= keyword, float(at).is_integer() on a non-integral index (indices are integers in the model)",
    "translator gen_hash_spec in harness/c11.py (python `ast` of qcelemental/models/molecule.py -> lean/QcelVerif/Gen/HashSpec.lean; only the syntax tree is read, so whitespace/comments/branch order are immaterial; a shape it does not recognise is reported as a broken obligation, never guessed)",
    "translator gen_hash_src in harness/c11_src.py (python `ast` of molecule.py and molparse/from_arrays.py -> lean/QcelVerif/Gen/HashSrc.lean): statement order, branch order and every sub-expression of the five regions are translated; anything outside the small syntax raises (broken obligation) and leaves inert terms with translationOk := false, so Props/C11Src.lean fails with it. Trusted: that it maps each recognised python shape to the constructor documented for it in Model/HashAst.lean",
    "SHA-1 is an abstract parameter of the theorems (collision-freeness is an explicit hypothesis, never proved); the harness applies hashlib.sha1 to the model's preimage",
    "float printing: the driver's concrete printer reprRd/reprRat is PROVED (Props/C11Concrete.lean) to print the exact value mag/10^k - hence injective, non-empty, over 0-9 + - . e - for every k and every rounded value, and for bond orders whose denominator divides 10^k, k <= 18; the theorems are restated at these concrete printers with the Params.Ok hypothesis gone. What stays trusted: CPython's repr(float)/json.dumps prints the same characters as reprRd for the double nearest to a decimal of <= 15 significant digits - compared character by character on the whole preimage of every generated molecule",
    "np.around is modelled as rint(fl(x*10^k)); the driver's fl = rndDouble (round-to-nearest-even to 53 bits, normal range) is PROVED to satisfy FlOk (|fl y - y| <= 1/256 for |y| <= 2^45) and the theorems are restated at it with the FlOk hypothesis gone. What stays trusted: numpy's product x*10**k is that correctly rounded double (IEEE-754) - compared with numpy on value streams of arbitrary doubles including decimal near-ties (default masses such as 207.9766525 sit on them). Python round() (scalar branch) is exact (fl = id)",
    "default masses (periodictable.to_mass, property C01) are handed to the model by the harness (the theorems hold for any mass table)",
    "everything else the constructor does (validation, charge/multiplicity completion, text parsing, serialisation) is C04/C05/C07/C10's subject: here it is exercised through the oracle only",
    "harness/c11.py generators and the Python oracle (independent rounding with fractions.Fraction, half-even)",
]
ASSUMPTIONS = [
    "validated molecules with integer charges/multiplicities, contiguous fragments, finite coordinates |x| < 1e5 bohr (printing of <=15 significant digits), element symbols made of letters",
    "bond orders strictly positive multiples of 1/8 in the model stream (exactly printable: DecPrintable, theorem decPrintable_eighths); the concrete theorems cover bond orders n/10^j and n/2^j with j <= 18, not arbitrary doubles such as 0.1 (55-bit denominator; the concrete printer refuses them with '?'); bond order -0.0 vs 0.0 prints differently (bond orders are not float_prep'ed) - outside the quantifier, not generated",
    "domain of the concrete theorems: printing - every rounded value (no bound); rounding - scaled values |x*10^k| <= 2^45 (hypothesis Bdd of the general theorems), implied by the scope above: |coordinate| < 1e5 bohr -> < 1e13, masses < 300 -> < 3e8, |charge| < 1e3 -> < 1e7, all below 2^45 ~ 3.5e13",
    "text routes (psi4 text, .psimol/.psi4/.xyz/.npy files) only for molecules those formats can carry: default masses, no atom labels; bonds are re-attached through a re-validated dict; .xyz/.npy additionally single-fragment neutral all-real molecules",
    "the mixed route Molecule.from_data(text, connectivity=...) (structural kwargs merged after validation; bonds stored un-canonicalised) is outside the property's construction routes: not generated, no demand",
    "noise twins: coordinates at least 0.05 rounding units from a rounding boundary, noise <= 1e-10 (the property's quantifier)",
    "records edited on routes that do not re-validate (copy(update=), dict with validated=True, validate=False, edited payloads) keep their bond list in the canonical form validation stores (oriented, sorted): a hand-made unsorted bond list inside an un-revalidated record is not a validated molecule (same exclusion as from_data(text, connectivity=...)); every other field of such a record is taken as it is and judged by the pairwise iff on its attributes",
    "source-derived bond / construction theorems (src_prepBonds_eq, src_construct_eq, src_bonds_permuted_reversed, src_construct_hash): bond orders in [0, 5] (exactly what the connectivity block accepts; outside it src_prepBonds_rejects proves the refusal) and integral atom indices (naturals by type; float(at).is_integer() on a non-integral index is not modelled, not generated)",
    "the theorem preimage_injective needs the charge tie (charge = sum of fragment charges, exact for the integer charges in scope); fractional fragment charges are generated only for the zero-band known finding",
]
RULE = (
    "groups: one random validated base molecule (1-8 atoms on a jittered lattice, coordinates = decimals with 10 fractional digits whose sub-1e-8 part keeps "
    "away from rounding boundaries, ~12% exact zeros and ~12% tiny |x|<6e-7 entries, ghosts, explicit masses, 1-3 fragments, charges, bonds given in random "
    "order/orientation with rare duplicate pairs, non-hash fields) x construction routes (kwargs, dict, from_data(dict), re-validated dict, 4 encodings, psi4 text "
    "Bohr/Angstrom, .json/.msgpack/.psimol/.psi4/.xyz/.npy files) x must-be-equal twins (noise<=1e-10, +-0 and |x|<=4.4e-9 substitutions incl. charges, "
    "shuffled+flipped bonds, edited non-hash fields) x must-differ single edits (coordinate +-1e-6, symbol, mass, charge, multiplicity, ghost flag, fragment "
    "boundary, bond order/add/remove); every pair inside a group is judged by the pairwise iff. Plus unvalidated molecules with raw float fields (band, -0.0, "
    "fractional charges) and float_prep value streams (array: ties odd/2^(k+1), band edges, re-fed rounded doubles; scalar: arbitrary doubles incl. near-ties) for "
    "the model tie. Added per group: (i) the pinned molecule as a stored record carrying identifiers (its true molecule_hash/molecular_formula, a stale one, a "
    "foreign one) and hash-like strings in name/comment/extras/provenance - must hash and compare equal; generated non-hash fields also carry foreign "
    "molecule_hash / molecular_formula strings; (ii) the perturbation stream (noise<=1e-10 on every stored coordinate, +-0 and |x|<5e-9 on zero coordinates, -0.0 "
    "charges) applied to the stored record and re-entered through routes that skip constructor rounding (copy(update=), dict with validated=True, validate=False, "
    "from_data(dict), json text, json/json-ext/msgpack/msgpack-ext payloads edited after serialisation + parse_raw) - must hash equal to the unperturbed molecule; "
    "(iii) copy-with-edit of such a record (copy(update=), Molecule(**{**m.dict(), field: new}) with validate default/False/True, from_data, json text, edited "
    "payloads) with ONE listed field changed above its rounding unit while the now stale identifiers ride along - judged by the pairwise iff. ==/!= is evaluated "
    "next to hash equality on EVERY pair of a group: all six forms (a==b, b==a, a!=b, b!=a, a==b.dict(), b==a.dict()) on every pair against the pinned molecule "
    "and on every anomalous pair, one form (rotating through both operators and both operand orders) on every other pair. "
    "Every driver line (hash, cons, prep) is answered three ways - implementation, hand model, source-derived evaluator at the terms re-read from the source on this "
    "run - and each Lean voice is compared with the implementation separately (mismatch:* for the hand model, mismatch:src_* for the source-derived one). "
    "A case is distinct by (clause, hash pair) and non-trivial when it is a pair of different constructions/inputs."
)
LEVEL_TEXT = (
    "Lean proofs for all molecules (no size bound) about a hand model of get_hash/float_prep/bond sorting. The general theorems take float rounding and float "
    "printing as hypotheses (FlOk, Params.Ok); both are now DISCHARGED by proof for the concrete functions the driver executes (rndDouble; reprRd/reprRat print "
    "the exact decimal value), and every theorem is restated at those concrete parameters with the hypotheses gone. Still partial: SHA-1 stays abstract "
    "(collision-freeness is a hypothesis of the 'only if' direction), the zero band (0, 5^-(k+1)) is excluded from the iff (known finding), and that CPython/numpy "
    "compute what the concrete functions compute is differential (character-by-character preimage comparison; value streams). The constants and the field list the "
    "model hard-codes (noise constants, hash_fields and its order, field -> constant map, zero-band base/offset) are regenerated from molecule.py on every run and "
    "proved equal to the model's. Beyond the constants, the CODE of float_prep, get_hash, __eq__, the connectivity block of from_arrays and the constructor's "
    "geometry rounding is now re-read by `ast` on every run into terms of a small syntax, and the hand model is proved equal for all inputs to a generic evaluator "
    "at those terms (Props/C11Src.lean); the headline theorems (hash equal iff rounded listed fields agree; independence from unlisted fields; sign of zero and "
    "sub-rounding noise; bond order and orientation; construction rounding invisible) are restated over the source-derived functions. What is still by hand is the "
    "evaluator's reading of the python / numpy primitives (np.around, round, json.dumps layout, tuple order, sort, the property accessors' defaults) - tied "
    "differentially, three-way (implementation, hand model, source-derived) on canonical fields and the complete json preimage; construction routes, the dict "
    "operand of ==, != and copy-with-edit are oracle-only."
)
TECHNIQUE = "Lean 4 proof of canonical-form / injectivity / sorting theorems about a hand model, with the numeric and printing parameters discharged for the executed functions + ast translators for constants / field list and for the code of float_prep, get_hash, __eq__, the connectivity block and the constructor's rounding (small syntax + evaluator proved equal to the hand model) + three-way behavioural correspondence + independent pairwise oracle"


# --------------------------------------------------------------------------------------
# translator: the constants / field list the hand model hard-codes, re-read from molecule.py by `ast`
# (never by importing) -> lean/QcelVerif/Gen/HashSpec.lean.  Props/C11Spec.lean proves the model's own
# tables EQUAL to the generated ones, so a change of any of them in the source breaks a proof obligation
# even if no generated molecule exposes it.  Only the syntax tree is read: whitespace, comments, line
# breaks, docstrings, quote style, parenthesisation and the order of the if/elif branches are immaterial.


class HashSpecError(ValueError):
    pass


def _int_const(node):
    """an int literal (optionally signed) -> int, else None"""
    if isinstance(node, pyast.Constant) and type(node.value) is int:
        return node.value
    if isinstance(node, pyast.UnaryOp) and isinstance(node.op, (pyast.USub, pyast.UAdd)):
        v = _int_const(node.operand)
        if v is not None:
            return -v if isinstance(node.op, pyast.USub) else v
    return None


def _linear(node, var):
    """node as a*var + b with integer a, b (only + - unary- and * by an int literal), else HashSpecError"""
    c = _int_const(node)
    if c is not None:
        return (0, c)
    if isinstance(node, pyast.Name) and node.id == var:
        return (1, 0)
    if isinstance(node, pyast.UnaryOp) and isinstance(node.op, pyast.USub):
        a, b = _linear(node.operand, var)
        return (-a, -b)
    if isinstance(node, pyast.UnaryOp) and isinstance(node.op, pyast.UAdd):
        return _linear(node.operand, var)
    if isinstance(node, pyast.BinOp) and isinstance(node.op, (pyast.Add, pyast.Sub)):
        a1, b1 = _linear(node.left, var)
        a2, b2 = _linear(node.right, var)
        return (a1 + a2, b1 + b2) if isinstance(node.op, pyast.Add) else (a1 - a2, b1 - b2)
    if isinstance(node, pyast.BinOp) and isinstance(node.op, pyast.Mult):
        for x, y in ((node.left, node.right), (node.right, node.left)):
            c = _int_const(x)
            if c is not None:
                a, b = _linear(y, var)
                return (c * a, c * b)
    raise HashSpecError("exponent of the zero band is not linear in `%s`: %s" % (var, pyast.dump(node)))


def _is_abs_of(node, arr):
    """np.abs(arr) / np.absolute(arr) / numpy.abs(arr) / abs(arr)"""
    if not (isinstance(node, pyast.Call) and len(node.args) == 1 and not node.keywords):
        return False
    if not (isinstance(node.args[0], pyast.Name) and node.args[0].id == arr):
        return False
    f = node.func
    if isinstance(f, pyast.Name):
        return f.id == "abs"
    return isinstance(f, pyast.Attribute) and f.attr in ("abs", "absolute", "fabs") and isinstance(f.value, pyast.Name) and f.value.id in ("np", "numpy")


def _str_list(node):
    if isinstance(node, (pyast.List, pyast.Tuple)) and all(isinstance(e, pyast.Constant) and isinstance(e.value, str) for e in node.elts):
        return [e.value for e in node.elts]
    return None


def extract_hash_spec(path) -> dict:
    """Everything by `ast` from qcelemental/models/molecule.py:
    module constants *_NOISE, `hash_fields` (order kept), the field -> float_prep-constant map of `get_hash`,
    and base / exponent offset of float_prep's zero band `B ** (-(around + O))`."""
    tree = pyast.parse(path.read_text())
    consts = {}
    for node in tree.body:
        tgt, val = None, None
        if isinstance(node, pyast.Assign) and len(node.targets) == 1 and isinstance(node.targets[0], pyast.Name):
            tgt, val = node.targets[0].id, node.value
        elif isinstance(node, pyast.AnnAssign) and isinstance(node.target, pyast.Name) and node.value is not None:
            tgt, val = node.target.id, node.value
        if tgt is not None and _int_const(val) is not None:
            consts[tgt] = _int_const(val)
    for name in ("GEOMETRY_NOISE", "MASS_NOISE", "CHARGE_NOISE"):
        if name not in consts or consts[name] < 0:
            raise HashSpecError(f"module constant {name} is not a non-negative int literal")

    # ---- float_prep: array[np.abs(array) < B ** (-(around + O))] = 0
    fps = [n for n in tree.body if isinstance(n, pyast.FunctionDef) and n.name == "float_prep"]
    if len(fps) != 1 or len(fps[0].args.args) < 2:
        raise HashSpecError("module-level float_prep(array, around) not found")
    fp = fps[0]
    arr, around = fp.args.args[0].arg, fp.args.args[1].arg
    bands = []
    for n in pyast.walk(fp):
        if not (isinstance(n, pyast.Assign) and len(n.targets) == 1 and isinstance(n.targets[0], pyast.Subscript)):
            continue
        sub = n.targets[0]
        if not (isinstance(sub.value, pyast.Name) and sub.value.id == arr and isinstance(sub.slice, pyast.Compare)):
            continue
        cmp_ = sub.slice
        if len(cmp_.ops) != 1 or len(cmp_.comparators) != 1:
            raise HashSpecError("zero band: chained comparison")
        left, op, right = cmp_.left, cmp_.ops[0], cmp_.comparators[0]
        if isinstance(op, pyast.Gt) and _is_abs_of(right, arr):  # thr > |x|  is the same statement
            left, op, right = right, pyast.Lt(), left
        if not (isinstance(op, pyast.Lt) and _is_abs_of(left, arr)):
            raise HashSpecError("zero band: expected `abs(array) < B ** (-(around + O))`, got " + pyast.unparse(cmp_))
        if isinstance(right, pyast.BinOp) and isinstance(right.op, pyast.Pow) and isinstance(right.left, pyast.Constant) \
                and type(right.left.value) is float and right.left.value == int(right.left.value):
            right = pyast.BinOp(left=pyast.Constant(value=int(right.left.value)), op=right.op, right=right.right)  # 5.0 ** e is 5 ** e
        if not (isinstance(right, pyast.BinOp) and isinstance(right.op, pyast.Pow) and _int_const(right.left) is not None):
            raise HashSpecError("zero band: the threshold is not `<int> ** <expr>`: " + pyast.unparse(right))
        a, b = _linear(right.right, around)
        if a != -1 or b > 0:
            raise HashSpecError("zero band: exponent is not -(around + O) with O >= 0: " + pyast.unparse(right.right))
        zero = n.value
        if not (isinstance(zero, pyast.Constant) and type(zero.value) in (int, float) and zero.value == 0 and math.copysign(1.0, float(zero.value)) > 0):
            raise HashSpecError("zero band: entries are not set to +0")
        bands.append((_int_const(right.left), -b))
    if len(bands) != 1:
        raise HashSpecError(f"float_prep: expected exactly one zero-band assignment, found {len(bands)}")
    base, off = bands[0]
    if base < 2:
        raise HashSpecError("zero band: base < 2")

    # ---- class Molecule: hash_fields and get_hash
    cls = [n for n in tree.body if isinstance(n, pyast.ClassDef) and n.name == "Molecule"]
    if len(cls) != 1:
        raise HashSpecError("class Molecule not found")
    fields = None
    get_hash = None
    for n in cls[0].body:
        if isinstance(n, pyast.FunctionDef) and n.name == "hash_fields":
            rets = [r for r in pyast.walk(n) if isinstance(r, pyast.Return)]
            if len(rets) == 1:
                fields = _str_list(rets[0].value)
        elif isinstance(n, pyast.Assign) and any(isinstance(t, pyast.Name) and t.id == "hash_fields" for t in n.targets):
            fields = _str_list(n.value)
        elif isinstance(n, pyast.AnnAssign) and isinstance(n.target, pyast.Name) and n.target.id == "hash_fields" and n.value is not None:
            fields = _str_list(n.value)
        elif isinstance(n, pyast.FunctionDef) and n.name == "get_hash":
            get_hash = n
    if not fields or len(set(fields)) != len(fields):
        raise HashSpecError("Molecule.hash_fields is not a literal list of distinct strings")
    if get_hash is None:
        raise HashSpecError("Molecule.get_hash not found")
    loops = [n for n in pyast.walk(get_hash) if isinstance(n, pyast.For) and isinstance(n.iter, pyast.Attribute) and n.iter.attr == "hash_fields"
             and isinstance(n.target, pyast.Name)]
    if len(loops) != 1:
        raise HashSpecError("get_hash: expected one `for <field> in self.hash_fields` loop")
    loop = loops[0]
    fvar = loop.target.id

    def tested_fields(test):
        """field == "x" | "x" == field | field in ("x", "y") | a or b"""
        if isinstance(test, pyast.BoolOp) and isinstance(test.op, pyast.Or):
            out = []
            for v in test.values:
                out += tested_fields(v)
            return out
        if isinstance(test, pyast.Compare) and len(test.ops) == 1:
            l, op, r = test.left, test.ops[0], test.comparators[0]
            if isinstance(op, pyast.Eq):
                for x, y in ((l, r), (r, l)):
                    if isinstance(x, pyast.Name) and x.id == fvar and isinstance(y, pyast.Constant) and isinstance(y.value, str):
                        return [y.value]
            if isinstance(op, pyast.In) and isinstance(l, pyast.Name) and l.id == fvar and _str_list(r) is not None:
                return _str_list(r)
        raise HashSpecError("get_hash: unrecognised test " + pyast.unparse(test))

    def prep_arg(stmts):
        """the second argument of the float_prep call in a branch body"""
        calls = [c for st in stmts for c in pyast.walk(st) if isinstance(c, pyast.Call) and isinstance(c.func, pyast.Name) and c.func.id == "float_prep"]
        if len(calls) != 1:
            raise HashSpecError("get_hash: expected exactly one float_prep call per branch")
        c = calls[0]
        arg = c.args[1] if len(c.args) >= 2 else next((k.value for k in c.keywords if k.arg == around), None)
        if arg is None:
            raise HashSpecError("get_hash: float_prep call without `around`")
        if isinstance(arg, pyast.Name):
            if arg.id not in consts:
                raise HashSpecError(f"get_hash: {arg.id} is not a module-level int constant")
            return arg.id, consts[arg.id]
        if _int_const(arg) is not None and _int_const(arg) >= 0:
            return "<literal>", _int_const(arg)
        raise HashSpecError("get_hash: unrecognised `around` argument " + pyast.unparse(arg))

    prep = {}
    n_calls_seen = 0

    def visit_if(node):
        nonlocal n_calls_seen
        names = tested_fields(node.test)
        cname, k = prep_arg(node.body)
        n_calls_seen += 1
        for f in names:
            if f in prep:
                raise HashSpecError(f"get_hash: field {f} is tested twice")
            prep[f] = (cname, k)
        if len(node.orelse) == 1 and isinstance(node.orelse[0], pyast.If):
            visit_if(node.orelse[0])
        elif node.orelse:
            raise HashSpecError("get_hash: an `else` branch in the rounding chain")

    for st in loop.body:
        if isinstance(st, pyast.If):
            visit_if(st)
    total_calls = sum(1 for c in pyast.walk(get_hash) if isinstance(c, pyast.Call) and isinstance(c.func, pyast.Name) and c.func.id == "float_prep")
    if total_calls != n_calls_seen:
        raise HashSpecError("get_hash: a float_prep call outside the recognised `if field == ...` chain")
    for f in prep:
        if f not in fields:
            raise HashSpecError(f"get_hash rounds {f}, which is not in hash_fields")
    return {"consts": {k: consts[k] for k in ("GEOMETRY_NOISE", "MASS_NOISE", "CHARGE_NOISE")}, "fields": fields, "prep": prep,
            "zero_band": {"base": base, "offset": off}}


def _lean_str(s: str) -> str:
    if not all(32 <= ord(ch) < 127 and ch not in '"\\' for ch in s):
        raise HashSpecError("field name with characters outside printable ASCII: %r" % s)
    return '"' + s + '"'


def render_hash_spec(spec: dict) -> str:
    rows = []
    for f in spec["fields"]:
        k = spec["prep"].get(f)
        rows.append(f"({_lean_str(f)}, " + ("none" if k is None else f"some {k[1]}") + ")")
    crow = [f"({_lean_str(f)}, {_lean_str(spec['prep'][f][0])})" for f in spec["fields"] if f in spec["prep"]]
    lines = [
        "/-! GENERATED by harness/c11.py:gen_hash_spec from qcelemental/models/molecule.py (read by `ast`) — do not edit -/",
        "namespace QcelVerif.Hash.Gen",
        "",
    ]
    for name in ("GEOMETRY_NOISE", "MASS_NOISE", "CHARGE_NOISE"):
        lines.append(f"def {name} : Nat := {spec['consts'][name]}")
    lines += [
        "",
        "/-- `Molecule.hash_fields` in source order; `some k`: `get_hash` passes the field through `float_prep(·, k)` -/",
        "def fieldSpec : List (String × Option Nat) :=",
        "  [ " + ",\n    ".join(rows) + " ]",
        "",
        "/-- the module constant `get_hash` names for each rounded field (in `hash_fields` order) -/",
        "def fieldConst : List (String × String) :=",
        "  [ " + ",\n    ".join(crow) + " ]",
        "",
        "/-- `float_prep`: `array[abs(array) < zeroBandBase ** (-(around + zeroBandExpOffset))] = 0` -/",
        f"def zeroBandBase : Nat := {spec['zero_band']['base']}",
        f"def zeroBandExpOffset : Nat := {spec['zero_band']['offset']}",
        "",
        "end QcelVerif.Hash.Gen",
    ]
    return "\n".join(lines) + "\n"


def gen_hash_spec(ctx=None) -> None:
    import common

    gen = common.LEAN / "QcelVerif" / "Gen"
    gen.mkdir(exist_ok=True)
    f = gen / "HashSpec.lean"
    try:
        spec = extract_hash_spec(common.REPO / "qcelemental" / "models" / "molecule.py")
        body = render_hash_spec(spec)
    except Exception as e:
        # never leave a stale table behind that could still satisfy Props/C11Spec.lean: the obligations must fail with the translator
        msg = str(e).replace("-/", "- /")
        f.write_text("/-! GENERATED by harness/c11.py:gen_hash_spec - the source could NOT be translated:\n" + msg + "\n-/\nnamespace QcelVerif.Hash.Gen\nend QcelVerif.Hash.Gen\n")
        raise
    if not f.exists() or f.read_text() != body:
        f.write_text(body)


TRANSLATORS = [gen_hash_spec, gen_hash_src]

KNOISE = {"masses": 6, "geometry": 8, "fragment_charges": 4}
ZERO_BAND_KIND = "oracle:zero_band_collision"


def quiet():
    return contextlib.redirect_stdout(io.StringIO())


# --------------------------------------------------------------------------------------
# protocol encoding


def dstr(x) -> str:
    x = float(x)
    if x == 0.0:
        return "nz" if math.copysign(1.0, x) < 0 else "0"
    fr = Fraction(x)
    return str(fr.numerator) if fr.denominator == 1 else f"{fr.numerator}/{fr.denominator}"


def qstr(fr: Fraction) -> str:
    return str(fr.numerator) if fr.denominator == 1 else f"{fr.numerator}/{fr.denominator}"


def rd_str(d, k) -> str:
    """a double that should be a k-decimal value -> signed scaled integer (the model's `Rd`)"""
    d = float(d)
    if d != d or d in (float("inf"), float("-inf")):
        return "?" + repr(d)
    sign = "-" if math.copysign(1.0, d) < 0 else "+"
    n = abs(round(Fraction(d) * 10**k))
    if n / 10**k != abs(d):  # int/int true division is correctly rounded
        return "?" + repr(d)
    return sign + str(n)


def bonds_str(conn) -> str:
    if conn is None:
        return "N"
    if len(conn) == 0:
        return "E"
    return ";".join(f"{int(a)},{int(b)},{qstr(Fraction(float(o)))}" for a, b, o in conn)


def frags_str(fr) -> str:
    if len(fr) == 0:
        return "E"
    return ";".join(",".join(str(int(i)) for i in f) for f in fr)


def enc_hash_line(mol) -> str:
    import qcelemental as qcel

    d = mol.__dict__
    syms = [str(s) for s in mol.symbols]

    def opt(v, f):
        return "N" if v is None else f(v)

    table = []
    for s in sorted(set(syms)):
        try:
            table.append(f"{s}={dstr(qcel.periodictable.to_mass(s))}")
        except Exception:
            pass
    return "|".join(
        [
            "hash",
            ",".join(syms),
            opt(d.get("masses_"), lambda v: " ".join(dstr(x) for x in np.asarray(v).ravel())),
            dstr(mol.molecular_charge),
            str(int(mol.molecular_multiplicity)),
            opt(d.get("real_"), lambda v: ",".join("1" if bool(x) else "0" for x in np.asarray(v).ravel())),
            " ".join(dstr(x) for x in np.asarray(mol.geometry).ravel()),
            opt(d.get("fragments_"), frags_str),
            opt(d.get("fragment_charges_"), lambda v: " ".join(dstr(x) for x in v)),
            opt(d.get("fragment_multiplicities_"), lambda v: ",".join(str(int(x)) for x in v)),
            bonds_str(d.get("connectivity_")),
            ",".join(table),
        ]
    )


def impl_record(mol):
    """canonical fields + preimage recomputed exactly as get_hash does (molecule.py:799-816)."""
    from qcelemental.models.molecule import float_prep

    def prepped(field):
        v = getattr(mol, field)
        if field == "geometry":
            v = float_prep(v, 8)
        elif field == "fragment_charges":
            v = float_prep(v, 4)
        elif field == "molecular_charge":
            v = float_prep(v, 4)
        elif field == "masses":
            v = float_prep(v, 6)
        return v

    # the preimage, field list as the implementation has it
    concat = ""
    for field in mol.hash_fields:
        concat += json.dumps(prepped(field), default=lambda x: x.ravel().tolist())
    # the canonical data of the ten fields the property lists (whatever hash_fields says)
    data = {field: prepped(field) for field in FIELD_NAMES}
    canon = "|".join(
        [
            ",".join(str(s) for s in data["symbols"]),
            " ".join(rd_str(x, 6) for x in np.asarray(data["masses"]).ravel()),
            rd_str(data["molecular_charge"], 4),
            str(int(data["molecular_multiplicity"])),
            ",".join("1" if bool(x) else "0" for x in np.asarray(data["real"]).ravel()),
            " ".join(rd_str(x, 8) for x in np.asarray(data["geometry"]).ravel()),
            frags_str(data["fragments"]),
            " ".join(rd_str(x, 4) for x in np.asarray(data["fragment_charges"]).ravel()),
            ",".join(str(int(x)) for x in data["fragment_multiplicities"]),
            bonds_str(data["connectivity"]),
        ]
    )
    return canon, concat


# --------------------------------------------------------------------------------------
# the independent statement of "agree after the documented rounding"


def rhe(x, k):
    """the documented rounding, exact (round(Fraction) is round-half-even). A value within 1e-3 units of a tie is outside
    the property's quantifier ('not near a rounding boundary'): it is kept as the double itself, so that it only ever
    agrees with the identical double."""
    y = Fraction(float(x)) * 10**k
    n = round(y)
    if abs(abs(y - n) - Fraction(1, 2)) < Fraction(1, 1000):
        return ("near-tie", float(x))
    return n


def rounded_tuple(mol, input_geometry=None, input_masses=None, input_bonds="stored"):
    """`input_geometry`: for a molecule built from keyword arguments the identity is that of the coordinates handed in
    (the constructor stores them already rounded AND zero-flipped).  `input_masses`: likewise the masses the caller
    supplied (a validation that replaces a supplied mass by a nearby tabulated one must not hide a mass edit)."""
    conn = mol.connectivity
    geom = np.asarray(mol.geometry).ravel() if input_geometry is None else input_geometry
    bonds = None if conn is None else tuple(sorted((min(int(a), int(b)), max(int(a), int(b)), Fraction(float(o))) for a, b, o in conn))
    if input_bonds != "stored":
        # the bonds the caller SUPPLIED (orders in eighths), up to listing order and orientation: a validation that alters a bond
        # order must not hide an edit of it
        bonds = None if input_bonds is None else tuple(sorted((min(int(a), int(b)), max(int(a), int(b)), Fraction(int(o), 8)) for a, b, o in input_bonds))
    return (
        tuple(str(s) for s in mol.symbols),
        tuple(rhe(x, 6) for x in (np.asarray(mol.masses).ravel() if input_masses is None else input_masses)),
        rhe(mol.molecular_charge, 4),
        int(mol.molecular_multiplicity),
        tuple(bool(x) for x in np.asarray(mol.real).ravel()),
        tuple(rhe(x, 8) for x in geom),
        tuple(tuple(int(i) for i in f) for f in mol.fragments),
        tuple(rhe(x, 4) for x in mol.fragment_charges),
        tuple(int(x) for x in mol.fragment_multiplicities),
        bonds,
    )


FIELD_NAMES = ["symbols", "masses", "molecular_charge", "molecular_multiplicity", "real", "geometry", "fragments", "fragment_charges", "fragment_multiplicities", "connectivity"]


def tuple_diff(ta, tb):
    """[(field, index, va, vb)] of differing entries; index None when the shapes differ."""
    out = []
    for name, a, b in zip(FIELD_NAMES, ta, tb):
        if a == b:
            continue
        if isinstance(a, tuple) and isinstance(b, tuple) and len(a) == len(b) and name in KNOISE:
            for i, (x, y) in enumerate(zip(a, b)):
                if x != y:
                    out.append([name, i, x, y])
        else:
            out.append([name, None, str(a)[:80], str(b)[:80]])
    return out


def in_zero_band(n, k) -> bool:
    return abs(n) * 5 ** (k + 1) < 10**k


def is_zero_band_diff(diff) -> bool:
    """only list-valued rounded fields differ and, at every differing entry, both rounded magnitudes are below 5**-(k+1)."""
    if not diff:
        return False
    for name, idx, x, y in diff:
        if name not in KNOISE or idx is None:
            return False
        k = KNOISE[name]
        if not (isinstance(x, int) and isinstance(y, int) and in_zero_band(x, k) and in_zero_band(y, k)):
            return False
    return True


def known_predicate(finding: Finding, entry) -> bool:
    if finding.kind != ZERO_BAND_KIND:
        return False
    obs = finding.observed if isinstance(finding.observed, dict) else {}
    return is_zero_band_diff(obs.get("differing"))


# --------------------------------------------------------------------------------------
# generator: specs (JSON-able) -> kwargs -> Molecule

ELEMS_LIGHT = ["H", "H", "H", "He", "Li", "Be", "B", "C", "C", "C", "N", "N", "O", "O", "F", "Ne", "Na", "Mg", "Al", "Si", "P", "S", "Cl", "Ar"]
ELEMS_HEAVY = ["K", "Ca", "Ti", "Fe", "Cu", "Zn", "Br", "Kr", "Rb", "Zr", "Ag", "I", "Xe", "Cs", "W", "Au", "Hg", "Pb", "Rn", "U"]
SAFE_SUB = [d for d in range(100) if d <= 44 or d >= 56]
ORDERS8 = [4, 8, 8, 8, 12, 16, 16, 20, 24, 10, 6, 32, 40, 1]


def coord_of(v: int) -> float:
    """v counts 1e-10 bohr; the decimal is converted with correct rounding"""
    return float(Decimal(v).scaleb(-10))


def mass_of(v: int) -> float:
    return float(Decimal(v).scaleb(-8))


def gen_spec(rng: random.Random):
    nat = rng.choice([1, 2, 2, 3, 3, 3, 4, 4, 5, 6, 8])
    sites = [(i, j, k) for i in range(-2, 3) for j in range(-2, 3) for k in range(-1, 2)]
    rng.shuffle(sites)
    symbols, v = [], []
    for a in range(nat):
        symbols.append(rng.choice(ELEMS_LIGHT) if rng.random() < 0.75 else rng.choice(ELEMS_HEAVY))
        for g in sites[a]:
            r = rng.random()
            if r < 0.12:
                units = 0  # exactly on the lattice (exact zeros when g == 0)
                sub = 0
            elif r < 0.24:
                units = rng.randint(-60, 60)  # tiny offsets: the neighbourhood of the zero band when g == 0
                sub = rng.choice(SAFE_SUB)
            else:
                units = rng.randint(-30000000, 30000000)
                sub = rng.choice(SAFE_SUB) if rng.random() < 0.8 else 0
            v.append(g * 2 * 10**10 + units * 100 + (sub if units >= 0 else -sub))
    spec = {"symbols": symbols, "v": v, "noise": None, "over": {}}
    spec["real"] = [rng.random() > 0.2 for _ in range(nat)] if rng.random() < 0.35 else None
    spec["masses_delta_v"] = None
    if rng.random() < 0.3:
        # explicit masses: default mass (rounded to 1e-6) + a clearly non-default offset, sub-1e-6 digits away from boundaries
        spec["masses_delta_v"] = [rng.choice([-1, 1]) * (rng.randint(1, 50) * 10**6 + rng.randint(0, 999999) * 100 + rng.choice(SAFE_SUB)) for _ in range(nat)]
        if nat >= 2 and rng.random() < 0.5:
            # ... and some atoms only a few rounding units (1e-6 u) off the tabulated mass: a supplied mass is a listed field
            # whatever it is close to (the rest of the array stays clearly non-default, so the array is kept)
            for a in rng.sample(range(nat), rng.randint(1, nat - 1)):
                spec["masses_delta_v"][a] = rng.choice([-1, 1]) * (rng.choice([0, 1, 2, 5, 15, 40, 150]) * 100 + rng.choice(SAFE_SUB))
    # fragments: contiguous split
    spec["fragments"] = None
    if nat >= 2 and rng.random() < 0.5:
        ncut = rng.choice([1, 1, 2]) if nat >= 3 else 1
        cuts = sorted(rng.sample(range(1, nat), ncut))
        bounds = [0] + cuts + [nat]
        spec["fragments"] = [list(range(bounds[i], bounds[i + 1])) for i in range(len(bounds) - 1)]
    nfr = len(spec["fragments"]) if spec["fragments"] else 1
    spec["molecular_charge"] = rng.choice([None, None, None, 0, 1, -1, 2])
    spec["molecular_multiplicity"] = rng.choice([None, None, None, 1, 2, 3])
    spec["fragment_charges"] = [rng.choice([None, 0, 0, 1, -1]) for _ in range(nfr)] if (spec["fragments"] and rng.random() < 0.4) else None
    spec["fragment_multiplicities"] = None
    spec["connectivity"] = None
    if nat >= 2 and rng.random() < 0.55:
        nb = rng.randint(1, min(6, nat * (nat - 1) // 2 + 1))
        bonds = []
        for _ in range(nb):
            a, b = rng.sample(range(nat), 2)
            bonds.append([a, b, rng.choice(ORDERS8)])
        if rng.random() < 0.25:  # the same pair twice (either orientation), another order
            a, b, o = rng.choice(bonds)
            bonds.append([b, a, rng.choice([x for x in ORDERS8 if x != o])])
        spec["connectivity"] = bonds
    spec["nonhash"] = gen_nonhash(rng, nat)
    return spec


def gen_nonhash(rng, nat):
    nh = {}
    if rng.random() < 0.5:
        nh["name"] = rng.choice(["water", "mol-%d" % rng.randint(0, 99), "x y", ""])
    if rng.random() < 0.3:
        nh["comment"] = rng.choice(["generated", "a comment with [brackets], \"quotes\"", "0.01"])
    if rng.random() < 0.3:
        nh["extras"] = {"k": rng.randint(0, 9), "l": [1, 2.5]}
    if rng.random() < 0.45:
        ids = {}
        if rng.random() < 0.5:
            ids["smiles"] = rng.choice(["O", "C#N", "[H][H]"])
        if rng.random() < 0.75:  # a stored hash string that is NOT this molecule's (stale / foreign): never part of the identity
            ids["molecule_hash"] = rng.choice(["0" * 40, "%040x" % rng.getrandbits(160), "da39a3ee5e6b4b0d3255bfef95601890afd80709"])
        if rng.random() < 0.4:
            ids["molecular_formula"] = rng.choice(["H2O", "CH4", "He", "C2H6O"])
        if ids:
            nh["identifiers"] = ids
    if rng.random() < 0.2:
        nh["provenance"] = {"creator": "c11", "version": "1.%d" % rng.randint(0, 9), "routine": "gen"}
    if rng.random() < 0.2:
        nh["atom_labels"] = [rng.choice(["", "a", "b1", "_x", "7"]) for _ in range(nat)]
    nh["fix_com"] = rng.random() < 0.5
    nh["fix_orientation"] = rng.random() < 0.5
    if rng.random() < 0.15:
        nh["fix_symmetry"] = rng.choice(["c1", "c2v"])
    return nh


def geometry_of(spec):
    g = [coord_of(x) for x in spec["v"]]
    if spec.get("noise"):
        g = [x + d for x, d in zip(g, spec["noise"])]
    for k, val in (spec.get("over") or {}).items():
        g[int(k)] = float(val)
    return g


def default_mass6(sym) -> int:
    import qcelemental as qcel

    return round(Fraction(float(qcel.periodictable.to_mass(sym))) * 10**6)


def masses_of(spec):
    if spec.get("masses_delta_v") is None:
        return None
    return [mass_of(default_mass6(s) * 100 + d) for s, d in zip(spec["symbols"], spec["masses_delta_v"])]


def kwargs_of(spec):
    kw = {"symbols": list(spec["symbols"]), "geometry": geometry_of(spec)}
    if spec.get("real") is not None:
        kw["real"] = list(spec["real"])
    m = masses_of(spec)
    if m is not None:
        kw["masses"] = m
    for key in ("fragments", "molecular_charge", "molecular_multiplicity", "fragment_charges", "fragment_multiplicities"):
        if spec.get(key) is not None:
            kw[key] = copy.deepcopy(spec[key])
    if spec.get("connectivity") is not None:
        kw["connectivity"] = [(a, b, o / 8.0) for a, b, o in spec["connectivity"]]
    kw.update(copy.deepcopy(spec.get("nonhash") or {}))
    return kw


def build(spec):
    from qcelemental.models import Molecule

    with quiet(), warnings.catch_warnings():
        warnings.simplefilter("ignore")
        return Molecule(**kwargs_of(spec))


def relax_chgmult(spec):
    s = copy.deepcopy(spec)
    for key in ("molecular_charge", "molecular_multiplicity", "fragment_charges", "fragment_multiplicities"):
        s[key] = None
    return s


def pin_chgmult(spec, mol):
    """the completed charges/multiplicities become part of the spec (so that twins state them explicitly)"""
    s = copy.deepcopy(spec)
    s["molecular_charge"] = float(mol.molecular_charge)
    s["molecular_multiplicity"] = int(mol.molecular_multiplicity)
    if s.get("fragments"):
        s["fragment_charges"] = [float(x) for x in mol.fragment_charges]
        s["fragment_multiplicities"] = [int(x) for x in mol.fragment_multiplicities]
    else:
        s["fragment_charges"] = None
        s["fragment_multiplicities"] = None
    return s


# ---- must-be-equal twins ------------------------------------------------------------------


def twin_noise(rng, spec):
    s = copy.deepcopy(spec)
    s["noise"] = [rng.uniform(-1e-10, 1e-10) for _ in spec["v"]]
    return s


def zero_like_indices(spec):
    return [i for i, x in enumerate(spec["v"]) if abs(x) <= 44]


def twin_signzero(rng, spec):
    idx = zero_like_indices(spec)
    s = copy.deepcopy(spec)
    changed = False
    for i in idx:
        s["over"][str(i)] = rng.choice([0.0, -0.0, -0.0, 1e-9, -1e-9, 3e-9, -3e-9, 4.4e-9, -4.4e-9, -1e-12, 5e-324, -5e-324])
        changed = True
    if s.get("molecular_charge") == 0 and rng.random() < 0.7:
        s["molecular_charge"] = -0.0
        changed = True
    if s.get("fragment_charges"):
        fc = [(-0.0 if (x == 0 and rng.random() < 0.7) else x) for x in s["fragment_charges"]]
        if any(math.copysign(1.0, x) < 0 and x == 0 for x in fc if x is not None):
            changed = True
        s["fragment_charges"] = fc
    return s if changed else None


def twin_bonds(rng, spec):
    if not spec.get("connectivity"):
        return None
    s = copy.deepcopy(spec)
    b = [list(x) for x in s["connectivity"]]
    for _ in range(4):
        rng.shuffle(b)
        b = [[y, x, o] if rng.random() < 0.5 else [x, y, o] for x, y, o in b]
        if b != spec["connectivity"]:
            break
    if rng.random() < 0.3:
        b = list(reversed([list(x) for x in spec["connectivity"]]))
    s["connectivity"] = b
    return s


def twin_nonhash(rng, spec):
    s = copy.deepcopy(spec)
    nat = len(spec["symbols"])
    for _ in range(5):
        s["nonhash"] = gen_nonhash(rng, nat)
        if rng.random() < 0.5:
            s["nonhash"]["name"] = "renamed-%d" % rng.randint(0, 999)
        if s["nonhash"] != spec["nonhash"]:
            return s
    return s


# ---- must-differ single edits ---------------------------------------------------------------


def neighbours_same_parity(sym):
    import qcelemental as qcel

    z = int(qcel.periodictable.to_Z(sym))
    out = []
    for dz in (2, -2, 4, -4, 8):
        if 1 <= z + dz <= 86:
            out.append(qcel.periodictable.to_E(z + dz))
    return out


def edits(rng, spec, mol):
    """yield (label, spec') — each is the pinned base spec with ONE listed field changed above its rounding unit."""
    nat = len(spec["symbols"])
    # coordinate +-1e-6
    for _ in range(2):
        s = copy.deepcopy(spec)
        i = rng.randrange(len(s["v"]))
        s["v"][i] += rng.choice([-10000, 10000])
        s["over"].pop(str(i), None)
        yield "edit:coordinate", s
    # a coordinate inside the zero band's neighbourhood, if there is one: -5e-7 <-> +5e-7 is an edit of 1e-6
    tiny = [i for i, x in enumerate(spec["v"]) if abs(x) <= 6100 and str(i) not in spec["over"]]
    if tiny:
        s = copy.deepcopy(spec)
        i = rng.choice(tiny)
        s["v"][i] += 10000 if s["v"][i] <= 0 else -10000
        yield "edit:coordinate_tiny", s
    # symbol
    s = copy.deepcopy(spec)
    i = rng.randrange(nat)
    nb = neighbours_same_parity(s["symbols"][i])
    if nb:
        s["symbols"][i] = rng.choice(nb)
        yield "edit:symbol", s
    # mass: all masses explicit, one moved by > 1e-6 (far enough not to be taken for the default)
    s = copy.deepcopy(spec)
    i = rng.randrange(nat)
    if s.get("masses_delta_v") is None:
        s["masses_delta_v"] = [0] * nat
        s["masses_delta_v"][i] = rng.choice([-1, 1]) * rng.randint(5, 40) * 10**6
    else:
        s["masses_delta_v"][i] += rng.choice([-1, 1]) * rng.choice([200, 300, 1000, 10**5, 10**7])
    yield "edit:mass", s
    # charge (the fragment charges follow: re-completed by validation)
    for dc in rng.sample([2, -2, 1, -1], 2):
        s = relax_chgmult(spec)
        s["molecular_charge"] = float(mol.molecular_charge) + dc
        yield "edit:charge", s
    # multiplicity
    s = relax_chgmult(spec)
    s["molecular_charge"] = float(mol.molecular_charge)
    s["molecular_multiplicity"] = int(mol.molecular_multiplicity) + 2
    yield "edit:multiplicity", s
    # ghost flag
    s = relax_chgmult(spec)
    real = [bool(x) for x in mol.real]
    i = rng.randrange(nat)
    real[i] = not real[i]
    s["real"] = real
    yield "edit:ghost", s
    # fragment boundary
    if nat >= 2:
        s = relax_chgmult(spec)
        if not s.get("fragments"):
            c = rng.randrange(1, nat)
            s["fragments"] = [list(range(0, c)), list(range(c, nat))]
        else:
            bounds = [f[0] for f in s["fragments"]][1:]
            j = rng.randrange(len(bounds))
            cand = [b for b in (bounds[j] - 1, bounds[j] + 1) if 0 < b < nat and b not in bounds]
            if cand:
                bounds[j] = rng.choice(cand)
            else:
                bounds.pop(j)
            bounds = [0] + sorted(bounds) + [nat]
            fr = [list(range(bounds[k], bounds[k + 1])) for k in range(len(bounds) - 1)]
            s["fragments"] = fr if len(fr) > 1 else None
        yield "edit:fragment_boundary", s
    # bonds
    if nat >= 2:
        s = copy.deepcopy(spec)
        if not s.get("connectivity"):
            a, b = rng.sample(range(nat), 2)
            s["connectivity"] = [[a, b, rng.choice(ORDERS8)]]
            yield "edit:bond_added", s
        else:
            j = rng.randrange(len(s["connectivity"]))
            o = s["connectivity"][j][2]
            s["connectivity"][j][2] = o + 4 if o + 4 <= 40 else o - 4
            yield "edit:bond_order", s
            if len(spec["connectivity"]) > 1:
                s2 = copy.deepcopy(spec)
                s2["connectivity"].pop(rng.randrange(len(s2["connectivity"])))
                yield "edit:bond_removed", s2
            s3 = copy.deepcopy(spec)
            j = rng.randrange(len(s3["connectivity"]))
            a, b, o = s3["connectivity"][j]
            others = [x for x in range(nat) if x not in (a, b)]
            if others:
                s3["connectivity"][j] = [a, rng.choice(others), o]
                yield "edit:bond_atom", s3


# ---- construction routes ----------------------------------------------------------------------

ENCODINGS = ["json", "json-ext", "msgpack", "msgpack-ext"]
ROUTES_ALWAYS = ["dict", "from_data_dict", "revalidate"] + ["enc:" + e for e in ENCODINGS] + ["file:.json", "file:.msgpack"]
ROUTES_TEXT = ["text:psi4:Bohr", "text:psi4:Angstrom", "file:.psimol", "file:.psi4"]
ROUTES_PLAIN = ["file:.xyz", "file:.npy", "text:xyz:Angstrom"]


def text_ok(mol) -> bool:
    d = mol.__dict__
    return d.get("masses_") is None and d.get("atom_labels_") is None


def plain_ok(mol) -> bool:
    d = mol.__dict__
    return (
        text_ok(mol)
        and d.get("real_") is None
        and d.get("fragments_") is None
        and float(mol.molecular_charge) == 0.0
        and d.get("connectivity_") is None
        and int(mol.molecular_multiplicity) == default_multiplicity(mol)
    )


def default_multiplicity(mol) -> int:
    import qcelemental as qcel

    z = sum(int(qcel.periodictable.to_Z(str(s))) for s in mol.symbols)
    return 1 + z % 2


def via_route(route, mol, workdir, rng=None):
    """re-create `mol` through a storage/transport route; molecules with bonds go through text by re-attaching the bonds to a re-validated dict"""
    from qcelemental.models import Molecule

    if route.startswith("x:"):
        return apply_recipe(mol, json.loads(route[2:]))
    with quiet(), warnings.catch_warnings():
        warnings.simplefilter("ignore")
        if route == "dict":
            return Molecule(**mol.dict())
        if route == "from_data_dict":
            return Molecule.from_data(mol.dict())
        if route == "revalidate":
            d = mol.dict()
            d.pop("validated", None)
            return Molecule(**d)
        if route.startswith("enc:"):
            e = route[4:]
            return Molecule.parse_raw(mol.serialize(e), encoding=e)
        conn = mol.__dict__.get("connectivity_")
        bare = mol
        if conn is not None and (route.startswith("text:") or route in ("file:.psimol", "file:.psi4")):
            d = mol.dict()
            d.pop("connectivity", None)
            bare = Molecule(**d)
        if route.startswith("text:"):
            _, dt, un = route.split(":")
            got = Molecule.from_data(bare.to_string(dt, units=un), dtype=dt)
        elif route.startswith("file:"):
            ext = route[5:]
            p = os.path.join(workdir, "m" + ext)
            bare.to_file(p)
            got = Molecule.from_file(p)
        else:
            raise KeyError(route)
        if bare is not mol:
            d = got.dict()
            d.pop("validated", None)
            bl = [tuple(x) for x in conn]
            if rng is not None:
                rng.shuffle(bl)
                bl = [(b, a, o) if rng.random() < 0.5 else (a, b, o) for a, b, o in bl]
            d["connectivity"] = bl
            got = Molecule(**d)
        return got


# ---- derived routes: a stored record (possibly carrying identifiers) re-enters through a route that does NOT re-validate ------
# route string = "x:" + json of the recipe, so that a replay rebuilds exactly the same object from the base spec.
#   ids     : None | "true" (this molecule's own hash/formula, as a database hands a record back) | "stale" | "foreign"
#   mislead : name / comment / extras / provenance filled with hash-like strings
#   how     : "none" | "copy_update" | "dict" | "dict_novalidate" | "dict_validate" | "from_data_dict" | "json_text" | "enc:<encoding>"
#   set     : {field (alias name): new value} applied to the record on that route (identifiers ride along untouched)

IDS_MODES = ["true", "stale", "foreign"]
RECORD_HOWS = ["copy_update", "dict", "dict_novalidate", "from_data_dict", "json_text"] + ["enc:" + e for e in ENCODINGS]
EDIT_HOWS = ["copy_update", "copy_update", "dict", "dict", "dict_novalidate", "dict_validate", "from_data_dict", "json_text", "enc:json", "enc:msgpack-ext"]
ATTR_OF = {"symbols": "symbols", "geometry": "geometry", "masses": "masses_", "real": "real_", "molecular_charge": "molecular_charge",
           "molecular_multiplicity": "molecular_multiplicity", "fragments": "fragments_", "fragment_charges": "fragment_charges_",
           "fragment_multiplicities": "fragment_multiplicities_", "connectivity": "connectivity_"}


def ids_for(mode, mol):
    h, f = mol.get_hash(), mol.get_molecular_formula()
    if mode == "true":
        return {"molecule_hash": h, "molecular_formula": f}
    if mode == "stale":
        return {"molecule_hash": hashlib.sha1((h + "/stale").encode()).hexdigest(), "molecular_formula": "CH4" if f != "CH4" else "H2O"}
    if mode == "foreign":
        return {"molecule_hash": "0" * 40, "molecular_formula": f, "smiles": "O"}
    raise KeyError(mode)


def _obj_value(field, v):
    """JSON-able recipe value -> what a Molecule attribute / constructor keyword holds"""
    if field == "geometry":
        return np.array(v, dtype=float).reshape(-1, 3)
    if field == "symbols":
        return np.array(v, dtype=str)
    if field in ("masses", "fragment_charges"):
        return np.array(v, dtype=float) if field == "masses" else [float(x) for x in v]
    if field == "real":
        return np.array(v, dtype=bool)
    if field == "fragments":
        return [np.array(f, dtype=np.int32) for f in v]
    if field == "fragment_multiplicities":
        return [int(x) for x in v]
    if field == "connectivity":
        return [(int(a), int(b), float(o)) for a, b, o in v]
    if field == "molecular_charge":
        return float(v)
    if field == "molecular_multiplicity":
        return int(v)
    raise KeyError(field)


def apply_recipe(mol, rec):
    from qcelemental.models import Molecule
    from qcelemental.util import deserialize, serialize

    with quiet(), warnings.catch_warnings():
        warnings.simplefilter("ignore")
        src = mol
        if rec.get("ids") or rec.get("mislead"):
            d = copy.deepcopy(mol.dict())
            if rec.get("ids"):
                d["identifiers"] = ids_for(rec["ids"], mol)
            if rec.get("mislead"):
                h = mol.get_hash()
                d["name"] = h
                d["comment"] = "molecule_hash=" + "f" * 40
                d["extras"] = {"molecule_hash": "0" * 40, "hash": h, "molecular_formula": "H2O"}
                d["provenance"] = {"creator": "database", "version": "1", "routine": h}
            src = Molecule(**d)  # validated=True rides in the dict: stored as handed over
        how = rec.get("how", "none")
        new = rec.get("set") or {}
        if how == "none":
            return src
        if how == "copy_update":
            return src.copy(update={ATTR_OF[k]: _obj_value(k, v) for k, v in new.items()})
        if how in ("dict", "dict_novalidate", "dict_validate", "from_data_dict"):
            d = copy.deepcopy(src.dict())
            for k, v in new.items():
                d[k] = _obj_value(k, v)
            if how == "dict":
                return Molecule(**d)
            if how == "dict_novalidate":
                return Molecule(validate=False, **d)
            if how == "dict_validate":
                d.pop("validated", None)
                return Molecule(validate=True, **d)
            return Molecule.from_data(d)
        if how == "json_text":
            js = json.loads(src.json())
            for k, v in new.items():
                js[k] = v
            return Molecule.from_data(json.dumps(js), dtype="json")
        if how.startswith("enc:"):
            e = how[4:]
            payload = deserialize(src.serialize(e), e)
            for k, v in new.items():
                payload[k] = np.array(v, dtype=float) if (e.endswith("-ext") and k in ("geometry", "masses")) else v
            return Molecule.parse_raw(serialize(payload, e), encoding=e)
        raise KeyError(how)


def record_perturbations(rng, mol):
    """(family, {field: value}) — the property's perturbations applied to the STORED record of `mol`:
    noise <= 1e-10 on every coordinate (stored coordinates are multiples of 1e-8: far from a rounding boundary),
    +-0 and |x| < 5e-9 on the coordinates stored as 0, -0.0 on zero charges, noise <= 3e-5 (either sign) on the total and the
    fragment charges."""
    g = [float(x) for x in np.asarray(mol.geometry).ravel()]
    out = [("noise", {"geometry": [x + rng.uniform(-1e-10, 1e-10) for x in g]})]
    # sub-rounding noise on the charges (rounding unit 1e-4; the scalar total goes through float_prep's scalar branch, the
    # fragment charges through its array branch): both signs, down to 1e-12 and up to 3e-5 (< half a unit)
    c0 = float(mol.molecular_charge)
    out.append(("noise", {"molecular_charge": c0 + rng.choice([-1e-12, 1e-12, -1e-9, 1e-9, -3e-5, 3e-5, -2e-5])}))
    fc0 = [float(x) for x in mol.fragment_charges]
    out.append(("noise", {"fragment_charges": [x + rng.choice([-1e-9, 1e-9, -1e-12, 2e-5, -2e-5]) for x in fc0]}))
    zi = [i for i, x in enumerate(g) if x == 0.0]
    new = {}
    if zi:
        g2 = list(g)
        for i in zi:
            g2[i] = rng.choice([-0.0, -0.0, 0.0, 1e-9, -1e-9, 3e-9, -3e-9, 4.4e-9, -4.4e-9, -1e-12, 5e-324, -5e-324])
        if any(math.copysign(1.0, a) != math.copysign(1.0, b) or a != b for a, b in zip(g, g2)):
            new["geometry"] = g2
    if float(mol.molecular_charge) == 0.0 and rng.random() < 0.6:
        new["molecular_charge"] = -0.0
    fc = [float(x) for x in mol.fragment_charges]
    if any(x == 0.0 for x in fc) and rng.random() < 0.6:
        new["fragment_charges"] = [(-0.0 if x == 0.0 else x) for x in fc]
    if new:
        out.append(("signzero", new))
    return out


def record_edits(rng, mol):
    """(field, {field: value}) — ONE listed field of the stored record changed above its rounding unit (alias names)."""
    nat = len(mol.symbols)
    g = [float(x) for x in np.asarray(mol.geometry).ravel()]
    out = []
    i = rng.randrange(len(g))
    g2 = list(g)
    g2[i] = float(Decimal(repr(g[i])) + Decimal(rng.choice(["1e-6", "-1e-6"])))
    out.append(("geometry", {"geometry": g2}))
    syms = [str(x) for x in mol.symbols]
    j = rng.randrange(nat)
    nb = neighbours_same_parity(syms[j])
    if nb:
        s2 = list(syms)
        s2[j] = rng.choice(nb)
        out.append(("symbols", {"symbols": s2}))
    ms = [float(x) for x in mol.masses]
    j = rng.randrange(nat)
    ms[j] = float(Decimal(repr(round(ms[j], 6))) + Decimal(rng.choice(["0.001", "-0.001", "0.000002"])))
    out.append(("masses", {"masses": ms}))
    out.append(("molecular_charge", {"molecular_charge": float(mol.molecular_charge) + rng.choice([1.0, -1.0, 2.0])}))
    out.append(("molecular_multiplicity", {"molecular_multiplicity": int(mol.molecular_multiplicity) + 2}))
    real = [bool(x) for x in mol.real]
    j = rng.randrange(nat)
    real[j] = not real[j]
    out.append(("real", {"real": real}))
    fr = [[int(i) for i in f] for f in mol.fragments]
    if len(fr) >= 2:
        k = rng.randrange(len(fr) - 1)
        if len(fr[k]) >= 2:
            fr2 = copy.deepcopy(fr)
            fr2[k + 1].insert(0, fr2[k].pop())
            out.append(("fragments", {"fragments": fr2}))
        elif len(fr[k + 1]) >= 2:
            fr2 = copy.deepcopy(fr)
            fr2[k].append(fr2[k + 1].pop(0))
            out.append(("fragments", {"fragments": fr2}))
    conn = mol.connectivity
    if conn:
        c2 = [[int(a), int(b), float(o)] for a, b, o in conn]
        j = rng.randrange(len(c2))
        c2[j][2] = c2[j][2] + 0.5 if c2[j][2] + 0.5 <= 5 else c2[j][2] - 0.5
        # a stored record keeps its bonds in canonical form (validation sorts them; a hand-made unsorted list inside an
        # un-revalidated record is not a validated molecule: outside the quantifier, as DESIGN A.3 records for from_data(text, connectivity=))
        c2 = [list(t) for t in sorted((min(a, b), max(a, b), o) for a, b, o in c2)]
        out.append(("connectivity", {"connectivity": c2}))
    elif nat >= 2:
        a, b = sorted(rng.sample(range(nat), 2))
        out.append(("connectivity", {"connectivity": [[a, b, 1.0]]}))
    return out


# --------------------------------------------------------------------------------------
# group evaluation


class Member:
    __slots__ = ("label", "spec", "route", "mol", "hash", "rt", "rt_in", "expect")

    def __init__(self, label, spec, route, mol, expect):
        self.label, self.spec, self.route, self.mol, self.expect = label, spec, route, mol, expect
        self.hash = mol.get_hash()
        ig = im = None
        ib = "stored"
        if route == "kwargs" and isinstance(spec, dict) and "v" in spec:
            ig = geometry_of(spec)
            im = masses_of(spec)
            ib = spec.get("connectivity")
        elif route == "kwargs-literal" and isinstance(spec.get("kwargs"), dict):
            ig = [float(x) for x in spec["kwargs"]["geometry"]]
        self.rt = rounded_tuple(mol)  # the stored attributes
        self.rt_in = rounded_tuple(mol, ig, im, ib) if ig is not None else None  # identity of what was handed to the constructor


CLAUSE_KIND = {
    "route": "oracle:route_changes_hash",
    "noise": "oracle:noise_changes_hash",
    "signzero": "oracle:sign_of_zero_changes_hash",
    "bonds": "oracle:bond_listing_changes_hash",
    "nonhash": "oracle:nonhash_field_changes_hash",
    "ids": "oracle:nonhash_field_changes_hash",
}


def case_of(base: Member, other: Member, seed_note=None):
    c = {"block": "pair", "a": {"spec": base.spec, "route": base.route}, "b": {"spec": other.spec, "route": other.route}, "clause": other.label}
    if seed_note is not None:
        c["note"] = seed_note
    return c


EQ_FORMS = ["a==b", "b==a", "a!=b", "b!=a", "a==b.dict()", "b==a.dict()", "a==kwargs(b)"]


def check_eq(out: Outcome, a: Member, b: Member, heq: bool, forms) -> bool:
    """"same hash - AND compare equal - exactly when ...": every requested form of ==/!= (both operand orders, molecule and
    dict operand) must say what hash equality says, whatever the non-hash fields (identifiers, name, extras ...) carry."""
    got = {}
    try:
        with quiet(), warnings.catch_warnings():
            warnings.simplefilter("ignore")
            for f in forms:
                if f == "a==b":
                    got[f] = bool(a.mol == b.mol)
                elif f == "b==a":
                    got[f] = bool(b.mol == a.mol)
                elif f == "a!=b":
                    got[f] = not bool(a.mol != b.mol)
                elif f == "b!=a":
                    got[f] = not bool(b.mol != a.mol)
                elif f == "a==b.dict()":
                    got[f] = bool(a.mol == b.mol.dict())
                elif f == "b==a.dict()":
                    got[f] = bool(b.mol == a.mol.dict())
                elif f == "a==kwargs(b)":
                    # the dictionary operand as a caller writes it (the very keyword arguments b was built from: unvalidated,
                    # bonds in any orientation/order, charges left to the validator), not b's own validated record
                    if b.route != "kwargs" or not isinstance(b.spec, dict) or "v" not in b.spec:
                        continue
                    got[f] = bool(a.mol == kwargs_of(b.spec))
                out.count("eq_form:" + f)
    except Exception as e:  # noqa
        out.violations.append(Finding("oracle:eq_raises", case_of(a, b), observed=err_class(e), detail="==/!= raised on two molecules"))
        return False
    bad = {f: v for f, v in got.items() if v != heq}
    if bad:
        out.violations.append(
            Finding("oracle:eq_vs_hash", case_of(a, b), observed={"says_equal": got, "hash_equal": heq, "hash_a": a.hash, "hash_b": b.hash},
                    expected="every form of ==/!= agrees with get_hash() equality", detail="==/!= disagrees with hash equality: " + ", ".join(sorted(bad)))
        )
        return False
    return True


def judge_pair(out: Outcome, a: Member, b: Member, clause: str, expect: str | None, inputs=False):
    """the pairwise iff, plus the clause's own expectation (same / None = whatever the fields say).
    inputs=True: both were built from keyword arguments; their identity is that of the coordinates handed in."""
    heq = a.hash == b.hash
    use_in = inputs and a.rt_in is not None and b.rt_in is not None
    ta, tb = (a.rt_in, b.rt_in) if use_in else (a.rt, b.rt)
    teq = ta == tb
    check_eq(out, a, b, heq, forms=EQ_FORMS)
    if expect == "same" and not heq:
        fam = clause.split(":")[0]
        out.violations.append(
            Finding(CLAUSE_KIND.get(fam, "oracle:not_canonical"), case_of(a, b), observed={"hash_a": a.hash, "hash_b": b.hash, "differing": tuple_diff(ta, tb)},
                    expected="equal hashes", detail=f"{clause}: molecules that must be identical hash differently")
        )
        return
    if teq and not heq:
        out.violations.append(
            Finding("oracle:not_canonical", case_of(a, b), observed={"hash_a": a.hash, "hash_b": b.hash}, expected="equal hashes",
                    detail=f"{clause}: all listed fields agree after rounding but the hashes differ")
        )
    if heq and not teq:
        diff = tuple_diff(ta, tb)
        if is_zero_band_diff(diff):
            out.count("zero_band_collision_pairs")
            out.violations.append(
                Finding(ZERO_BAND_KIND, case_of(a, b), observed={"hash": a.hash, "differing": diff}, expected="different hashes",
                        detail="entries differ by more than the rounding unit but both lie below 5**-(k+1) and are zeroed by float_prep")
            )
        else:
            out.violations.append(
                Finding("oracle:edit_keeps_hash", case_of(a, b), observed={"hash": a.hash, "differing": diff}, expected="different hashes",
                        detail=f"{clause}: listed fields differ after rounding but the hashes are equal")
            )


def tie_lines_for(mem: Member, lines, checks):
    """queue the model lines for one molecule"""
    canon, pre = impl_record(mem.mol)
    lines.append(enc_hash_line(mem.mol))
    checks.append(("hash", mem, canon, pre))
    if mem.route == "kwargs":
        g = geometry_of(mem.spec)
        conn = mem.spec.get("connectivity")
        cs = "N" if conn is None else ";".join(f"{a},{b},{qstr(Fraction(o, 8))}" for a, b, o in conn)
        lines.append("cons|" + " ".join(dstr(x) for x in g) + "|" + cs)
        stored = " ".join(rd_str(x, 8) for x in np.asarray(mem.mol.geometry).ravel())
        checks.append(("cons", mem, stored + "|" + bonds_str(mem.mol.connectivity) + "|" + stored, None))


def split_voices(ml, n):
    """a driver answer `<hand model>[TAB ...]` -> its n TAB-separated voices (hand model first, source-derived after), or None"""
    parts = ml.split("\t") if isinstance(ml, str) else []
    return parts if len(parts) == n else None


def compare_tie(out: Outcome, checks, model):
    """THREE-WAY on every line: implementation vs hand model (Model/Hash.lean) vs source-derived (the evaluator of Model/HashAst.lean at the
    terms harness/c11_src.py re-read from the source on this run).  Each voice is compared with the implementation separately."""
    for (kind, mem, exp, pre), ml in zip(checks, model):
        case = {"block": "single", "spec": mem.spec, "route": mem.route, "op": kind}
        if kind == "hash":
            voices = split_voices(ml[3:], 4) if ml.startswith("ok ") else None
            if voices is None:
                out.mismatches.append(Finding("mismatch:hash", case, observed=exp[:300], expected=ml[:300], detail="model rejected the molecule"))
                continue
            mc, mp, sc, sp = voices
            # --- source-derived voice
            if sc != exp:
                out.mismatches.append(Finding("mismatch:src_canon", case, observed=exp[:600], expected=sc[:600], detail="canonical fields: implementation vs SOURCE-DERIVED get_hash loop (Gen/HashSrc.lean)"))
            elif sp != pre:
                out.mismatches.append(Finding("mismatch:src_preimage", case, observed=pre[:600], expected=sp[:600], detail="json preimage: implementation vs SOURCE-DERIVED get_hash loop (Gen/HashSrc.lean)"))
            else:
                out.count("tie:src_hash_ok")
            # --- hand model
            if mc != exp:
                out.mismatches.append(Finding("mismatch:canon", case, observed=exp[:600], expected=mc[:600], detail="canonical fields: implementation (float_prep on the attributes) vs Lean model"))
            elif mp != pre:
                out.mismatches.append(Finding("mismatch:preimage", case, observed=pre[:600], expected=mp[:600], detail="json preimage: implementation vs Lean model"))
            elif hashlib.sha1(mp.encode("utf-8")).hexdigest() != mem.hash:
                out.mismatches.append(Finding("mismatch:sha1", case, observed=mem.hash, expected=hashlib.sha1(mp.encode()).hexdigest(), detail="get_hash() is not sha1 of the model's preimage"))
            else:
                out.count("tie:hash_ok")
                if out.distribution.get("tie:hash_ok", 0) in (1, 400):
                    out.sample({"route": mem.route, "label": mem.label, "canon": mc[:300], "preimage": mp[:300], "source_derived_preimage_equal": sp == mp, "get_hash": mem.hash})
        else:
            voices = split_voices(ml, 2)
            if voices is None:
                out.mismatches.append(Finding("mismatch:construct", case, observed=exp[:600], expected=ml[:600], detail="driver answer without the source-derived voice"))
                continue
            hand, src = voices
            if src != "ok " + exp:
                out.mismatches.append(Finding("mismatch:src_construct", case, observed=exp[:600], expected=src[:600], detail="stored geometry / connectivity after construction vs SOURCE-DERIVED __init__ rounding + from_arrays connectivity block (Gen/HashSrc.lean)"))
            else:
                out.count("tie:src_construct_ok")
            if hand != "ok " + exp:
                out.mismatches.append(Finding("mismatch:construct", case, observed=exp[:600], expected=hand[:600], detail="stored geometry / connectivity after construction vs Lean model (pre-rounding, bond canonicalisation)"))
            else:
                out.count("tie:construct_ok")


def compare_prep(out: Outcome, case, exp, ml):
    """float_prep value stream, three-way"""
    voices = split_voices(ml, 2)
    if voices is None:
        out.mismatches.append(Finding("mismatch:float_prep", case, observed=exp, expected=ml, detail="driver answer without the source-derived voice"))
        return
    hand, src = voices
    if src != exp:
        out.mismatches.append(Finding("mismatch:src_float_prep", case, observed=exp, expected=src, detail="float_prep (implementation) vs SOURCE-DERIVED float_prep body (Gen/HashSrc.lean)"))
    else:
        out.count("tie:src_prep_ok")
    if hand != exp:
        out.mismatches.append(Finding("mismatch:float_prep", case, observed=exp, expected=hand, detail="float_prep (implementation) vs prepArr/prepScalar (model)"))


def run_group(ctx, out: Outcome, rng, spec0, workdir, lines, checks, tag="gen"):
    """one base molecule with all its twins, edits and routes"""
    try:
        base_mol = build(spec0)
    except Exception as e:  # noqa
        out.count("base_rejected:" + err_class(e))
        spec0 = relax_chgmult(spec0)
        try:
            base_mol = build(spec0)
        except Exception as e2:  # noqa
            out.count("base_rejected_twice:" + err_class(e2))
            return
    spec = pin_chgmult(spec0, base_mol)
    try:
        pinned_mol = build(spec)
    except Exception as e:  # noqa
        out.count("pinned_rejected:" + err_class(e))
        return
    base = Member("base", spec0, "kwargs", base_mol, None)
    members = [base]
    out.count("groups")
    out.count("natoms:%d" % len(spec["symbols"]))
    for feat, on in (("ghosts", spec.get("real") is not None and not all(spec["real"])), ("explicit_masses", spec.get("masses_delta_v") is not None),
                     ("fragments", bool(spec.get("fragments"))), ("bonds", bool(spec.get("connectivity"))), ("charged", float(base_mol.molecular_charge) != 0),
                     ("zero_coordinate", bool(zero_like_indices(spec))), ("tiny_coordinate", any(44 < abs(x) <= 6100 for x in spec["v"]))):
        if on:
            out.count("feature:" + feat)
    pinned = Member("pinned", spec, "kwargs", pinned_mol, "same")
    members.append(pinned)

    def add(label, s, expect, route="kwargs", mol=None):
        try:
            m = mol if mol is not None else build(s)
        except Exception as e:  # noqa
            out.count(f"rejected:{label}:{err_class(e)}")
            return None
        mem = Member(label, s, route, m, expect)
        members.append(mem)
        out.count("member:" + label.split("/")[0])
        return mem

    # twins
    for label, fn in (("noise", twin_noise), ("signzero", twin_signzero), ("bonds", twin_bonds), ("nonhash", twin_nonhash)):
        for _ in range(2 if label in ("noise", "bonds") else 1):
            s = fn(rng, spec)
            if s is not None:
                add(label, s, "same")
    # combined twin
    s = twin_noise(rng, spec)
    s = twin_bonds(rng, s) or s
    s = twin_nonhash(rng, s)
    add("noise+bonds+nonhash", s, "same")
    # routes (from the pinned molecule and from one twin)
    sources = [pinned]
    tw = [m for m in members if m.label in ("bonds", "noise+bonds+nonhash")]
    if tw:
        sources.append(rng.choice(tw))
    for src in sources:
        routes = list(ROUTES_ALWAYS)
        if text_ok(src.mol):
            routes += ROUTES_TEXT
            if plain_ok(src.mol):
                routes += ROUTES_PLAIN
        if src is not pinned:
            routes = rng.sample(routes, min(4, len(routes)))
        for r in routes:
            try:
                got = via_route(r, src.mol, workdir, rng=random.Random(rng.getrandbits(32)))
            except Exception as e:  # noqa  (parsers / writers are C07's and C10's subject)
                out.count(f"route_error:{r}:{err_class(e)}")
                continue
            mem = Member("route:" + r, src.spec, r, got, "same")
            members.append(mem)
            out.count("member:route:" + r)
    # ---- stored records: identifiers (true / stale / foreign) and hash-like strings in other non-hash fields ride along
    def derived(label, rec, expect):
        route = "x:" + json.dumps(rec, sort_keys=True)
        try:
            m = apply_recipe(pinned_mol, json.loads(route[2:]))
        except Exception as e:  # noqa
            out.count(f"rejected:{':'.join(label.split(':')[:2])}:{err_class(e)}")
            return None
        mem = Member(label, spec, route, m, expect)
        members.append(mem)
        out.count("member:" + ":".join(label.split(":")[:2]))
        return mem

    for mode in IDS_MODES:
        derived("ids:" + mode, {"ids": mode, "mislead": mode == "foreign", "how": "none"}, "same")
    # ---- the property's perturbations on records entering through routes that skip constructor rounding
    perts = record_perturbations(rng, pinned_mol)
    for fam, new in perts:
        for how in rng.sample(RECORD_HOWS, 4 if fam == "noise" else 3):
            derived(f"{fam}:record:{how}", {"ids": rng.choice([None, None, "true"]), "how": how, "set": new}, "same")
    # ---- copy-with-edit of a record that carries its (then stale) identifiers: one listed field changed
    redits = record_edits(rng, pinned_mol)
    for field, new in rng.sample(redits, min(5, len(redits))):
        how = rng.choice(EDIT_HOWS)
        derived(f"cedit:{field}:{how}", {"ids": rng.choice(["true", "true", "stale", None]), "mislead": rng.random() < 0.3, "how": how, "set": new}, "diff")
    # edits
    for label, s in edits(rng, spec, pinned_mol):
        add(label, s, "diff")

    # ---- oracle
    for m in members[1:]:
        clause = m.label
        expect = m.expect
        if expect == "diff":
            if m.rt_in == pinned.rt_in:
                out.count("edit_without_effect:" + clause)
            expect = None  # the pairwise iff on the inputs decides (zero band -> its own kind)
        judge_pair(out, pinned if m is not pinned else base, m, clause, expect, inputs=True)
        out.evaluations += 1
        out.nontrivial((clause, pinned.hash[:12], m.hash[:12]))
    # all other pairs: the iff only
    others = members[2:]
    npairs = 0
    rot = rng.randrange(4)
    for i in range(len(others)):
        for j in range(i + 1, len(others)):
            a, b = others[i], others[j]
            if (a.hash == b.hash) != (a.rt == b.rt):
                judge_pair(out, a, b, a.label + " vs " + b.label, None)
            else:
                # ==/!= next to hash equality on EVERY pair: one form per pair, rotating through both operators and both
                # operand orders (all six forms are evaluated on every pair against the pinned molecule, in judge_pair)
                check_eq(out, a, b, a.hash == b.hash, forms=[EQ_FORMS[(rot + npairs) % 4]])
            npairs += 1
    out.evaluations += npairs
    out.count("pairs_cross", npairs)
    for m in members:
        out.count("hash_equal_to_base" if m.hash == base.hash else "hash_differs_from_base")
    if len(out.samples) < 4:
        out.sample({"symbols": spec["symbols"], "hash": base.hash, "members": len(members), "distinct_hashes": len({m.hash for m in members})})
    # ---- tie
    for m in members:
        tie_lines_for(m, lines, checks)


# --------------------------------------------------------------------------------------
# fixed reproducers of the known zero-band defect (so that the KNOWN-FINDING line is printed on every run)


def zero_band_fixed(out: Outcome):
    from qcelemental.models import Molecule

    pairs = [
        ("fragment_charges 2e-4 vs 3e-4",
         dict(symbols=["He", "He"], geometry=[0, 0, 0, 0, 0, 3], fragments=[[0], [1]], fragment_charges=[2e-4, -2e-4]),
         dict(symbols=["He", "He"], geometry=[0, 0, 0, 0, 0, 3], fragments=[[0], [1]], fragment_charges=[3e-4, -3e-4])),
        ("coordinate 1e-7 vs 3e-7",
         dict(symbols=["He", "He"], geometry=[1e-7, 0, 0, 0, 0, 3]),
         dict(symbols=["He", "He"], geometry=[3e-7, 0, 0, 0, 0, 3])),
        ("coordinate -5e-7 vs +5e-7 (an edit of 1e-6)",
         dict(symbols=["He", "He"], geometry=[-5e-7, 0, 0, 0, 0, 3]),
         dict(symbols=["He", "He"], geometry=[5e-7, 0, 0, 0, 0, 3])),
    ]
    for note, ka, kb in pairs:
        with quiet():
            a, b = Molecule(**ka), Molecule(**kb)
        ma = Member("fixed", {"kwargs": ka}, "kwargs-literal", a, None)
        mb = Member("zero_band:" + note, {"kwargs": kb}, "kwargs-literal", b, None)
        judge_pair(out, ma, mb, mb.label, None, inputs=True)
        out.evaluations += 1
        out.nontrivial(("zero_band_fixed", note))
    # just outside the band the hash must separate
    with quiet():
        a = Molecule(symbols=["He", "He"], geometry=[5.2e-7, 0, 0, 0, 0, 3])
        b = Molecule(symbols=["He", "He"], geometry=[5.3e-7, 0, 0, 0, 0, 3])
    judge_pair(out, Member("fixed", {"kwargs": "5.2e-7"}, "kwargs-literal", a, None), Member("band_edge", {"kwargs": "5.3e-7"}, "kwargs-literal", b, None), "band_edge", None, inputs=True)
    out.evaluations += 1


# --------------------------------------------------------------------------------------
# unvalidated molecules: get_hash on raw float fields (model tie + the == / hash iff)


def gen_raw_value(rng, k, allow_near_tie=False):
    r = rng.random()
    unit = 10.0 ** (-k)
    if r < 0.12:
        return rng.choice([0.0, -0.0])
    if r < 0.45:  # around the zero band: 0 .. ~1.3 * 5^-(k+1)
        n = rng.randint(0, int(1.3 * 10**k / 5 ** (k + 1)) + 2)
        sub = rng.choice(SAFE_SUB)
        return rng.choice([-1, 1]) * float(Decimal(n * 100 + sub).scaleb(-(k + 2)))
    if r < 0.55:
        return rng.choice([-1, 1]) * rng.choice([1e-12, 3e-11, 4.4e-1 * unit, 1e-300, 5e-324])
    n = rng.randint(0, 10 ** rng.randint(1, 11))
    sub = rng.choice(SAFE_SUB)
    return rng.choice([-1, 1]) * float(Decimal(n * 100 + sub).scaleb(-(k + 2)))


def gen_scalar_charge(rng):
    r = rng.random()
    if r < 0.2:
        return rng.choice([0.0, -0.0, 1.0, -1.0, 2.0])
    if r < 0.6:  # near ties of the 4th decimal: Python round() is exact, so the model must agree everywhere
        n = rng.randint(-40, 40)
        return float(Decimal(n * 10 + 5).scaleb(-5)) + rng.choice([0.0, 1e-19, -1e-19, 1e-12, -1e-12])
    return rng.choice([-1, 1]) * rng.random() * 10 ** rng.randint(-7, 1)


def raw_molecule(rng):
    from qcelemental.models import Molecule

    nat = rng.choice([1, 2, 3, 4])
    syms = [rng.choice(ELEMS_LIGHT + ELEMS_HEAVY) for _ in range(nat)]
    kw = dict(symbols=syms, geometry=[gen_raw_value(rng, 8) for _ in range(3 * nat)], validate=False)
    kw["molecular_charge"] = gen_scalar_charge(rng)
    kw["molecular_multiplicity"] = rng.choice([1, 1, 2, 3, 11, 101])
    if rng.random() < 0.5:
        kw["masses"] = [abs(gen_raw_value(rng, 6)) if rng.random() < 0.8 else gen_raw_value(rng, 6) for _ in range(nat)]
    if rng.random() < 0.4:
        kw["real"] = [rng.random() < 0.7 for _ in range(nat)]
    nfr = 1
    if rng.random() < 0.5:
        nfr = rng.randint(1, nat)
        cuts = sorted(rng.sample(range(1, nat), nfr - 1)) if nfr > 1 else []
        b = [0] + cuts + [nat]
        kw["fragments"] = [list(range(b[i], b[i + 1])) for i in range(nfr)]
    # fragment charges explicit (array branch; np.around is not modelled at near-ties, so those stay in the scalar only)
    kw["fragment_charges"] = [gen_raw_value(rng, 4) for _ in range(nfr)]
    if rng.random() < 0.5:
        kw["fragment_multiplicities"] = [rng.choice([1, 2, 3]) for _ in range(nfr)]
    if nat >= 2 and rng.random() < 0.5:
        bl = []
        for _ in range(rng.randint(1, 4)):
            a, b = rng.sample(range(nat), 2)
            bl.append((a, b, rng.choice(ORDERS8) / 8.0))
        kw["connectivity"] = bl
    with quiet():
        return kw, Molecule(**kw)


def raw_stream(ctx, out: Outcome, lines, checks):
    rng = ctx.rng
    prev = None
    for _ in range(ctx.scale(1200, 12000)):
        try:
            kw, mol = raw_molecule(rng)
        except Exception as e:  # noqa
            out.count("raw_rejected:" + err_class(e))
            continue
        kwj = {k: v for k, v in kw.items()}
        mem = Member("raw", {"raw_kwargs": json.loads(json.dumps(kwj))}, "raw", mol, None)
        out.count("member:raw")
        out.evaluations += 1
        out.nontrivial(("raw", mem.hash[:12]))
        canon, pre = impl_record(mol)
        lines.append(enc_hash_line(mol))
        checks.append(("hash", mem, canon, pre))
        # == vs hash on raw molecules too
        if prev is not None:
            heq = prev.hash == mem.hash
            if bool(prev.mol == mem.mol) != heq or bool(mem.mol == prev.mol) != heq or (not bool(prev.mol != mem.mol)) != heq:
                out.violations.append(Finding("oracle:eq_vs_hash", {"block": "rawpair", "a": prev.spec, "b": mem.spec}, observed={"hash_equal": heq}, detail="==/!= disagrees with hash equality (unvalidated molecules)"))
        prev = mem


# --------------------------------------------------------------------------------------
# float_prep value streams


def prep_stream(ctx, out: Outcome):
    from qcelemental.models.molecule import float_prep

    rng = ctx.rng
    lines, exps, cases = [], [], []
    nblk = ctx.scale(300, 3000)
    for _ in range(nblk):
        k = rng.choice([4, 6, 8])
        # --- array branch
        xs = []
        for _j in range(12):
            r = rng.random()
            if r < 0.5:
                xs.append(gen_raw_value(rng, k))
            elif r < 0.7:  # exact ties: odd / 2^(k+1) has x*10^k = half-integer exactly
                xs.append(rng.choice([-1, 1]) * (2 * rng.randint(0, 2000) + 1) / 2.0 ** (k + 1))
            elif r < 0.85:  # the band edge 5^-(k+1): entries just below / above
                e = 10**k / 5 ** (k + 1)
                n = rng.choice([math.floor(e), math.floor(e) + 1, math.floor(e) - 1])
                xs.append(rng.choice([-1, 1]) * float(Decimal(n * 100 + rng.choice(SAFE_SUB[:45])).scaleb(-(k + 2))))
            elif r < 0.93:  # near a boundary: the decimal tie n.5 units (the double is a hair off; the float product decides)
                n = rng.randint(0, 10 ** rng.randint(1, 11))
                xs.append(float(Decimal(n * 10 + 5).scaleb(-(k + 1))) * rng.choice([1, -1]))
            else:  # the implementation's own rounded double fed back (idempotence on stored values)
                n = rng.randint(0, 10**6)
                x = float(Decimal(n * 10 + 5).scaleb(-(k + 1))) * rng.choice([1, -1])
                xs.append(float(np.around(np.array([x]), k)[0]))
        got = float_prep(np.array(xs, dtype=float), k)
        lines.append(f"prep|{k}|a|" + " ".join(dstr(x) for x in xs))
        exps.append("ok " + " ".join(rd_str(x, k) for x in got))
        cases.append({"block": "prep", "k": k, "mode": "a", "xs": xs})
        # --- scalar branch (Python round: exact)
        ys = []
        for _j in range(12):
            r = rng.random()
            if r < 0.5:
                n = rng.randint(-10**5, 10**5)
                ys.append(float(Decimal(n * 10 + 5).scaleb(-(k + 1))) + rng.choice([0.0, 0.0, 1e-18, -1e-18]))
            elif r < 0.6:
                ys.append(rng.choice([0.0, -0.0, -1e-9, 1e-9, -0.4 * 10.0**-k]))
            else:
                ys.append(rng.choice([-1, 1]) * rng.random() * 10 ** rng.randint(-9, 3))
        goty = [float_prep(float(y), k) for y in ys]
        lines.append(f"prep|{k}|s|" + " ".join(dstr(y) for y in ys))
        exps.append("ok " + " ".join(rd_str(y, k) for y in goty))
        cases.append({"block": "prep", "k": k, "mode": "s", "xs": ys})
    model = ctx.run_model(DRIVER, lines) if ctx.model_available else [None] * len(lines)
    for ln, exp, case, ml in zip(lines, exps, cases, model):
        out.evaluations += 1
        out.count("prep:" + case["mode"])
        if ml is not None:
            compare_prep(out, case, exp, ml)
    out.nontrivial(("prep_blocks", len(lines)))


# --------------------------------------------------------------------------------------


def run(ctx: Ctx) -> Outcome:
    out = Outcome()
    workdir = tempfile.mkdtemp(prefix="c11-", dir=str(ctx.work))
    lines, checks = [], []
    with warnings.catch_warnings():
        warnings.simplefilter("ignore")
        zero_band_fixed(out)
        ngroups = ctx.scale(160, 1400)
        for g in range(ngroups):
            sub = random.Random(ctx.rng.getrandbits(48))
            spec0 = gen_spec(sub)
            run_group(ctx, out, sub, spec0, workdir, lines, checks)
        raw_stream(ctx, out, lines, checks)
        if ctx.model_available:
            model = ctx.run_model(DRIVER, lines)
            compare_tie(out, checks, model)
        prep_stream(ctx, out)
    out.exhaustive = False
    out.notes.append("all streams sampled from VERIF_SEED; three fixed reproducers of the known zero-band defect run first")
    return out


def replay(ctx: Ctx, case) -> Outcome:
    from qcelemental.models import Molecule

    out = Outcome()
    block = case.get("block") if isinstance(case, dict) else None
    workdir = tempfile.mkdtemp(prefix="c11-", dir=str(ctx.work))
    lines, checks = [], []

    def member_of(side, label):
        spec, route = side["spec"], side["route"]
        if "kwargs" in spec and route == "kwargs-literal":
            with quiet():
                return Member(label, spec, route, Molecule(**spec["kwargs"]), None)
        if "raw_kwargs" in spec:
            with quiet():
                return Member(label, spec, route, Molecule(**spec["raw_kwargs"]), None)
        mol = build(spec)
        if route not in ("kwargs",):
            mol = via_route(route, mol, workdir, rng=random.Random(0))
        return Member(label, spec, route, mol, None)

    with warnings.catch_warnings():
        warnings.simplefilter("ignore")
        if block == "pair":
            a = member_of(case["a"], "a")
            b = member_of(case["b"], case.get("clause", "b"))
            fam = case.get("clause", "").split(":")[0].split("+")[0]
            expect = "same" if fam in CLAUSE_KIND or case.get("clause", "") in ("pinned", "noise+bonds+nonhash") else None
            judge_pair(out, a, b, case.get("clause", "replay"), expect, inputs=True)
            out.evaluations += 1
            for m in (a, b):
                tie_lines_for(m, lines, checks)
        elif block == "rawpair":
            with quiet():
                a = Member("raw", case["a"], "raw", Molecule(**case["a"]["raw_kwargs"]), None)
                b = Member("raw", case["b"], "raw", Molecule(**case["b"]["raw_kwargs"]), None)
            heq = a.hash == b.hash
            if bool(a.mol == b.mol) != heq or bool(b.mol == a.mol) != heq or (not bool(a.mol != b.mol)) != heq:
                out.violations.append(Finding("oracle:eq_vs_hash", case, observed={"hash_equal": heq}, detail="==/!= disagrees with hash equality"))
            out.evaluations += 1
        elif block == "single":
            m = member_of({"spec": case["spec"], "route": case["route"]}, "single")
            tie_lines_for(m, lines, checks)
            # look for a property-level failure around this molecule as well
            if "v" in case["spec"]:
                run_group(ctx, out, random.Random(1), case["spec"], workdir, lines, checks)
            out.evaluations += 1
        elif block == "prep":
            from qcelemental.models.molecule import float_prep

            k, xs = case["k"], case["xs"]
            if case["mode"] == "a":
                got = float_prep(np.array(xs, dtype=float), k)
            else:
                got = [float_prep(float(y), k) for y in xs]
            exp = "ok " + " ".join(rd_str(x, k) for x in got)
            if ctx.model_available:
                ml = ctx.run_model(DRIVER, [f"prep|{k}|{case['mode']}|" + " ".join(dstr(x) for x in xs)])[0]
                compare_prep(out, case, exp, ml)
            out.evaluations += 1
        else:
            return run(ctx)
        if lines and ctx.model_available:
            compare_tie(out, checks, ctx.run_model(DRIVER, lines))
    return out
