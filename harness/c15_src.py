"""C15 translator: the bodies of Molecule.get_fragment / Molecule.nelectrons / Molecule.nuclear_repulsion_energy
(qcelemental/models/molecule.py, located by NAME inside class Molecule) and of molecular_formula_from_symbols
(qcelemental/molutil/molecular_formula.py) -> terms of the statement / expression AST of lean/QcelVerif/Model/FragmentsAst.lean,
written to lean/QcelVerif/Gen/FragmentsSrc.lean on every run.  Anything outside the recognised constructs raises SrcShape
(the run then ends in a translator failure, never in a silently different model).

What is NOT translated (and said so in the generated file):
  * the `name` of the sub-molecule (`ret_name = ...`, `constructor_dict["name"] = ret_name`) — not part of C15's statement;
  * `float(x)` / `int(x)` / `cast(T, x)` around integer expressions are the identity (scope: integer charges, C05's scope);
  * `return Molecule(orient=orient, **constructor_dict)` is checked to have exactly this shape (the `orient` parameter is passed
    through, every other keyword comes from constructor_dict) and ends the body; the constructor itself is Model/Fragments.construct.
"""
from __future__ import annotations

import ast

import common


class SrcShape(Exception):
    """the source uses a construct the translator does not know"""


# self.<attr> -> input slot (fixed numbering: the driver and the theorems build the input list in this order)
INPUTS = ["fragments", "symbols", "masses", "geometry", "fragment_charges", "fragment_multiplicities", "atomic_numbers", "real",
          "molecular_charge"]


def _src(node):
    try:
        return ast.unparse(node)
    except Exception:  # noqa
        return ast.dump(node)


def _fail(node, why):
    raise SrcShape("line %s: %s: `%s`" % (getattr(node, "lineno", "?"), why, _src(node)[:160]))


class Body:
    """one function body: slot allocation + translation"""

    def __init__(self, fname, params, kvars_ok=False):
        self.fname = fname
        self.slots = {"<return>": 0}
        for p in params:
            self.slots[p] = len(self.slots)
        self.kslots = {}
        self.kvars_ok = kvars_ok
        self.doc = []
        self.returns_k = None
        self.ended = False
        self.orient_passed = False
        self.skipped = []
        self.raises = []  # (line, exception class name) of every `raise` statement translated

    # ---- slots
    def slot(self, name, create=False, node=None):
        if name in self.kslots:
            _fail(node, "float-valued local `%s` used as an integer / list value" % name)
        if name not in self.slots:
            if not create:
                _fail(node, "name `%s` read before any assignment" % name)
            self.slots[name] = len(self.slots)
        return self.slots[name]

    def kslot(self, name, create=False, node=None):
        if name in self.slots:
            _fail(node, "local `%s` holds both float and integer / list values" % name)
        if name not in self.kslots:
            if not create:
                _fail(node, "float local `%s` read before assignment" % name)
            self.kslots[name] = len(self.kslots)
        return self.kslots[name]

    # ---- expressions
    def is_self_attr(self, e):
        return isinstance(e, ast.Attribute) and isinstance(e.value, ast.Name) and e.value.id == "self"

    def inp(self, e):
        if e.attr not in INPUTS:
            _fail(e, "attribute self.%s is not one of the modelled inputs %s" % (e.attr, INPUTS))
        return "(.inp %d)" % INPUTS.index(e.attr)

    def call_name(self, f):
        if isinstance(f, ast.Name):
            return f.id
        if isinstance(f, ast.Attribute):
            base = self.call_name(f.value) if isinstance(f.value, (ast.Name, ast.Attribute)) else None
            return (base + "." if base else "?.") + f.attr
        return "?"

    def range_args(self, c):
        if c.keywords or not (1 <= len(c.args) <= 2):
            _fail(c, "range with a step / keywords")
        if len(c.args) == 1:
            return "(.int 0)", self.expr(c.args[0])
        return self.expr(c.args[0]), self.expr(c.args[1])

    def comprehension(self, e):
        if len(e.generators) != 1:
            _fail(e, "comprehension with %d generators" % len(e.generators))
        g = e.generators[0]
        if g.is_async:
            _fail(e, "async comprehension")
        it, tg = g.iter, g.target
        if isinstance(tg, ast.Name):
            src = self.expr(it)
            x = self.slot("<%s>.%s" % (len(self.slots), tg.id), create=True)
            saved = self.slots.get(tg.id)
            self.slots[tg.id] = x
            kind, args = "comp", [x]
        elif isinstance(tg, ast.Tuple) and len(tg.elts) == 2 and all(isinstance(t, ast.Name) for t in tg.elts) \
                and isinstance(it, ast.Call) and self.call_name(it.func) in ("zip", "enumerate") and not it.keywords:
            fn = self.call_name(it.func)
            if fn == "zip":
                if len(it.args) != 2:
                    _fail(it, "zip of %d iterables" % len(it.args))
                src = self.expr(it.args[0]) + " " + self.expr(it.args[1])
                kind = "zipComp"
            else:
                if len(it.args) != 1:
                    _fail(it, "enumerate with a start")
                src = self.expr(it.args[0])
                kind = "enumComp"
            names = [t.id for t in tg.elts]
            if names[0] == names[1]:
                _fail(tg, "same name twice")
            xs = [self.slot("<%s>.%s" % (len(self.slots), n), create=True) for n in names]
            saved = [self.slots.get(n) for n in names]
            for n, x in zip(names, xs):
                self.slots[n] = x
            args = xs
        else:
            _fail(e, "comprehension target / iterable of an unknown shape")
        if kind == "zipComp" and g.ifs:
            _fail(e, "filtered zip comprehension")
        cond = "(.int 1)"
        for c in g.ifs:
            cond = self.expr(c) if cond == "(.int 1)" else "(.and_ %s %s)" % (cond, self.expr(c))
        body = self.expr(e.elt)
        # restore the outer bindings of the bound names (comprehension scope)
        if isinstance(tg, ast.Name):
            if saved is None:
                del self.slots[tg.id]
            else:
                self.slots[tg.id] = saved
        else:
            for n, s in zip([t.id for t in tg.elts], saved):
                if s is None:
                    del self.slots[n]
                else:
                    self.slots[n] = s
        if kind == "zipComp":
            return "(.zipComp %s %d %d %s)" % (body, args[0], args[1], src)
        if kind == "enumComp":
            return "(.enumComp %s %d %d %s %s)" % (body, args[0], args[1], src, cond)
        return "(.comp %s %d %s %s)" % (body, args[0], src, cond)

    def expr(self, e):
        if isinstance(e, ast.Constant):
            if e.value is None:
                return ".none"
            if isinstance(e.value, bool):
                return "(.int %d)" % int(e.value)
            if isinstance(e.value, int):
                return "(.int %d)" % e.value if e.value >= 0 else "(.int (%d))" % e.value
            _fail(e, "constant of type %s in an integer / list expression" % type(e.value).__name__)
        if isinstance(e, ast.List):
            if len(e.elts) == 0:
                return ".nil"
            if len(e.elts) == 1 and not isinstance(e.elts[0], ast.Starred):
                return "(.list1 %s)" % self.expr(e.elts[0])
            _fail(e, "list display with %d elements" % len(e.elts))
        if isinstance(e, ast.Name):
            return "(.var %d)" % self.slot(e.id, node=e)
        if self.is_self_attr(e):
            return self.inp(e)
        if isinstance(e, ast.BinOp):
            op = {ast.Add: "add", ast.Sub: "sub", ast.Mult: "mul"}.get(type(e.op))
            if op is None:
                _fail(e, "operator %s" % type(e.op).__name__)
            return "(.%s %s %s)" % (op, self.expr(e.left), self.expr(e.right))
        if isinstance(e, ast.Subscript):
            # self.geometry.shape[0]
            if isinstance(e.value, ast.Attribute) and e.value.attr == "shape" and self.is_self_attr(e.value.value) \
                    and isinstance(e.slice, ast.Constant) and e.slice.value == 0:
                return "(.len %s)" % self.inp(e.value.value)
            if isinstance(e.slice, ast.Slice):
                if e.slice.lower is not None or e.slice.step is not None or e.slice.upper is None:
                    _fail(e, "slice other than a[:hi]")
                return "(.slice %s %s)" % (self.expr(e.value), self.expr(e.slice.upper))
            if isinstance(e.slice, ast.Tuple):
                _fail(e, "multi-dimensional subscript")
            return "(.idx %s %s)" % (self.expr(e.value), self.expr(e.slice))
        if isinstance(e, ast.Call):
            fn = self.call_name(e.func)
            if fn == "len" and len(e.args) == 1 and not e.keywords:
                return "(.len %s)" % self.expr(e.args[0])
            if fn == "range":
                lo, hi = self.range_args(e)
                return "(.range %s %s)" % (lo, hi)
            if fn == "list" and len(e.args) == 1 and not e.keywords and isinstance(e.args[0], ast.Call) \
                    and self.call_name(e.args[0].func) == "range":
                lo, hi = self.range_args(e.args[0])
                return "(.range %s %s)" % (lo, hi)
            if fn in ("float", "int") and len(e.args) == 1 and not e.keywords:
                return self.expr(e.args[0])            # identity on integers (scope)
            if fn == "cast" and len(e.args) == 2 and not e.keywords:
                return self.expr(e.args[1])            # typing.cast is the identity
            if fn == "sum" and len(e.args) == 1 and not e.keywords:
                return "(.sum %s)" % self.expr(e.args[0])
            if fn == "isinstance" and len(e.args) == 2 and isinstance(e.args[1], ast.Name) and e.args[1].id == "int":
                return "(.isInt %s)" % self.expr(e.args[0])
            if fn == "np.vstack" and len(e.args) == 1 and not e.keywords:
                return "(.vstack %s)" % self.expr(e.args[0])
            _fail(e, "call of `%s`" % fn)
        if isinstance(e, (ast.ListComp, ast.GeneratorExp)):
            return self.comprehension(e)
        if isinstance(e, ast.Compare):
            if len(e.ops) != 1:
                _fail(e, "chained comparison")
            a, b, op = e.left, e.comparators[0], e.ops[0]
            if isinstance(op, ast.In):
                return "(.isIn %s %s)" % (self.expr(a), self.expr(b))
            if isinstance(op, ast.NotIn):
                return "(.not_ (.isIn %s %s))" % (self.expr(a), self.expr(b))
            if isinstance(op, (ast.Is, ast.IsNot)) and isinstance(b, ast.Constant) and b.value is None:
                t = "(.isNone %s)" % self.expr(a)
                return t if isinstance(op, ast.Is) else "(.not_ %s)" % t
            _fail(e, "comparison %s" % type(op).__name__)
        if isinstance(e, ast.BoolOp):
            op = "or_" if isinstance(e.op, ast.Or) else "and_"
            t = self.expr(e.values[-1])
            for v in reversed(e.values[:-1]):
                t = "(.%s %s %s)" % (op, self.expr(v), t)
            return t
        if isinstance(e, ast.UnaryOp) and isinstance(e.op, ast.Not):
            return "(.not_ %s)" % self.expr(e.operand)
        _fail(e, "expression %s" % type(e).__name__)

    def test(self, e):
        """an `if` test; additionally knows `len(set(a) & set(b))` read as a truth value"""
        if isinstance(e, ast.Call) and self.call_name(e.func) == "len" and len(e.args) == 1 and isinstance(e.args[0], ast.BinOp) \
                and isinstance(e.args[0].op, ast.BitAnd):
            l, r = e.args[0].left, e.args[0].right
            if all(isinstance(x, ast.Call) and self.call_name(x.func) == "set" and len(x.args) == 1 and not x.keywords for x in (l, r)):
                return "(.anyCommon %s %s)" % (self.expr(l.args[0]), self.expr(r.args[0]))
        return self.expr(e)

    # ---- K-valued expressions
    def mentions_k(self, e):
        return any(isinstance(n, ast.Name) and n.id in self.kslots for n in ast.walk(e))

    def kexpr(self, e):
        if isinstance(e, ast.Constant) and isinstance(e.value, float):
            if e.value != 0.0:
                _fail(e, "float literal other than 0.0")
            return ".zero"
        if isinstance(e, ast.Name) and e.id in self.kslots:
            return "(.var %d)" % self.kslot(e.id, node=e)
        if isinstance(e, ast.Call) and self.call_name(e.func) == "np.linalg.norm" and len(e.args) == 1 and not e.keywords:
            d = e.args[0]
            ok = isinstance(d, ast.BinOp) and isinstance(d.op, ast.Sub) and all(
                isinstance(x, ast.Subscript) and self.is_self_attr(x.value) and x.value.attr == "geometry"
                and not isinstance(x.slice, (ast.Slice, ast.Tuple)) for x in (d.left, d.right))
            if not ok:
                _fail(e, "np.linalg.norm of something other than self.geometry[a] - self.geometry[b]")
            return "(.dist %s %s)" % (self.expr(d.left.slice), self.expr(d.right.slice))
        if not self.mentions_k(e):
            return "(.ofInt %s)" % self.expr(e)
        if isinstance(e, ast.BinOp):
            op = {ast.Add: "add", ast.Mult: "mul", ast.Div: "div"}.get(type(e.op))
            if op is None:
                _fail(e, "float operator %s" % type(e.op).__name__)
            return "(.%s %s %s)" % (op, self.kexpr(e.left), self.kexpr(e.right))
        _fail(e, "float expression %s" % type(e).__name__)

    def is_kvalue(self, e):
        if isinstance(e, ast.Constant) and isinstance(e.value, float):
            return True
        if isinstance(e, ast.Call) and self.call_name(e.func) == "np.linalg.norm":
            return True
        return self.mentions_k(e)

    # ---- statements
    def block(self, stmts):
        ts = [t for t in (self.stmt(s) for s in stmts) if t is not None]
        if not ts:
            return ".skip"
        t = ts[-1]
        for x in reversed(ts[:-1]):
            t = "(.seq %s %s)" % (x, t)
        return t

    def note(self, s, text=None):
        first = (text or _src(s)).split("\n")[0]
        self.doc.append("  %s:%d  `%s`" % (self.fname, s.lineno, first[:150].replace("-/", "- /")))

    def assign(self, s, target, value):
        if isinstance(target, ast.Name):
            if target.id == "ret_name":
                self.skipped.append(s.lineno)
                return None
            if self.kvars_ok and (target.id in self.kslots or self.is_kvalue(value)):
                t = self.kexpr(value)
                return "(.kset %d %s)" % (self.kslot(target.id, create=True, node=s), t)
            t = self.expr(value)
            return "(.set %d %s)" % (self.slot(target.id, create=True, node=s), t)
        if isinstance(target, ast.Subscript) and isinstance(target.value, ast.Name):
            if target.value.id == "constructor_dict":
                if not (isinstance(target.slice, ast.Constant) and isinstance(target.slice.value, str)):
                    _fail(s, "constructor_dict key is not a string literal")
                key = target.slice.value
                if key == "name":
                    self.skipped.append(s.lineno)
                    return None
                t = self.expr(value)
                return "(.set %d %s)" % (self.slot("cd:" + key, create=True, node=s), t)
            if isinstance(target.slice, (ast.Slice, ast.Tuple)):
                _fail(s, "slice assignment")
            return "(.setIdx %d %s %s)" % (self.slot(target.value.id, node=s), self.expr(target.slice), self.expr(value))
        _fail(s, "assignment target")

    def stmt(self, s):
        if self.ended:
            _fail(s, "statement after the final return")
        if isinstance(s, ast.Expr) and isinstance(s.value, ast.Constant) and isinstance(s.value.value, str):
            return None  # docstring
        if isinstance(s, ast.Assign):
            if len(s.targets) != 1:
                _fail(s, "multiple assignment targets")
            self.note(s)
            return self.assign(s, s.targets[0], s.value)
        if isinstance(s, ast.AnnAssign):
            if s.value is None:
                _fail(s, "annotation without value")
            if isinstance(s.target, ast.Name) and s.target.id == "constructor_dict":
                if not (isinstance(s.value, ast.Dict) and not s.value.keys):
                    _fail(s, "constructor_dict does not start empty")
                self.note(s)
                return None
            self.note(s)
            return self.assign(s, s.target, s.value)
        if isinstance(s, ast.AugAssign):
            if not (isinstance(s.op, ast.Add) and isinstance(s.target, ast.Name)):
                _fail(s, "augmented assignment other than `name += e`")
            self.note(s)
            if s.target.id in self.kslots:
                return "(.kadd %d %s)" % (self.kslot(s.target.id, node=s), self.kexpr(s.value))
            return "(.addAssign %d %s)" % (self.slot(s.target.id, node=s), self.expr(s.value))
        if isinstance(s, ast.Expr) and isinstance(s.value, ast.Call) and isinstance(s.value.func, ast.Attribute) \
                and s.value.func.attr == "append" and isinstance(s.value.func.value, ast.Name) and len(s.value.args) == 1 \
                and not s.value.keywords:
            self.note(s)
            return "(.append %d %s)" % (self.slot(s.value.func.value.id, node=s), self.expr(s.value.args[0]))
        if isinstance(s, ast.For):
            if s.orelse:
                _fail(s, "for ... else")
            self.note(s, "for %s in %s:" % (_src(s.target), _src(s.iter)))
            if isinstance(s.target, ast.Name):
                src = self.expr(s.iter)
                x = self.slot(s.target.id, create=True, node=s)
                return "(.forIn %d %s %s)" % (x, src, self.block(s.body))
            if isinstance(s.target, ast.Tuple) and len(s.target.elts) == 2 and all(isinstance(t, ast.Name) for t in s.target.elts) \
                    and isinstance(s.iter, ast.Call) and self.call_name(s.iter.func) == "enumerate" and len(s.iter.args) == 1 \
                    and not s.iter.keywords:
                src = self.expr(s.iter.args[0])
                i = self.slot(s.target.elts[0].id, create=True, node=s)
                x = self.slot(s.target.elts[1].id, create=True, node=s)
                if i == x:
                    _fail(s, "same loop variable twice")
                return "(.forEnum %d %d %s %s)" % (i, x, src, self.block(s.body))
            _fail(s, "for target / iterable of an unknown shape")
        if isinstance(s, ast.If):
            self.note(s, "if %s:" % _src(s.test))
            c = self.test(s.test)
            t = self.block(s.body)
            if s.orelse:
                self.doc.append("  %s:%d  `else:`" % (self.fname, s.orelse[0].lineno))
            e = self.block(s.orelse)
            return "(.ite %s %s %s)" % (c, t, e)
        if isinstance(s, ast.Raise):
            self.note(s, "raise " + (_src(s.exc.func) if isinstance(s.exc, ast.Call) else "..."))
            cls_node = s.exc.func if isinstance(s.exc, ast.Call) else s.exc
            if not isinstance(cls_node, ast.Name) or s.cause is not None:
                _fail(s, "raise of something else than a builtin exception class (optionally called)")
            # tag = ordinal of this `raise` within the function (NOT the line number: an edit elsewhere in the file must not move it)
            tag = len(self.raises)
            self.raises.append((tag, cls_node.id))
            return "(.raise %d)" % tag
        if isinstance(s, ast.Assert):
            self.note(s)
            return "(.assert_ %s)" % self.expr(s.test)
        if isinstance(s, ast.Return):
            self.note(s)
            self.ended = True
            v = s.value
            if isinstance(v, ast.Call) and self.call_name(v.func) == "Molecule":
                kws = [(k.arg, k.value) for k in v.keywords]
                ok = (not v.args and len(kws) == 2 and kws[0][0] == "orient" and isinstance(kws[0][1], ast.Name)
                      and kws[0][1].id == "orient" and kws[1][0] is None and isinstance(kws[1][1], ast.Name)
                      and kws[1][1].id == "constructor_dict")
                if not ok:
                    _fail(s, "the constructor call is not Molecule(orient=orient, **constructor_dict)")
                self.slot("orient", node=s)
                self.orient_passed = True
                return None
            if self.kvars_ok and isinstance(v, ast.Name) and v.id in self.kslots:
                self.returns_k = self.kslots[v.id]
                return None
            return "(.set 0 %s)" % self.expr(v)
        _fail(s, "statement %s" % type(s).__name__)


def find_method(tree, cls, name):
    classes = [c for c in tree.body if isinstance(c, ast.ClassDef) and c.name == cls]
    if len(classes) != 1:
        raise SrcShape("expected exactly one class %s, found %d" % (cls, len(classes)))
    fns = [f for f in classes[0].body if isinstance(f, ast.FunctionDef) and f.name == name]
    if len(fns) != 1:
        raise SrcShape("expected exactly one method %s.%s, found %d" % (cls, name, len(fns)))
    if fns[0].decorator_list:
        raise SrcShape("%s.%s is decorated" % (cls, name))
    return fns[0]


def params_of(fn, want, defaults):
    a = fn.args
    if a.vararg or a.kwarg or a.kwonlyargs or a.posonlyargs:
        raise SrcShape("%s: unexpected parameter kinds" % fn.name)
    names = [x.arg for x in a.args]
    if names != ["self"] + want:
        raise SrcShape("%s: parameters %s, expected %s" % (fn.name, names, ["self"] + want))
    got = [ast.literal_eval(d) for d in a.defaults]
    if got != defaults:
        raise SrcShape("%s: parameter defaults %s, expected %s" % (fn.name, got, defaults))
    return want


def translate_method(tree, name, want, defaults, kvars_ok=False):
    fn = find_method(tree, "Molecule", name)
    b = Body("molecule.py", params_of(fn, want, defaults), kvars_ok=kvars_ok)
    term = b.block(fn.body)
    if not b.ended:
        raise SrcShape("%s does not end in a return" % name)
    return fn, b, term


# --------------------------------------------------------------------------------------
# molecular_formula_from_symbols

FORMULA_HEAD = '''
supported_orders = __ANY__
order = order.lower()
if order not in supported_orders:
    raise ValueError(__ANY__)
count = collections.Counter((x.title() for x in symbols))
element_order = sorted(count.keys())
'''
FORMULA_TAIL_PRE = "ret = []"
FORMULA_TAIL_POST = 'return "".join(ret)'


def _same(a, b):
    """AST equality with the __ANY__ hole"""
    if isinstance(a, ast.Name) and a.id == "__ANY__":
        return True
    if type(a) is not type(b):
        return False
    if isinstance(a, ast.AST):
        return all(_same(getattr(a, f, None), getattr(b, f, None)) for f in a._fields if f not in ("type_comment", "kind", "ctx"))
    if isinstance(a, list):
        return len(a) == len(b) and all(_same(x, y) for x, y in zip(a, b))
    return a == b


def lean_str(s):
    if not all(32 <= ord(c) < 127 and c not in '"\\' for c in s):
        raise SrcShape("string literal %r" % s)
    return '"%s"' % s


def fcond(e):
    if isinstance(e, ast.BoolOp):
        op = "and_" if isinstance(e.op, ast.And) else "or_"
        t = fcond(e.values[-1])
        for v in reversed(e.values[:-1]):
            t = "(.%s %s %s)" % (op, fcond(v), t)
        return t
    if isinstance(e, ast.UnaryOp) and isinstance(e.op, ast.Not):
        return "(.not_ %s)" % fcond(e.operand)
    if isinstance(e, ast.Compare) and len(e.ops) == 1:
        a, b, op = e.left, e.comparators[0], e.ops[0]
        if isinstance(op, ast.Eq) and isinstance(a, ast.Name) and a.id == "order" and isinstance(b, ast.Constant) and isinstance(b.value, str):
            return "(.orderIs %s)" % lean_str(b.value)
        if isinstance(op, (ast.In, ast.NotIn)) and isinstance(a, ast.Constant) and isinstance(a.value, str) and isinstance(b, ast.Name) \
                and b.id == "element_order":
            t = "(.has %s)" % lean_str(a.value)
            return t if isinstance(op, ast.In) else "(.not_ %s)" % t
    _fail(e, "condition in the rearrangement part of molecular_formula_from_symbols")


TOFRONT = "element_order.insert(0, element_order.pop(element_order.index(__ANY__)))"


def fstmts(stmts, doc):
    out = []
    for s in stmts:
        if isinstance(s, ast.If):
            doc.append("  molecular_formula.py:%d  `if %s:`" % (s.lineno, _src(s.test)))
            c = fcond(s.test)
            t = fstmts(s.body, doc)
            if s.orelse:
                doc.append("  molecular_formula.py:%d  `else:`" % s.orelse[0].lineno)
            e = fstmts(s.orelse, doc)
            out.append("(.ite %s %s %s)" % (c, t, e))
            continue
        tmpl = ast.parse(TOFRONT).body[0]
        if isinstance(s, ast.Expr) and _same(tmpl, s):
            arg = s.value.args[1].args[0].args[0]
            if not (isinstance(arg, ast.Constant) and isinstance(arg.value, str)):
                _fail(s, "moved element is not a string literal")
            doc.append("  molecular_formula.py:%d  `%s`" % (s.lineno, _src(s)))
            out.append("(.toFront %s)" % lean_str(arg.value))
            continue
        _fail(s, "statement in the rearrangement part of molecular_formula_from_symbols")
    return "[" + ", ".join(out) + "]"


def fouts(stmts, doc):
    """body of `for k in element_order:` after `c = count[k]`"""
    out = []
    app_k = ast.parse("ret.append(k)").body[0]
    app_c = ast.parse("ret.append(str(c))").body[0]
    for s in stmts:
        doc.append("  molecular_formula.py:%d  `%s`" % (s.lineno, _src(s).split("\n")[0]))
        if _same(app_k, s):
            out.append(".key")
        elif _same(app_c, s):
            out.append(".count")
        elif isinstance(s, ast.If) and not s.orelse and len(s.body) == 1 and _same(app_c, s.body[0]) and isinstance(s.test, ast.Compare) \
                and len(s.test.ops) == 1 and isinstance(s.test.ops[0], ast.Gt) and isinstance(s.test.left, ast.Name) and s.test.left.id == "c" \
                and isinstance(s.test.comparators[0], ast.Constant) and type(s.test.comparators[0].value) is int \
                and s.test.comparators[0].value >= 0:
            out.append("(.countIfGt %d)" % s.test.comparators[0].value)
        else:
            _fail(s, "statement in the output loop of molecular_formula_from_symbols")
    return "[" + ", ".join(out) + "]"


def translate_formula():
    src = (common.REPO / "qcelemental/molutil/molecular_formula.py").read_text()
    tree = ast.parse(src)
    fns = [f for f in tree.body if isinstance(f, ast.FunctionDef) and f.name == "molecular_formula_from_symbols"]
    if len(fns) != 1 or fns[0].decorator_list:
        raise SrcShape("expected exactly one undecorated module-level molecular_formula_from_symbols")
    fn = fns[0]
    if [a.arg for a in fn.args.args] != ["symbols", "order"] or fn.args.vararg or fn.args.kwarg or fn.args.kwonlyargs:
        raise SrcShape("molecular_formula_from_symbols: parameters")
    body = list(fn.body)
    if body and isinstance(body[0], ast.Expr) and isinstance(body[0].value, ast.Constant) and isinstance(body[0].value.value, str):
        body = body[1:]
    head = ast.parse(FORMULA_HEAD).body
    if len(body) < len(head) + 3 or not _same(head, body[: len(head)]):
        raise SrcShape("molecular_formula_from_symbols: the statements up to `element_order = sorted(count.keys())` are not "
                       "supported_orders / order.lower() / membership test / Counter of title() / sorted keys")
    rest = body[len(head):]
    # ... rearrangement ... ret = [] ; for k in element_order: c = count[k]; <outs> ; return "".join(ret)
    pre = ast.parse(FORMULA_TAIL_PRE).body[0]
    post = ast.parse(FORMULA_TAIL_POST).body[0]
    if not (_same(post, rest[-1]) and isinstance(rest[-2], ast.For) and _same(pre, rest[-3])):
        raise SrcShape("molecular_formula_from_symbols: does not end in `ret = []`, a for loop, `return \"\".join(ret)`")
    loop = rest[-2]
    loop_head = ast.parse("for k in element_order:\n    c = count[k]").body[0]
    if loop.orelse or not _same(loop_head.target, loop.target) or not _same(loop_head.iter, loop.iter) or not loop.body \
            or not _same(loop_head.body[0], loop.body[0]):
        raise SrcShape("molecular_formula_from_symbols: output loop is not `for k in element_order: c = count[k] ...`")
    doc = ["  molecular_formula.py:%d-%d  head: order.lower(), supported-order test, `count = collections.Counter(x.title() for x in symbols)`, "
           "`element_order = sorted(count.keys())` (shape compared statement by statement)" % (body[0].lineno, body[len(head) - 1].lineno)]
    rearr = fstmts(rest[:-3], doc)
    doc.append("  molecular_formula.py:%d  `for k in element_order:` / `c = count[k]`" % loop.lineno)
    outs = fouts(loop.body[1:], doc)
    doc.append("  molecular_formula.py:%d  `return \"\".join(ret)`" % rest[-1].lineno)
    return fn, rearr, outs, doc


# --------------------------------------------------------------------------------------


def slot_defs(ns, b):
    lines = ["namespace %s" % ns]
    for name, k in sorted(b.slots.items(), key=lambda kv: kv[1]):
        ident = name.replace("cd:", "cd_").replace("<return>", "ret")
        if ident.startswith("<"):
            continue  # comprehension variables
        lines.append("def %s : Nat := %d" % ("v_" + ident, k))
    for name, k in sorted(b.kslots.items(), key=lambda kv: kv[1]):
        lines.append("def k_%s : Nat := %d" % (name, k))
    lines.append("end %s" % ns)
    return lines


def slot_table(b):
    t = ", ".join("%d=%s" % (k, n) for n, k in sorted(b.slots.items(), key=lambda kv: kv[1]))
    if b.kslots:
        t += "; float slots: " + ", ".join("%d=%s" % (k, n) for n, k in sorted(b.kslots.items(), key=lambda kv: kv[1]))
    return t


def gen_fragments_src(ctx=None):
    """lean/QcelVerif/Gen/FragmentsSrc.lean <- qcelemental/models/molecule.py (Molecule.get_fragment, .nelectrons,
    .nuclear_repulsion_energy, by name) and qcelemental/molutil/molecular_formula.py (molecular_formula_from_symbols)"""
    tree = ast.parse((common.REPO / "qcelemental/models/molecule.py").read_text())
    gf_fn, gf, gf_term = translate_method(tree, "get_fragment", ["real", "ghost", "orient", "group_fragments"], [None, False, True])
    if not gf.orient_passed:
        raise SrcShape("get_fragment does not end in Molecule(orient=orient, **constructor_dict)")
    need = ["cd:" + k for k in ("fragments", "fragment_charges", "fragment_multiplicities", "symbols", "geometry", "real", "masses")]
    missing = [k for k in need if k not in gf.slots]
    if missing:
        raise SrcShape("get_fragment never sets constructor_dict keys %s" % missing)
    extra = [k for k in gf.slots if k.startswith("cd:") and k not in need + ["cd:molecular_charge", "cd:molecular_multiplicity"]]
    if extra:
        raise SrcShape("get_fragment sets constructor_dict keys outside the model: %s" % extra)
    for k in ("cd:molecular_charge", "cd:molecular_multiplicity"):
        gf.slot(k, create=True)
    ne_fn, ne, ne_term = translate_method(tree, "nelectrons", ["ifr"], [None])
    nre_fn, nre, nre_term = translate_method(tree, "nuclear_repulsion_energy", ["ifr"], [None], kvars_ok=True)
    if nre.returns_k is None:
        raise SrcShape("nuclear_repulsion_energy does not return its float accumulator")
    f_fn, rearr, outs, fdoc = translate_formula()

    L = [
        "import QcelVerif.Model.FragmentsAst",
        "/-! GENERATED by harness/c15_src.py from qcelemental/models/molecule.py (Molecule.get_fragment, Molecule.nelectrons,",
        "Molecule.nuclear_repulsion_energy — located by name) and qcelemental/molutil/molecular_formula.py",
        "(molecular_formula_from_symbols) — do not edit.  Input slots (`.inp k` = `self.<attr>`): "
        + ", ".join("%d=%s" % (i, n) for i, n in enumerate(INPUTS)) + ".",
        "`self.symbols` / `self.masses` / `self.geometry` are bound to `[0..n-1]` (references to the parent's rows).",
        "Not translated: the sub-molecule's `name` (molecule.py lines %s); `float()` / `int()` / `cast()` are the identity on integers. -/" % gf.skipped,
        "namespace QcelVerif.Gen.FragmentsSrc",
        "open QcelVerif.FragAst",
        "",
    ]
    for ns, fn, b, term, title in (("GF", gf_fn, gf, gf_term, "get_fragment"), ("NE", ne_fn, ne, ne_term, "nelectrons"),
                                   ("NRE", nre_fn, nre, nre_term, "nuclear_repulsion_energy")):
        L += slot_defs(ns, b)
        L.append("/-- molecule.py:%d  `Molecule.%s`.  Variable slots: %s.  Statements translated:" % (fn.lineno, title, slot_table(b)))
        L += b.doc
        L.append("-/")
        L.append("def %s : Stmt :=\n  %s" % ({"GF": "getFragment", "NE": "nelectrons", "NRE": "nre"}[ns], term))
        L.append("def %s : Nat := %d" % ({"GF": "gfSlots", "NE": "neSlots", "NRE": "nreSlots"}[ns], max(b.slots.values()) + 1))
        L.append("/-- the `raise` statements of the body: (line = the tag of `.raise`, exception class named in the source) -/")
        L.append("def %s : List (Nat × String) := [%s]" % ({"GF": "gfRaises", "NE": "neRaises", "NRE": "nreRaises"}[ns],
                                                            ", ".join('(%d, "%s")' % (ln, c) for ln, c in b.raises)))
        L.append("")
    L.append("/-- number of float slots of nuclear_repulsion_energy and the one it returns -/")
    L.append("def nreKSlots : Nat := %d" % len(nre.kslots))
    L.append("def nreRet : Nat := %d" % nre.returns_k)
    L.append("/-- `return Molecule(orient=orient, **constructor_dict)`: the `orient` parameter is handed to the constructor unchanged -/")
    L.append("def gfOrientPassedThrough : Bool := true")
    L.append("")
    L.append("/-- molecular_formula.py:%d  `molecular_formula_from_symbols`.  Statements translated:" % f_fn.lineno)
    L += fdoc
    L.append("-/")
    L.append("def formulaRearrange : List FStmt := %s" % rearr)
    L.append("def formulaOut : List FOut := %s" % outs)
    L += ["", "end QcelVerif.Gen.FragmentsSrc"]
    text = "\n".join(L) + "\n"
    f = common.LEAN / "QcelVerif" / "Gen" / "FragmentsSrc.lean"
    f.parent.mkdir(exist_ok=True)
    if not f.exists() or f.read_text() != text:
        f.write_text(text)


if __name__ == "__main__":
    gen_fragments_src()
    print((common.LEAN / "QcelVerif" / "Gen" / "FragmentsSrc.lean").read_text())
