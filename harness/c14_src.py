"""C14 — translator: qcelemental/util/scipy_hungarian.py  ->  lean/QcelVerif/Gen/MunkresSrc.lean

Reads the source with `ast` on every run and emits, as terms of the array-statement AST of
lean/QcelVerif/Model/MunkresAst.lean, the bodies of `_step1`, `_step3`, `_step4`, `_step5`, `_step6`, the constants of
`_Hungary.__init__` / `_clear_covers`, and the statements of `linear_sum_assignment` (validation, dtype widening, the
transposition test, the `while step is not None` loop, un-transposition and the `np.nonzero(marked == 1)` read-out).
Every statement and expression form is matched explicitly; anything else raises `Untranslatable` (the check then
reports a broken proof obligation).  Props/C14Src.lean proves the evaluated terms equal to the hand-written model.
"""
from __future__ import annotations

import ast
from pathlib import Path

import common

SRC = ("qcelemental", "util", "scipy_hungarian.py")
OUT = ("QcelVerif", "Gen", "MunkresSrc.lean")

NVARS = {"i": "i", "j": "j", "row": "row", "col": "col", "star_col": "starCol", "count": "count", "n": "n", "m": "m"}
STEPS = {"_step1": "s1", "_step3": "s3", "_step4": "s4", "_step5": "s5", "_step6": "s6"}


class Untranslatable(Exception):
    pass


def fail(node, msg):
    where = f"line {getattr(node, 'lineno', '?')}"
    try:
        txt = ast.unparse(node)
    except Exception:  # noqa
        txt = repr(node)
    raise Untranslatable(f"scipy_hungarian.py {where}: {msg}: `{txt}`")


def u(node) -> str:
    return ast.unparse(node)


def is_const(node, val=None):
    return isinstance(node, ast.Constant) and (val is None or (node.value == val and type(node.value) is type(val)))


def nat_const(node):
    if isinstance(node, ast.Constant) and type(node.value) is int and node.value >= 0:
        return node.value
    fail(node, "expected a non-negative integer literal")


class Fn:
    """translation of one step function"""

    def __init__(self, fdef: ast.FunctionDef, clear):
        self.f = fdef
        self.name = fdef.name
        self.clear = clear  # (row, col) values of _clear_covers
        self.zvars = set()  # integer-typed locals
        self.marked_alias = None  # (name, val): name = (state.marked == val)
        self.path_alias = None
        self.shape_names = {}  # n -> 0, m -> 1
        # a local that is ever assigned a negative literal is integer-typed
        for nd in ast.walk(fdef):
            if isinstance(nd, ast.Assign) and len(nd.targets) == 1 and isinstance(nd.targets[0], ast.Name):
                v = nd.value
                if isinstance(v, ast.UnaryOp) and isinstance(v.op, ast.USub) and is_const(v.operand):
                    self.zvars.add(nd.targets[0].id)
        for z in self.zvars:
            if z != "col":
                fail(fdef, f"integer-typed local {z!r} is not supported")

    # ---------------------------------------------------------------- expressions
    def state_attr(self, node, name):
        return isinstance(node, ast.Attribute) and isinstance(node.value, ast.Name) and node.value.id == "state" and node.attr == name

    def is_path(self, node):
        return (isinstance(node, ast.Name) and node.id == self.path_alias) or self.state_attr(node, "path")

    def sub2(self, node):
        """node = X[a, b] -> (X, a, b)"""
        if isinstance(node, ast.Subscript) and isinstance(node.slice, ast.Tuple) and len(node.slice.elts) == 2:
            return node.value, node.slice.elts[0], node.slice.elts[1]
        return None

    def is_full_slice(self, node):
        return isinstance(node, ast.Slice) and node.lower is None and node.upper is None and node.step is None

    def colidx(self, node):
        """an expression used as a column index of state.marked"""
        s = self.sub2(node)
        if s and self.is_path(s[0]) and is_const(s[2], 1):
            return f"(.wrapPathCol {self.ne(s[1])})"
        if isinstance(node, ast.Name) and node.id in self.zvars:
            return "(.wrapZ .col)"
        return self.ne(node)

    def eq_marked(self, node):
        """node = (<row/col of state.marked> == val) -> ('row'|'col', index term, val)"""
        if not (isinstance(node, ast.Compare) and len(node.ops) == 1 and isinstance(node.ops[0], ast.Eq)):
            return None
        val = nat_const(node.comparators[0])
        lhs = node.left
        if isinstance(lhs, ast.Subscript) and self.state_attr(lhs.value, "marked"):
            sl = lhs.slice
            if isinstance(sl, ast.Tuple):
                if len(sl.elts) == 2 and self.is_full_slice(sl.elts[0]):
                    return ("col", self.colidx(sl.elts[1]), val)
                return None
            return ("row", self.ne(sl), val)
        return None

    def ne(self, node) -> str:
        if isinstance(node, ast.Constant):
            return f"(.lit {nat_const(node)})"
        if isinstance(node, ast.Name):
            if node.id in self.zvars:
                fail(node, "integer-typed local used where a natural number is expected")
            if node.id in NVARS:
                return f"(.v .{NVARS[node.id]})"
            fail(node, "unknown local")
        if isinstance(node, ast.BinOp) and isinstance(node.op, (ast.Add, ast.Sub)):
            op = "add" if isinstance(node.op, ast.Add) else "sub"
            return f"(.{op} {self.ne(node.left)} {self.ne(node.right)})"
        if self.state_attr(node, "Z0_r"):
            return ".z0r"
        if self.state_attr(node, "Z0_c"):
            return ".z0c"
        if u(node) == "state.C.shape[0]":
            return ".shape0"
        if u(node) == "state.C.shape[1]":
            return ".shape1"
        s = self.sub2(node)
        if s:
            base, a, b = s
            if self.is_path(base) and is_const(b, 0):
                return f"(.pathRow {self.ne(a)})"
            if self.state_attr(base, "marked"):
                return f"(.markedAt {self.ne(a)} {self.colidx(b)})"
            if isinstance(base, ast.Name) and base.id == "covered_C":
                return f"(.matAt .cov {self.ne(a)} {self.ne(b)})"
        if isinstance(node, ast.Call) and u(node.func) == "np.argmax" and len(node.args) == 1 and not node.keywords:
            e = self.eq_marked(node.args[0])
            if e:
                kind, idx, val = e
                return f"(.argmax{'Row' if kind == 'row' else 'Col'}Eq {idx} {val})"
        if (
            isinstance(node, ast.Call)
            and isinstance(node.func, ast.Attribute)
            and node.func.attr == "sum"
            and not node.args
            and not node.keywords
            and isinstance(node.func.value, ast.Name)
            and self.marked_alias
            and node.func.value.id == self.marked_alias[0]
        ):
            return f"(.countMarkedEq {self.marked_alias[1]})"
        fail(node, "unsupported integer expression")

    def ze(self, node) -> str:
        if isinstance(node, ast.UnaryOp) and isinstance(node.op, ast.USub) and is_const(node.operand):
            return f"(.lit (-{nat_const(node.operand)}))"
        if isinstance(node, ast.Name) and node.id in self.zvars:
            return "(.v .col)"
        s = self.sub2(node)
        if s and self.is_path(s[0]) and is_const(s[2], 1):
            return f"(.pathCol {self.ne(s[1])})"
        return f"(.ofN {self.ne(node)})"

    def be(self, node) -> str:
        if isinstance(node, ast.BoolOp) and isinstance(node.op, ast.And):
            out = self.be(node.values[-1])
            for v in reversed(node.values[:-1]):
                out = f"(.and {self.be(v)} {out})"
            return out
        if isinstance(node, ast.Compare) and len(node.ops) == 1:
            ops = {ast.Lt: "lt", ast.Eq: "eq", ast.NotEq: "ne"}
            for k, nm in ops.items():
                if isinstance(node.ops[0], k):
                    return f"(.{nm} {self.ne(node.left)} {self.ne(node.comparators[0])})"
            fail(node, "unsupported comparison")
        if isinstance(node, ast.Subscript) and not isinstance(node.slice, (ast.Tuple, ast.Slice)):
            if self.state_attr(node.value, "row_uncovered"):
                return f"(.rowUncAt {self.ne(node.slice)})"
            if self.state_attr(node.value, "col_uncovered"):
                return f"(.colUncAt {self.ne(node.slice)})"
        if u(node) == "np.any(state.row_uncovered)":
            return ".anyRowUnc"
        if u(node) == "np.any(state.col_uncovered)":
            return ".anyColUnc"
        fail(node, "unsupported condition")

    def mask(self, node) -> str:
        t = u(node)
        table = {
            "state.row_uncovered": "rowUnc",
            "~state.row_uncovered": "notRowUnc",
            "state.col_uncovered": "colUnc",
            "~state.col_uncovered": "notColUnc",
        }
        if t in table:
            return "." + table[t]
        fail(node, "unsupported boolean mask")

    # ---------------------------------------------------------------- statements
    def block(self, stmts) -> str:
        terms = []
        k = 0
        while k < len(stmts):
            t, used = self.stmt(stmts, k)
            k += used
            if t is not None:
                terms.append(t)
        if not terms:
            return ".skip"
        out = terms[-1]
        for t in reversed(terms[:-1]):
            out = f"(.seq {t}\n  {out})"
        return out

    def stmt(self, stmts, k):
        """-> (term or None, number of source statements consumed)"""
        nd = stmts[k]
        nxt = stmts[k + 1] if k + 1 < len(stmts) else None
        t = u(nd)
        if isinstance(nd, ast.Expr) and is_const(nd.value) and isinstance(nd.value.value, str):
            return None, 1  # docstring
        if isinstance(nd, ast.Return):
            if nd.value is None or is_const(nd.value, None):
                return "(.ret none)", 1
            if isinstance(nd.value, ast.Name) and nd.value.id in STEPS:
                return f"(.ret (some .{STEPS[nd.value.id]}))", 1
            fail(nd, "unsupported return value")
        if isinstance(nd, ast.Break):
            return ".brk", 1
        if isinstance(nd, ast.If):
            return f"(.ite {self.be(nd.test)}\n  {self.block(nd.body)}\n  {self.block(nd.orelse)})", 1
        if isinstance(nd, ast.While):
            if not is_const(nd.test, True) or nd.orelse:
                fail(nd, "only `while True:` is supported")
            return f"(.whileTrue\n  {self.block(nd.body)})", 1
        if isinstance(nd, ast.For):
            if nd.orelse:
                fail(nd, "for/else")
            if u(nd.target) == "(i, j)" and u(nd.iter) == "zip(*np.nonzero(state.C == 0))":
                return f"(.forZerosC\n  {self.block(nd.body)})", 1
            if (
                u(nd.target) == "i"
                and isinstance(nd.iter, ast.Call)
                and u(nd.iter.func) == "range"
                and len(nd.iter.args) == 1
                and not nd.iter.keywords
            ):
                return f"(.forRange {self.ne(nd.iter.args[0])}\n  {self.block(nd.body)})", 1
            fail(nd, "unsupported for loop")
        if isinstance(nd, ast.Expr) and t == "state._clear_covers()":
            r, c = self.clear
            return f"(.clearCovers {lean_bool(r)} {lean_bool(c)})", 1
        if isinstance(nd, ast.AugAssign):
            return self.augassign(nd), 1
        if isinstance(nd, ast.Assign) and len(nd.targets) == 1:
            return self.assign(nd, nxt)
        fail(nd, "unsupported statement")

    def augassign(self, nd):
        t = u(nd)
        if t == "state.C -= state.C.min(axis=1)[:, np.newaxis]":
            return "(.subAxisMin 1)"
        if t == "state.C -= state.C.min(axis=0)[np.newaxis, :]" or t == "state.C -= state.C.min(axis=0)":
            return "(.subAxisMin 0)"
        if isinstance(nd.target, ast.Name) and nd.target.id in NVARS and nd.target.id not in self.zvars and isinstance(nd.op, (ast.Add, ast.Sub)):
            op = "add" if isinstance(nd.op, ast.Add) else "sub"
            x = NVARS[nd.target.id]
            return f"(.assignN .{x} (.{op} (.v .{x}) {self.ne(nd.value)}))"
        # state.C[<rows mask>] += minval ;  state.C[:, <cols mask>] -= minval
        if isinstance(nd.target, ast.Subscript) and self.state_attr(nd.target.value, "C") and u(nd.value) == "minval":
            sl = nd.target.slice
            if isinstance(sl, ast.Tuple):
                if len(sl.elts) == 2 and self.is_full_slice(sl.elts[0]) and isinstance(nd.op, ast.Sub):
                    return f"(.subCols {self.mask(sl.elts[1])})"
            elif isinstance(nd.op, ast.Add):
                return f"(.addRows {self.mask(sl)})"
        fail(nd, "unsupported augmented assignment")

    def assign(self, nd, nxt):
        tgt, val = nd.targets[0], nd.value
        t = u(nd)
        # ---- aliases
        if t == "path = state.path":
            self.path_alias = "path"
            return None, 1
        if isinstance(tgt, ast.Name) and tgt.id == "marked" and isinstance(val, ast.Compare) and u(val.left) == "state.marked" and isinstance(val.ops[0], ast.Eq):
            self.marked_alias = ("marked", nat_const(val.comparators[0]))
            return None, 1
        # ---- step 3
        if (
            isinstance(tgt, ast.Subscript)
            and self.state_attr(tgt.value, "col_uncovered")
            and isinstance(tgt.slice, ast.Call)
            and self.marked_alias
            and u(tgt.slice) == f"np.any({self.marked_alias[0]}, axis=0)"
            and is_const(val, False)
        ):
            return f"(.coverColsAnyEq {self.marked_alias[1]})", 1
        # ---- step 4 local matrices
        if t == "C = (state.C == 0).astype(int)":
            return ".initCz", 1
        if t == "covered_C = C * state.row_uncovered[:, np.newaxis]":
            if nxt is None or u(nxt) != "covered_C *= np.asarray(state.col_uncovered, dtype=int)":
                fail(nd, "covered_C must be masked by the uncovered columns next")
            return ".initCov", 2
        if isinstance(tgt, ast.Subscript) and isinstance(tgt.value, ast.Name) and tgt.value.id == "covered_C":
            sl = tgt.slice
            if isinstance(sl, ast.Tuple) and len(sl.elts) == 2 and self.is_full_slice(sl.elts[0]):
                c = u(sl.elts[1])
                if u(val) != f"C[:, {c}] * np.asarray(state.row_uncovered, dtype=int)":
                    fail(nd, "unsupported column refresh of covered_C")
                return f"(.covSetCol {self.ne(sl.elts[1])})", 1
            if not isinstance(sl, (ast.Tuple, ast.Slice)) and is_const(val, 0):
                return f"(.covZeroRow {self.ne(sl)})", 1
            fail(nd, "unsupported assignment into covered_C")
        if isinstance(tgt, ast.Tuple) and u(tgt) == "(row, col)":
            if u(val) != "np.unravel_index(np.argmax(covered_C), (n, m))" or self.shape_names != {"n": 0, "m": 1}:
                fail(nd, "unsupported tuple assignment")
            return "(.seq (.assignN .row (.argmaxFlatRow .cov)) (.assignN .col (.argmaxFlatCol .cov)))", 1
        # ---- step 6
        if t == "minval = np.min(state.C[state.row_uncovered], axis=0)" or (
            isinstance(tgt, ast.Name) and tgt.id == "minval"
        ):
            if not (
                isinstance(val, ast.Call)
                and u(val.func) == "np.min"
                and len(val.args) == 1
                and len(val.keywords) == 1
                and val.keywords[0].arg == "axis"
                and is_const(val.keywords[0].value, 0)
                and isinstance(val.args[0], ast.Subscript)
                and self.state_attr(val.args[0].value, "C")
            ):
                fail(nd, "unsupported minval")
            rows = self.mask(val.args[0].slice)
            if not (
                nxt is not None
                and isinstance(nxt, ast.Assign)
                and u(nxt.targets[0]) == "minval"
                and isinstance(nxt.value, ast.Call)
                and u(nxt.value.func) == "np.min"
                and len(nxt.value.args) == 1
                and not nxt.value.keywords
                and isinstance(nxt.value.args[0], ast.Subscript)
                and u(nxt.value.args[0].value) == "minval"
            ):
                fail(nd, "minval must be reduced over the selected columns next")
            cols = self.mask(nxt.value.args[0].slice)
            return f"(.minvalOver {rows} {cols})", 2
        # ---- state fields
        if self.state_attr(tgt, "Z0_r"):
            return f"(.setZ0r {self.ne(val)})", 1
        if self.state_attr(tgt, "Z0_c"):
            return f"(.setZ0c {self.ne(val)})", 1
        if isinstance(tgt, ast.Subscript) and self.state_attr(tgt.value, "marked"):
            s = self.sub2(tgt)
            if s:
                return f"(.setMarked {self.ne(s[1])} {self.colidx(s[2])} {nat_const(val)})", 1
            sl = tgt.slice
            if isinstance(sl, ast.Compare) and u(sl.left) == "state.marked" and isinstance(sl.ops[0], ast.Eq) and is_const(val, 0):
                return f"(.eraseMarkedEq {nat_const(sl.comparators[0])})", 1
            fail(nd, "unsupported assignment into state.marked")
        for attr, ctor in (("row_uncovered", "setRowUnc"), ("col_uncovered", "setColUnc")):
            if isinstance(tgt, ast.Subscript) and self.state_attr(tgt.value, attr):
                if isinstance(tgt.slice, (ast.Tuple, ast.Slice)) or not (is_const(val, True) or is_const(val, False)):
                    fail(nd, "unsupported cover assignment")
                return f"(.{ctor} {self.ne(tgt.slice)} {lean_bool(val.value)})", 1
        s = self.sub2(tgt)
        if s and self.is_path(s[0]):
            if is_const(s[2], 0):
                return f"(.setPathRow {self.ne(s[1])} {self.ne(val)})", 1
            if is_const(s[2], 1):
                return f"(.setPathCol {self.ne(s[1])} {self.ze(val)})", 1
            fail(nd, "unsupported assignment into path")
        # ---- scalar locals
        if isinstance(tgt, ast.Name):
            if tgt.id in self.zvars:
                return f"(.assignZ .col {self.ze(val)})", 1
            if tgt.id in NVARS:
                if tgt.id in ("n", "m"):
                    ax = {"state.C.shape[0]": 0, "state.C.shape[1]": 1}.get(u(val))
                    if ax is None or tgt.id in self.shape_names:
                        fail(nd, "n, m must be assigned once, from state.C.shape")
                    self.shape_names[tgt.id] = ax
                return f"(.assignN .{NVARS[tgt.id]} {self.ne(val)})", 1
        fail(nd, "unsupported assignment")

    def translate(self) -> str:
        if [a.arg for a in self.f.args.args] != ["state"] or self.f.decorator_list:
            fail(self.f, "a step takes exactly `state`")
        return self.block(self.f.body)


def lean_bool(b) -> str:
    return "true" if b else "false"


# ---------------------------------------------------------------------------------------------------
# _Hungary


def translate_hungary(cls: ast.ClassDef):
    init = clear = None
    for nd in cls.body:
        if isinstance(nd, ast.FunctionDef) and nd.name == "__init__":
            init = nd
        elif isinstance(nd, ast.FunctionDef) and nd.name == "_clear_covers":
            clear = nd
        elif isinstance(nd, ast.Expr) and is_const(nd.value):
            continue
        else:
            fail(nd, "unexpected member of _Hungary")
    if init is None or clear is None:
        fail(cls, "_Hungary needs __init__ and _clear_covers")
    got = {}
    for nd in init.body:
        t = u(nd)
        if t == "self.C = cost_matrix.copy()":
            got["copies"] = True
        elif t == "(n, m) = self.C.shape" or t == "n, m = self.C.shape":
            got["shape"] = True
        elif isinstance(nd, ast.Assign) and u(nd.targets[0]) in ("self.row_uncovered", "self.col_uncovered"):
            k = "rowUnc" if "row" in u(nd.targets[0]) else "colUnc"
            dim = "n" if k == "rowUnc" else "m"
            v = u(nd.value)
            if v == f"np.ones({dim}, dtype=bool)":
                got[k] = True
            elif v == f"np.zeros({dim}, dtype=bool)":
                got[k] = False
            else:
                fail(nd, "unsupported cover initialiser")
        elif isinstance(nd, ast.Assign) and u(nd.targets[0]) in ("self.Z0_r", "self.Z0_c"):
            got["z0r" if u(nd.targets[0]).endswith("r") else "z0c"] = nat_const(nd.value)
        elif t == "self.path = np.zeros((n + m, 2), dtype=int)":
            got["pathFill"], got["pathRowsNM"] = 0, True
        elif t == "self.marked = np.zeros((n, m), dtype=int)":
            got["marked"] = 0
        else:
            fail(nd, "unsupported statement in _Hungary.__init__")
    need = {"copies", "shape", "rowUnc", "colUnc", "z0r", "z0c", "pathFill", "pathRowsNM", "marked"}
    if set(got) != need:
        fail(init, f"_Hungary.__init__ misses {sorted(need - set(got))}")
    cl = {}
    for nd in clear.body:
        if isinstance(nd, ast.Expr) and is_const(nd.value):
            continue
        if isinstance(nd, ast.Assign) and u(nd.targets[0]) in ("self.row_uncovered[:]", "self.col_uncovered[:]") and isinstance(nd.value, ast.Constant) and type(nd.value.value) is bool:
            cl["row" if "row" in u(nd.targets[0]) else "col"] = nd.value.value
        else:
            fail(nd, "unsupported statement in _clear_covers")
    if set(cl) != {"row", "col"}:
        fail(clear, "_clear_covers must set both covers")
    spec = (
        "{ rowUnc := %s, colUnc := %s, z0r := %d, z0c := %d, marked := %d, pathFill := %d, pathRowsNM := %s, copies := %s }"
        % (lean_bool(got["rowUnc"]), lean_bool(got["colUnc"]), got["z0r"], got["z0c"], got["marked"], got["pathFill"], lean_bool(got["pathRowsNM"]), lean_bool(got["copies"]))
    )
    return spec, (cl["row"], cl["col"])


# ---------------------------------------------------------------------------------------------------
# linear_sum_assignment

WIDEN = (
    "if cost_matrix.dtype == np.dtype(bool):\n    cost_matrix = cost_matrix.astype(int)\n"
    "elif cost_matrix.dtype.kind in 'iu' and cost_matrix.dtype.itemsize < 8:\n    cost_matrix = cost_matrix.astype(np.int64)\n"
    "elif cost_matrix.dtype.kind == 'f' and cost_matrix.dtype.itemsize < 8:\n    cost_matrix = cost_matrix.astype(np.float64)"
)
WIDEN_OLD = "if cost_matrix.dtype == np.dtype(bool):\n    cost_matrix = cost_matrix.astype(int)"


def raise_kind(nd: ast.If):
    if nd.orelse or len(nd.body) != 1 or not isinstance(nd.body[0], ast.Raise):
        fail(nd, "expected `if …: raise ValueError(...)`")
    exc = nd.body[0].exc
    if not (isinstance(exc, ast.Call) and u(exc.func) == "ValueError" and exc.args):
        fail(nd, "expected ValueError")
    msg = exc.args[0]
    if isinstance(msg, ast.BinOp):
        msg = msg.left
    if not (is_const(msg) and isinstance(msg.value, str)):
        fail(nd, "expected a literal message")
    for prefix, kind in (("expected a matrix (2-d array)", "ndim"), ("expected a matrix containing numerical", "dtype"), ("matrix contains invalid numeric", "nonfinite")):
        if msg.value.startswith(prefix):
            return kind
    fail(nd, "unknown refusal message")


def translate_main(f: ast.FunctionDef):
    args = [a.arg for a in f.args.args]
    if args != ["cost_matrix", "return_cost"] or len(f.args.defaults) != 1 or not is_const(f.args.defaults[0], False):
        fail(f, "unexpected signature")
    out = []
    cmpops = {ast.Lt: "lt", ast.Gt: "gt", ast.LtE: "le", ast.GtE: "ge"}
    for nd in f.body:
        t = u(nd)
        if isinstance(nd, ast.Expr) and is_const(nd.value):
            continue
        if t == "cost_matrix = np.asarray(cost_matrix)":
            out.append(".asarray")
        elif isinstance(nd, ast.If) and u(nd.test).startswith("len(cost_matrix.shape) != "):
            out.append(f".raiseIfNdimNe {nat_const(nd.test.comparators[0])} .{raise_kind(nd)}")
        elif isinstance(nd, ast.If) and u(nd.test) == "not (np.issubdtype(cost_matrix.dtype, np.number) or cost_matrix.dtype == np.dtype(bool))":
            out.append(f".raiseIfNotNumeric .{raise_kind(nd)}")
        elif isinstance(nd, ast.If) and u(nd.test) == "np.any(np.isinf(cost_matrix) | np.isnan(cost_matrix))":
            out.append(f".raiseIfAnyNonfinite .{raise_kind(nd)}")
        elif t in (WIDEN, WIDEN_OLD):
            out.append(".widenDtype")
        elif isinstance(nd, ast.If) and isinstance(nd.test, ast.Compare) and u(nd.test.left).startswith("cost_matrix.shape["):
            c = nd.test
            ax = {"cost_matrix.shape[0]": 0, "cost_matrix.shape[1]": 1}
            op = next((v for k, v in cmpops.items() if isinstance(c.ops[0], k)), None)
            if len(c.ops) != 1 or op is None or u(c.left) not in ax or u(c.comparators[0]) not in ax:
                fail(nd, "unsupported shape test")
            if [u(x) for x in nd.body] != ["cost_matrix = cost_matrix.T", "transposed = True"] or [u(x) for x in nd.orelse] != ["transposed = False"]:
                fail(nd, "unsupported transposition")
            out.append(f".transposeIf {ax[u(c.left)]} .{op} {ax[u(c.comparators[0])]}")
        elif t == "state = _Hungary(cost_matrix)":
            out.append(".mkState")
        elif isinstance(nd, ast.Assign) and u(nd.targets[0]) == "step":
            v = nd.value
            if not (isinstance(v, ast.IfExp) and is_const(v.body, None) and u(v.test) == "0 in cost_matrix.shape" and isinstance(v.orelse, ast.Name) and v.orelse.id in STEPS):
                fail(nd, "unsupported first step")
            out.append(f".firstStep true .{STEPS[v.orelse.id]}")
        elif t == "while step is not None:\n    step = step(state)":
            out.append(".loop")
        elif t == "if transposed:\n    marked = state.marked.T\n    reduced_cost = state.C.T\nelse:\n    marked = state.marked\n    reduced_cost = state.C":
            out.append(".untransposeIf")
        elif isinstance(nd, ast.If) and u(nd.test) == "return_cost":
            a, b = nd.body, nd.orelse
            if not (len(a) == 1 and len(b) == 1 and isinstance(a[0], ast.Return) and isinstance(b[0], ast.Return)):
                fail(nd, "unsupported read-out")
            ra, rb = a[0].value, b[0].value
            if not (isinstance(ra, ast.Tuple) and len(ra.elts) == 2 and u(ra.elts[1]) == "reduced_cost" and u(ra.elts[0]) == u(rb)):
                fail(nd, "both returns must give the same index arrays")
            call = rb
            if not (isinstance(call, ast.Call) and u(call.func) == "np.nonzero" and len(call.args) == 1 and isinstance(call.args[0], ast.Compare) and u(call.args[0].left) == "marked" and isinstance(call.args[0].ops[0], ast.Eq)):
                fail(nd, "unsupported read-out")
            out.append(f".retNonzeroEq {nat_const(call.args[0].comparators[0])}")
        else:
            fail(nd, "unsupported statement in linear_sum_assignment")
    return out


# ---------------------------------------------------------------------------------------------------


def _c(s: str) -> str:
    return s.replace("-/", "- /").replace("/-", "/ -")


def translate_source(text: str) -> str:
    mod = ast.parse(text)
    fns, cls = {}, None
    for nd in mod.body:
        if isinstance(nd, ast.FunctionDef):
            fns[nd.name] = nd
        elif isinstance(nd, ast.ClassDef) and nd.name == "_Hungary":
            cls = nd
        elif isinstance(nd, (ast.Import, ast.ImportFrom)) or (isinstance(nd, ast.Expr) and is_const(nd.value)):
            continue
        else:
            fail(nd, "unexpected top-level statement")
    need = set(STEPS) | {"linear_sum_assignment"}
    if set(fns) != need or cls is None:
        raise Untranslatable(f"scipy_hungarian.py: expected exactly the functions {sorted(need)} and class _Hungary, got {sorted(fns)}")
    init, clear = translate_hungary(cls)
    out = [
        "import QcelVerif.Model.MunkresAst",
        "/-! GENERATED by harness/c14_src.py from qcelemental/util/scipy_hungarian.py on every run of the check — do not edit.",
        "One `Stmt` per step function, the constants of `_Hungary`, the statements of `linear_sum_assignment`. -/",
        "namespace QcelVerif.Gen.MunkresSrc",
        "open QcelVerif.Munkres QcelVerif.MunkresAst",
        "",
    ]
    for name in sorted(STEPS):
        f = fns[name]
        term = Fn(f, clear).translate()
        out.append(f"/-- scipy_hungarian.py:{f.lineno}-{f.end_lineno}  `{name}` -/")
        out.append(f"def {name[1:]} : Stmt :=\n  {term}\n")
    main = translate_main(fns["linear_sum_assignment"])
    out.append(f"/-- scipy_hungarian.py:{cls.lineno}-{cls.end_lineno}  `_Hungary.__init__` -/")
    out.append(f"def init : InitSpec :=\n  {init}\n")
    lf = fns["linear_sum_assignment"]
    out.append(f"/-- scipy_hungarian.py:{lf.lineno}-{lf.end_lineno}  `linear_sum_assignment` -/")
    out.append("def main : List PStmt :=\n  [" + ",\n   ".join(main) + "]\n")
    out.append("def prog : Prog :=\n  { init := init, step1 := step1, step3 := step3, step4 := step4, step5 := step5, step6 := step6, main := main }\n")
    out.append("end QcelVerif.Gen.MunkresSrc\n")
    return "\n".join(out)


def gen_munkres_src(ctx=None) -> None:
    """lean/QcelVerif/Gen/MunkresSrc.lean <- qcelemental/util/scipy_hungarian.py"""
    body = translate_source(common.REPO.joinpath(*SRC).read_text())
    f = common.LEAN.joinpath(*OUT)
    f.parent.mkdir(exist_ok=True)
    if not f.exists() or f.read_text() != body:
        f.write_text(body)


if __name__ == "__main__":
    import sys

    root = Path(sys.argv[1] if len(sys.argv) > 1 else "/repo")
    print(translate_source(root.joinpath(*SRC).read_text()))
