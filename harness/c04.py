"""C04 — a validated molecule is complete, consistent and a fixed point of validation.

Correspondence (Lean model `Model/FromArrays.lean` vs the real `from_arrays` / `from_schema` /
`Molecule(...)`) + an independent Python oracle stating the record invariant and the refusal
classes directly on the implementation's answers.

The per-atom reconciler (`reconcile_nucleus`, property C06) is a *parameter* of the model: every
line carries, for every atom, the clues and the answer of the implementation's own
`reconcile_nucleus` called by this harness with exactly those clues and the settings `from_arrays`
is documented to forward.  A wrong argument / atom / setting in the way `from_arrays` calls the
reconciler therefore shows as a disagreement; what the reconciler answers is C06's business.
"""
from __future__ import annotations

import contextlib
import io
import json
from fractions import Fraction

import numpy as np

import common
from common import Ctx, Finding, Outcome, err_class

import sys

sys.path.insert(0, str(common.VERIF / "tools"))
import c04_src  # noqa: E402  (source translator: three stage functions of from_arrays.py -> Gen/FromArraysSrc.lean)
import gen_periodic  # noqa: E402  (the C06 model behind Driver/C04b.lean reads the generated periodic table)

PROPERTY = "C04"
LEAN_TARGETS = ["QcelVerif.Props.C04", "QcelVerif.Driver.C04", "QcelVerif.Props.C04C06", "QcelVerif.Driver.C04b",
                "QcelVerif.Model.FromArraysSchema", "QcelVerif.Lemmas.C04Schema", "QcelVerif.Props.C04Schema",
                "QcelVerif.Lemmas.C04SchemaBridge", "QcelVerif.Props.C04SchemaBridge", "QcelVerif.Driver.C04c",
                # extension C04b: the fixed point at the default settings with no hypothesis on the atoms
                "QcelVerif.Lemmas.C04Rd64", "QcelVerif.Props.C04DefaultNuc", "QcelVerif.Props.C04DefaultTabA",
                "QcelVerif.Props.C04DefaultTabB", "QcelVerif.Props.C04DefaultTabC", "QcelVerif.Props.C04DefaultTabD", "QcelVerif.Props.C04DefaultTabE",
                "QcelVerif.Props.C04Default", "QcelVerif.Props.C04DefaultText",
                # extension C04d: validate_and_fill_geometry / _nuclei / _fragments regenerated from the source and proved equal to the hand models
                "QcelVerif.Model.FromArraysAst", "QcelVerif.Props.C04Src"]
DRIVER = "QcelVerif/Driver/C04.lean"
# second stream: the same lines through a driver that COMPUTES the per-atom reconciliation with the C06 model
# (Model/ReconC06.lean) instead of reading the implementation's answers from the line — from_arrays end to end in Lean
DRIVER_C06 = "QcelVerif/Driver/C04b.lean"
# third stream: every accepted record through to_schema(dtype=1|2, units='Bohr') -> from_schema; the driver evaluates
# fromSchema (toSchemaU P r dtype) (ops TS / TS6), the dictionary itself (TSd) and the hypotheses + predicted image of the
# theorem schema_roundtrip (TSh)
DRIVER_TS = "QcelVerif/Driver/C04c.lean"
TRANSLATORS = [gen_periodic.main, c04_src.gen_from_arrays_src]
THEOREMS = [
    ("QcelVerif.FromArrays.from_arrays_inv",
     "fromArrays env i = ok r -> Inv r (equal per-atom lengths, 3 coordinates per atom, every atom's (A,Z,E,mass,real,label) "
     "valid in the reconciler's sense [hypothesis NucSound, C06], no pair closer than tooclose, fragments = non-empty consecutive "
     "blocks covering 0..nat-1, len(fc)=len(fm)=len(seps)+1, c = sum fc and every (charge, multiplicity) feasible [C05 Rules], "
     "units in {Angstrom,Bohr}, bonds normalised and sorted) — any number of atoms"),
    ("QcelVerif.FromArrays.from_arrays_idempotent",
     "fromArrays env i = ok r -> fromArrays env (asInput i r) = ok r, under hypothesis NucIdem (C06) — the record fed back "
     "(speclabel=False) is returned unchanged"),
    ("QcelVerif.FromArrays.from_schema_inv", "fromSchema env s = ok r -> Inv r (Bohr, default tooclose/mtol)"),
    ("QcelVerif.FromArrays.refuses_unknown_unit", "units.capitalize() not in {Angstrom, Bohr} -> ValidationError"),
    ("QcelVerif.FromArrays.refuses_geom_not_3n", "geometry size not a multiple of 3 -> ValidationError"),
    ("QcelVerif.FromArrays.refuses_too_close", "some pair of atoms closer than tooclose -> ValidationError"),
    ("QcelVerif.FromArrays.refuses_length_mismatch", "a supplied per-atom array whose length is not nat -> ValidationError"),
    ("QcelVerif.FromArrays.refuses_bad_separators",
     "separators whose trial split has an empty block (empty / unsorted / out of range; nat > 0) -> never ok"),
    ("QcelVerif.FromArrays.refuses_fragment_length_mismatch", "len(fragment_charges) or len(fragment_multiplicities) != len(separators)+1 -> never ok"),
    ("QcelVerif.FromArrays.errors_are_validation",
     "every refusal of fromArrays is ValidationError unless the per-atom reconciler itself raised another class (propagated)"),
    ("QcelVerif.FromArrays.accepted_separators_sorted",
     "non-negative separators whose split has no empty block are strictly increasing inside (0, nat) (so empty/unsorted/out-of-range ones give an empty block)"),
    ("QcelVerif.FromArrays.seps_pattern_roundtrip",
     "for separators passing the trial split: the pattern np.split(arange(nat), seps) written by to_schema flattens to arange(nat) "
     "and contiguize gives back the canonical separators, which split every array exactly as the original ones"),
    # ---- C04 o C06 (Props/C04C06.lean): the reconciler parameter instantiated with the C06 model over the shipped table
    ("QcelVerif.FromArrays.recon_c06_sound_shipped",
     "NucSound discharged: every answer of the C06 model (shipped table, ANY rounding function) behind the adapter is ValidC06 — a table row (Z,E); "
     "A = -1 or E+str(A) tabulated with mass equal / float-evaluated within mtol; physical ranges unless nonphysical; real a bool; tag lower-case"),
    ("QcelVerif.FromArrays.recon_c06_respects_clues", "the adapted reconciler returns every supplied Z, A, float(mass), real; real=True when nothing says otherwise"),
    ("QcelVerif.FromArrays.from_arrays_inv_c06",
     "UNCONDITIONAL: fromArrays (envC06 rd a) i = ok r -> Inv r with every atom ValidC06 (no hypothesis on the reconciler left; any rounding function)"),
    ("QcelVerif.FromArrays.from_schema_inv_c06", "UNCONDITIONAL: the same through fromSchema (Bohr, default tooclose/mtol)"),
    ("QcelVerif.FromArrays.recon_c06_idem_partial",
     "PARTIAL NucIdem: an answer that is SelfConsistent (mass a rounded number; round(mass) names E+str(A) within mtol, or nothing and A = -1) fed back with "
     "speclabel=False is answered by itself; any coherent round-tripping table, any odd rounding function. FULL NucIdem is false (recon_c06_not_idem)"),
    ("QcelVerif.FromArrays.recon_c06_idem_mass_clue_fix", "NucIdem whenever the mass clue m was supplied and rd (rd m) = rd m (e.g. m already a double); odd rounding function"),
    ("QcelVerif.FromArrays.recon_c06_idem_mass_clue", "NucIdem in full whenever the mass clue was supplied (odd idempotent rounding function)"),
    ("QcelVerif.FromArrays.recon_c06_idem_on_feedback", "NucIdem in full on clues that are themselves a fed-back answer (clueOf v always carries the mass)"),
    ("QcelVerif.FromArrays.recon_c06_not_idem",
     "NucIdem (reconOfC06 rd64) is FALSE [decide +kernel, shipped table]: A=2, Z=1, mtol=2 -> (2,1,'H',mass(H1)), fed back -> ValidationError (replayed on the implementation)"),
    ("QcelVerif.FromArrays.from_arrays_idempotent_c06_partial",
     "PARTIAL: fromArrays (envC06 rd a) i = ok r and every atom of r SelfConsistent for i.mtol -> fromArrays (asInput i r) = ok r (odd rounding function; shipped_coherent discharged)"),
    ("QcelVerif.FromArrays.from_arrays_idempotent_c06_masses_fix", "fixed point when every mass was supplied and each supplied m has rd (rd m) = rd m (odd rounding function)"),
    ("QcelVerif.FromArrays.from_arrays_idempotent_c06_masses", "full fixed point when every mass was supplied (odd idempotent rounding function)"),
    ("QcelVerif.FromArrays.from_arrays_second_pass_c06",
     "from the second pass on from_arrays is a projection: fromArrays (asInput i r) = ok r' -> fromArrays (asInput i r') = ok r', for ANY r (odd idempotent rounding function)"),
    ("QcelVerif.FromArrays.from_arrays_second_pass_c06_rd64",
     "the same for rd64 with no hypothesis on the rounding function: the masses of the fed-back record are binary64 numbers (rd64 m = m)"),
    ("QcelVerif.FromArrays.from_arrays_idempotent_c06_plain",
     "UNCONDITIONAL for rd64 + shipped table: no elea, no mass, labels not consulted as nucleus specs, mtol >= 0 -> the record fed back is returned unchanged"),
    ("QcelVerif.FromArrays.shipped_default_rederives", "[decide +kernel over the element rows] under rd64 every default mass rounds half-even to its default mass number and is a double"),
    ("QcelVerif.FromArrays.from_arrays_not_idempotent_c06",
     "[decide +kernel, whole pipeline] one H atom, elea=[2], elez=[1], mtol=2: the record (A=2, mass of H1) is returned and fed back it is refused — why the partial theorem needs SelfConsistent"),
    ("QcelVerif.FromArrays.rd64_odd", "rd64 (-x) = -(rd64 x): the oddness hypothesis of the idempotence theorems holds for the driver's rounding function"),
    ("QcelVerif.FromArrays.driver_recon_eq", "the reconciler run by Driver/C04b.lean (memoised per-element ranges) is reconOfC06 rd64"),
    ("QcelVerif.FromArrays.selfConsistentB_iff", "the driver's per-atom test (ops FAq/FSq) decides SelfConsistent — the hypothesis of the partial theorem is evaluated on every accepted record"),
    # ---- the schema round trip (Props/C04Schema.lean; model additions in Model/FromArraysSchema.lean)
    ("QcelVerif.FromArrays.schema_roundtrip",
     "dtype 1 and 2, any number of atoms/fragments, ANY reconciler: Inv r, at least one atom, the exported geometry passes the default overlap screen, every atom re-validates to itself "
     "under from_schema's settings (speclabel=False, caller's nonphysical, default mtol) -> fromSchema env (toSchemaU P r v) = ok (schemaImage P r): r with units='Bohr', no input_units_to_au, "
     "name defaulted by formula_generator, geometry as exported, canonical separators; everything else unchanged"),
    ("QcelVerif.FromArrays.schema_roundtrip_of_from_arrays",
     "the same for a record returned by fromArrays (default mtol, the nonphysical flag later given to from_schema) under NucIdem: the per-atom hypothesis discharged generically"),
    ("QcelVerif.FromArrays.schema_roundtrip_twice", "under the same hypotheses the image exported again (either dtype) and read back is returned unchanged: r'' = r'"),
    ("QcelVerif.FromArrays.schemaImage_idem", "schemaImage is a projection: schemaImage (schemaImage r) = schemaImage r"),
    ("QcelVerif.FromArrays.schema_roundtrip_bohr_named",
     "a validated record in Bohr without input_units_to_au, with a name, non-negative separators, validated with tooclose >= the default comes back as ITSELF"),
    ("QcelVerif.FromArrays.toSchemaU_bohr", "for a record in Bohr (nonphysical=False) toSchemaU is the earlier Bohr-only model toSchema"),
    ("QcelVerif.FromArrays.exported_geometry_bohr",
     "geometry in the schema = stored geometry when the record is in Bohr; else each coordinate is ONE rounded product with the record's own input_units_to_au (Angstrom, present) "
     "or conversion_factor(units,'Bohr'); both dtypes"),
    ("QcelVerif.FromArrays.exported_geometry_length", "the export keeps three coordinates per atom"),
    ("QcelVerif.FromArrays.roundtripHypB_iff", "the driver's test (op TSh) decides the three extra hypotheses of schema_roundtrip — they are evaluated on every record of the third stream"),
    ("QcelVerif.FromArrays.geometry_hyp_of_bohr", "a record in Bohr validated with tooclose^2 >= default^2 passes from_schema's overlap screen"),
    ("QcelVerif.FromArrays.schema_roundtrip_c06_partial",
     "PARTIAL (C06 model, shipped table, odd rounding): record of fromArrays with default mtol whose atoms are SelfConsistent -> round trip = schemaImage. FULL = without SelfConsistent: "
     "not formalised for an isotope given without mass (as recon_c06_idem_partial)"),
    ("QcelVerif.FromArrays.schema_roundtrip_c06_masses", "C06 model: every mass supplied (rd (rd m) = rd m) -> round trip, no hypothesis on the atoms"),
    ("QcelVerif.FromArrays.schema_roundtrip_c06_plain", "C06 model under rd64, plain molecules (no elea, no mass, labels not consulted): round trip with no residual hypothesis on reconciler or rounding"),
    ("QcelVerif.FromArrays.schema_roundtrip_twice_c06",
     "C06 model: EVERY record that came out of fromSchema (any dictionary, masses given and rounded) round-trips to schemaImage and the second trip is the identity; tooclose, mtol, non-empty "
     "geometry need no hypothesis (from_schema fixed them)"),
    ("QcelVerif.FromArrays.from_schema_refuses_unrecognised", "schema_name/schema_version not one of the two recognised combinations -> ValidationError"),
    ("QcelVerif.FromArrays.from_schema_refuses_bad_pattern",
     "a fragment pattern whose concatenation is not 0..nat-1 (skipped / repeated / out-of-range atom, interleaved or permuted fragments, offset) -> ValidationError, never a reordering"),
    ("QcelVerif.FromArrays.from_schema_refuses_single_offset", "one fragment that is not [0..len-1] (e.g. [[1,2,3]]; accepted before /repo 35873b6) -> ValidationError"),
    ("QcelVerif.FromArrays.from_schema_refuses_wrong_length", "a per-atom array of the dictionary whose length is not nat -> ValidationError"),
    ("QcelVerif.FromArrays.from_schema_refuses_dropped_atoms", "geometry not holding 3 coordinates for each atom of the pattern (not 3n — bare ValueError before /repo 3c92794 — or dropped atoms) -> ValidationError"),
    ("QcelVerif.FromArrays.schema_roundtrip_needs_atoms", "[decide +kernel] why 'at least one atom' is needed: the atom-less record satisfies Inv and its dictionary is refused by from_schema"),
    ("QcelVerif.FromArrays.schema_roundtrip_needs_geometry", "[decide +kernel] why the overlap hypothesis is needed: a Bohr record validated with tooclose=0.01 holding atoms 0.05 apart is refused by from_schema"),
    # ---- C04 <-> C09 (Props/C04SchemaBridge.lean): the two record-level schema models
    ("QcelVerif.FromArrays.bridge_args", "the from_arrays arguments the C09 model (Model/MolSchema.lean) derives from a to_schema dictionary are the C04 model's schemaInp, field by field"),
    ("QcelVerif.FromArrays.bridge_image", "C09's expected record inBohr is C04's schemaImage (through toMS)"),
    ("QcelVerif.FromArrays.c09_roundtrip_discharged",
     "C09's MolSchema.schema_roundtrip with its from_arrays PARAMETER instantiated by the C04 model: hypothesis hfa discharged under C04's hypotheses; both dtypes incl. the dtype-1 nesting "
     "(scope: exact products, non-negative separators)"),
    # ---- extension C04b (Lemmas/C04Rd64.lean, Props/C04DefaultNuc.lean, C04DefaultTab{A..E}.lean, C04Default.lean, C04DefaultText.lean)
    ("QcelVerif.Nucleus.rd64_idem", "rd64 (rd64 x) = rd64 x for EVERY rational x: a binary64 number rounds to itself (with ilog2_spec: 2^ilog2(a) <= a < 2^(ilog2(a)+1)); discharges the "
     "'rd idempotent' residual of the supplied-mass theorems for the driver's rounding function"),
    ("QcelVerif.Nucleus.rederives_of_A_clue",
     "ANY table with (T1) every tabulated mass rounds half-even to its mass number and (T2) no element's default mass within B of another of its nuclides [IsotopesReDerive], ANY odd rounding "
     "function, nonphysical=False, 0 <= mtol <= B, a mass-number clue (argument or label) and NO mass clue: the returned mass is the tabulated mass of E+str(A) and, read back as a mass clue, "
     "suggests exactly the returned A"),
    ("QcelVerif.FromArrays.selfConsistent_of_A_clue", "the same through the C04 adapter: the answer to clues with a mass number and no mass is SelfConsistent (odd + idempotent rounding)"),
    ("QcelVerif.FromArrays.shipped_isotopes_rederive",
     "[decide +kernel, every element row x every mass number of its tabulated range, 30 obligations of 4 rows] (T1)+(T2) hold for the generated periodic table under rd64 with B = 0.9865 u"),
    ("QcelVerif.FromArrays.narrow_window_selfconsistent",
     "C06 model, shipped table, rd64: nonphysical=False and 0 <= mtol <= 0.9865 -> EVERY successful answer (any clues, either speclabel) is SelfConsistent; no hypothesis on answer, clues or rounding"),
    ("QcelVerif.FromArrays.default_settings_selfconsistent", "the instance at the default settings (mtol = 1.0e-3, nonphysical=False): reconcile i = ok o -> SelfConsistent o"),
    ("QcelVerif.FromArrays.recon_c06_idem_narrow", "NucIdem restricted to nonphysical=False, 0 <= mtol <= 0.9865 — full: the answer fed back (speclabel=False) is answered by itself"),
    ("QcelVerif.FromArrays.recon_c06_idem_default", "... at the default settings"),
    ("QcelVerif.FromArrays.from_arrays_idempotent_narrow",
     "fromArrays (envC06 rd64 a) i = ok r, nonphysical=False, 0 <= mtol <= 0.9865 -> fromArrays (asInput i r) = ok r: whatever was supplied (incl. a mass number without a mass), no hypothesis on the atoms"),
    ("QcelVerif.FromArrays.from_arrays_idempotent_default", "the property's fixed-point clause at the default settings (mtol = 1.0e-3, nonphysical=False): every successful build fed back is returned unchanged"),
    ("QcelVerif.FromArrays.from_arrays_idempotent_default_elea",
     "non-vacuity on the formerly open class: deuterium by elea only, tritium by label '3H' only, ghost '@2h_x', oxygen — accepted [decide +kernel] and a fixed point BY THE THEOREM"),
    ("QcelVerif.FromArrays.window_bound_sharp",
     "[decide +kernel] the bound is sharp: at mtol = 0.9866 reconcile(A=3, E='He') returns A=3 with the mass of He-4, which is not SelfConsistent and fed back is a ValidationError (replayed on the implementation)"),
    ("QcelVerif.FromArrays.from_arrays_window_bound_sharp", "[decide +kernel, whole pipeline] one He atom, elea=[3], mtol=0.9866: the record is returned and fed back it is refused"),
    ("QcelVerif.FromArrays.schema_roundtrip_default",
     "schema_roundtrip_c06_partial WITHOUT hself: record of fromArrays at the default settings (nonphysical=False on both sides), >= 1 atom, exported geometry passes the overlap screen -> "
     "from_schema(to_schema(r, 1|2)) = schemaImage r"),
    ("QcelVerif.FromArrays.schema_roundtrip_twice_default", "... and the second trip (either dtype) is the identity"),
    ("QcelVerif.FromArrays.schema_roundtrip_twice_default_of_schema",
     "EVERY record that came out of fromSchema with nonphysical=False (ANY dictionary: partial arrays, isotopes by mass_numbers only, labels) round-trips and the second trip is the identity — "
     "schema_roundtrip_twice_c06 without 'masses given and rounded'"),
    ("QcelVerif.TextToMol.read_write_validated_psi4_default",
     "C07's read_write_validated_psi4 with its fixed-point hypothesis hfix replaced by 'r was built by fromArrays at the default settings' (every other hypothesis C07's, unchanged)"),
    ("QcelVerif.TextToMol.read_write_validated_xyzplus_default", "C07's read_write_validated_xyzplus likewise"),
    ("QcelVerif.TextToMol.text_roundtrip_same_hash_default", "C07's headline text_roundtrip_same_hash likewise: Molecule -> psi4 text -> Molecule keeps the hash for every record built at the default settings"),
    # ---- extension C04d (Props/C04Src.lean): the stage logic regenerated from the source
    ("QcelVerif.FromArrays.translation_ok", "the translator harness/c04_src.py recognised every statement of validate_and_fill_geometry / _nuclei / _fragments (an unknown shape leaves ok := false)"),
    ("QcelVerif.FromArrays.evalGeom_eq", "the program generated from validate_and_fill_geometry (reshape refusal, metric = tooclose**2, pair loop over x < y, `dists < metric`, final raise), run by the evaluator, equals the hand model validateGeometry for every threshold and geometry"),
    ("QcelVerif.FromArrays.evalNuclei_eq", "the program generated from validate_and_fill_nuclei (six None fills, -1 = None rebuild of elea, the chained shape comparison before the `if nat:` guard, the per-atom reconcile_nucleus loop over range(nat)) equals the hand model validateNuclei for every reconciler, atom count and input"),
    ("QcelVerif.FromArrays.evalFragments_eq", "the statement-by-statement program generated from validate_and_fill_fragments (None dispatch, trial np.split, empty-fragment test under nat != 0, sum-of-lengths test, None * nfr fills, len(frc) == len(frm) == len(frs) + 1) equals the hand model validateFragments for all arguments"),
    ("QcelVerif.FromArrays.fromArraysWith_eq", "from_arrays with its geometry / nuclei / fragment stages taken from the source-derived programs equals the hand model fromArrays for every environment and input"),
    ("QcelVerif.FromArrays.fromSchemaWith_eq", "the same for from_schema (its inner from_arrays call answered by the source-derived pipeline)"),
    ("QcelVerif.FromArrays.from_arrays_inv_src", "invariant restated over the source-derived pipeline: whatever it accepts satisfies Inv (reconciler sound)"),
    ("QcelVerif.FromArrays.from_arrays_idempotent_src", "fixed point restated over the source-derived pipeline (reconciler idempotent)"),
    ("QcelVerif.FromArrays.refuses_geom_not_3n_src", "source-derived pipeline: a geometry that is not 3 numbers per atom is a ValidationError"),
    ("QcelVerif.FromArrays.refuses_too_close_src", "source-derived pipeline: some pair closer than tooclose => ValidationError"),
    ("QcelVerif.FromArrays.refuses_length_mismatch_src", "source-derived pipeline: a supplied per-atom array whose length is not the atom count => ValidationError (also for zero atoms)"),
    ("QcelVerif.FromArrays.refuses_bad_separators_src", "source-derived pipeline: separators whose trial split of nat > 0 atoms has an empty block (empty / unsorted / out of range) are never accepted"),
    ("QcelVerif.FromArrays.refuses_fragment_length_mismatch_src", "source-derived pipeline: a fragment_charges / fragment_multiplicities list that does not have len(separators)+1 entries is never accepted"),
    ("QcelVerif.FromArrays.src_fragments_partition", "whatever the source-derived fragment stage accepts cuts the nat atoms into consecutive blocks, none empty when nat > 0, whose sizes add up to nat, with one charge and one multiplicity slot per block"),
    ("QcelVerif.FromArrays.src_sum_test_redundant", "finding about the source: whenever the empty-fragment test passes (no empty block, or zero atoms) the block sizes of the trial split add up to nat — the second test "
     "(from_arrays.py:740-745, 'overlapping fragment(s), possibly unsorted') can never fire; unsorted separators are refused by the first test"),
    ("QcelVerif.FromArrays.src_exact_threshold_accepted", "test (kernel-evaluated on the generated program): a closest pair EXACTLY at tooclose passes the overlap screen, a closer one and a 5-number geometry are ValidationErrors"),
]
TRUSTED_BASE = [
    "Lean 4.33 kernel; axioms per theorem audited on every run (subset of propext, Classical.choice, Quot.sound)",
    "hand-written model Model/FromArrays.lean of from_arrays.py:301-408,411-501,504-547,594-616,619-702,705-773 and from_schema.py, "
    "tied by differential correspondence on the generated stream through from_arrays, from_schema and Molecule(...) — EXCEPT the three stages named next, which are now regenerated from the source",
    "REGENERATED FROM THE SOURCE (extension C04d): harness/c04_src.py reads validate_and_fill_geometry, validate_and_fill_nuclei and validate_and_fill_fragments of from_arrays.py by `ast` on every run "
    "(unknown statement shapes are refused) and emits Gen/FromArraysSrc.lean; Model/FromArraysAst.lean is the evaluator of that small syntax; Props/C04Src.lean proves evaluator(generated program) = "
    "hand model (validateGeometry / validateNuclei / validateFragments) for all inputs and hence fromArraysWith = fromArrays, fromSchemaWith = fromSchema, and restates the refusal / invariant / fixed-point "
    "headlines over the source-derived pipeline. Translated INTO the term (so a change breaks a proof): statement and branch order, every condition of validate_and_fill_fragments (None dispatch, "
    "empty-fragment test under `nat != 0`, sum-of-lengths test, the `len(frc) == len(frm) == len(frs) + 1` chain, what frs/frc/frm/nfr are assigned), the comparison operators of np.any / np.where, the exponent of "
    "tooclose ** 2, the slice offset x + 1, the terms and position (before / inside `if nat:`) of the shape chain, the -1 = None rebuild, the `if nat:` guard. Only COMPARED with a fixed expected shape by the translator "
    "(trusted re-statement in the evaluator): np.array(...).reshape((-1, 3)) = rows3, einsum('ij,ij->i') of the differences = dist2 (exact in Q), np.asarray([None] * nat), np.split(np.zeros((nat, 3)), seps, axis=0) = npSplit, "
    "the keyword mapping of the reconcile_nucleus(...) call, the returned dictionaries, the raised class ValidationError, float(f) = identity on the integer-valued charges of the scope. "
    "The translator and the evaluator are in the trusted base; the driver (ops FAs / FSs of Driver/C04.lean) answers every line and every fed-back record a second time from the generated program: three-way "
    "comparison implementation / hand model / source-derived program",
    "still hand models tied only differentially: validate_and_fill_units, validate_and_fill_frame, validate_and_fill_chgmult's call on Z*real, from_arrays' own dispatch on domain / missing_enabled_return, the merge, "
    "zero_ghost_fragments, from_schema / contiguize_from_fragment_pattern, to_schema",
    "reconcile_nucleus taken as a parameter (hypotheses NucSound / NucIdem) in Props/C04.lean; its answers travel on the line protocol of the first stream",
    "Props/C04C06.lean instantiates the parameter with the C06 model over the generated periodic table (adapter Model/ReconC06.lean: Clue->Input, Output->Nuc, error classes); "
    "NucSound is discharged in full, NucIdem is false in general and proved for self-consistent atoms / supplied masses / plain molecules; residual: rd odd (proved for rd64) "
    "and, for the supplied-mass theorems, rd idempotent (NOW PROVED for rd64: Lemmas/C04Rd64.lean rd64_idem; rd64 itself stays tied to float() by C06's D lines); the second stream "
    "(Driver/C04b.lean) runs the whole pipeline in Lean with the C06 model and is diffed against the implementation and against the first stream",
    "Props/C04Default.lean: for nonphysical=False and 0 <= mtol <= 0.9865 (the default mtol = 1e-3 included) NucIdem restricted to those settings is proved with NO hypothesis on the atoms "
    "(mass supplied / mass number without mass / neither), from two facts about the generated periodic table decided by kernel evaluation on every run the data file changes "
    "(Props/C04DefaultTab{A..E}.lean; tools/gen_periodic.py is the translator); Mathlib is used only in Lemmas/C04Rd64.lean (zpow/floor arithmetic for rd64_idem); "
    "Props/C04DefaultText.lean imports C07's Props/C07Full.lean read-only",
    "tools/gen_periodic.py (C01's translator) for the periodic table read by the C06 model",
    "C05 model ChgMult.vfc and its theorems vfc_sound / vfc_accepts_valid_full (reused unchanged)",
    "numpy: np.array/reshape, np.split (re-stated as Python slice arithmetic), einsum distances in double vs exact rationals (1e-9 exclusion zone)",
    "pydantic v1 field coercion in Molecule.__init__ and _filter_defaults (default-mass test, caller's raw values surviving `{**kwargs, **schema}`): compared behaviourally only (partial)",
    "to_schema / from_schema round trip: Model/FromArraysSchema.lean (hand-written: to_schema.py:42-99 for dtype 1/2, units='Bohr', any validated stored unit; from_schema.py:60-90) with three "
    "PARAMETERS taken from the implementation on every line — formula_generator(elem) (C15), constants.conversion_factor('Angstrom','Bohr') (C03), and the rounding of ONE binary64 product "
    "(the driver runs rd64; numpy elementwise multiply taken as correctly rounded); proved: schema_roundtrip (+ twice, C06 instantiations, refusals); tied to the code by the third stream "
    "(Driver/C04c.lean: composition, dictionary, theorem hypotheses evaluated per record) — differential, sampled",
    "Props/C04SchemaBridge.lean ties the C04 schema model to C09's Model/MolSchema.lean (C09's from_arrays parameter instantiated by the C04 model); scope: exact products, non-negative separators",
    "np_out / unnp (container types of the dictionary) and the provenance stamp are outside the models: checked by the oracle only",
    "call sequences: the models are stateless functions of the arguments; that the implementation is too (no result depends on earlier calls in the process) is checked by the sequence stream "
    "(each call diffed against the model and judged as a first call; suspicious calls re-run in a fresh interpreter) — differential",
    "Molecule(validate=True, **stamped dict) edits: oracle only (pydantic is outside the model)",
    "harness/c04.py generators and the Python oracle",
]
ASSUMPTIONS = [
    "domain 'qm' only; provenance never supplied by the caller (only the stamp of a fed-back record); efp/qmvz outside",
    "integer (or integer-valued float) charges and multiplicities; integer separators; ASCII strings; finite coordinates",
    "missing_enabled_return in {'error','minimal'}; zero atoms with 'minimal' only without separators (atom-less record with separators is outside the quantifier)",
    "pair distances and input_units_to_au within 1e-9 of their thresholds are not generated (implementation compares in double, model in Q)",
    "exception to the exclusion zone: the exact-threshold stream puts the closest pair EXACTLY at tooclose on binary-fraction lattices (tooclose in {0.5, 0.25, 2.0}; coordinates, squared distances and tooclose**2 are exact "
    "doubles, so double and Q comparisons coincide); `closer than the threshold` is strict, as in the source (`dists < metric`): such molecules are accepted, a pair at 3/4 of the threshold is refused",
    "feed-back of a record uses speclabel=False (the record's elbl is the user part of the label only)",
    "negative separators are Python slice indices: accepted when the split still partitions the atoms in order (property demands the partition, not canonical separators)",
    "schema round trip: the oracle demands from_schema(to_schema(rec)) == rec-in-Bohr only for records with >= 1 atom, validated under from_schema's own mtol (1e-3) and whose exported (Bohr) "
    "geometry has no pair closer than 0.1 — from_schema has no mtol=/tooclose=/missing_enabled_return= keywords, so other records may legitimately be refused (kernel-checked counter-examples "
    "schema_roundtrip_needs_atoms / _needs_geometry); outside that class only model/implementation agreement and the error class are demanded; exported distances within 1e-9 of 0.1 are skipped",
    "the round-trip image differs from the record exactly in: units -> 'Bohr', input_units_to_au dropped, name defaulted (formula_generator), geometry multiplied by the Bohr factor used "
    "(one IEEE product per coordinate), negative separators written as nat+s; provenance is re-stamped by from_schema",
    "Molecule 'with validation on' = validate=True passed explicitly, or validate=None (default) on a dictionary WITHOUT the validated stamp (molecule.py docstring: 'If None validation is always "
    "applied unless the validated flag is set'); validate=None on a stamped dictionary skips validation by documented design and is not judged",
    "call sequences vary nonphysical, mtol, tooclose (acceptance-deciding) and speclabel, zero_ghost_fragments, fragment separators, entry point (record-shaping); 3-6 calls per sequence",
    "the unconditional fixed-point theorems (from_arrays_idempotent_narrow / _default) are for nonphysical=False and 0 <= mtol <= 0.9865 u; outside: mtol >= 0.9866 has kernel-checked "
    "counter-examples (window_bound_sharp; mtol = 2 in Props/C04C06.lean), a negative mtol accepts nothing as 'within tolerance', and nonphysical=True with a mass number and no mass is not "
    "covered by a theorem (the range test that bounds the table enumeration is switched off) — there the fixed point stays checked by the oracle on every generated record only",
    "isotope stream: nonphysical=False, mtol in {1e-3 (mostly), 1e-4, 0.25, 0.5, 0.9, 0.9865}; half-way masses only when mtol >= 0.5 (no two tabulated nuclides of one element are closer "
    "than 0.9865 u, so 'a mass within tolerance of two isotopes' does not exist at narrower windows — shipped_isotopes_rederive)",
]
RULE = (
    "molecules of 0-12 atoms on a jittered lattice (coordinates with <= 10 decimals), elements over the whole table weighted to H-Ar, "
    "isotopes/ghosts/labels from the NUCLEUS grammar, all 2^6 subsets of the per-atom descriptor arrays with None holes, 1-5 fragments, "
    "partial charge/multiplicity specifications biased to satisfiable, unit spellings, input_units_to_au, frame flags, bonds; about 80% valid, "
    "plus a malformed stream applying one defect (length mismatch, geometry not 3n, overlapping atoms, bad unit, bad separators incl. negative, "
    "fragment-array lengths, contradictory nuclear data, bad bonds, bad frame flag, bad schema name/version/fragment pattern). Each case goes through "
    "from_arrays(**kw), or from_schema(dict) and Molecule(**kw); every accepted record is fed back. Every line and every fed-back record is answered twice by Lean: "
    "with the implementation's own reconcile_nucleus answers carried on the line (Driver/C04.lean) and with the per-atom reconciliation computed by the C06 model "
    "(Driver/C04b.lean, the whole pipeline in Lean). A case is distinct by its full protocol line and "
    "non-trivial when it has >= 2 atoms, an omitted descriptor, more than one fragment or ends in a refusal. "
    "THIRD STREAM (schema round trip): every accepted from_arrays/from_schema record, plus a dedicated generator (stored in Angstrom with a pinned / default input_units_to_au, Bohr with a pinned "
    "factor, fragments made of ghost atoms only with and without zero_ghost_fragments, negative-but-valid separators, named molecules), goes through to_schema(dtype=1|2 alternating, units='Bohr') "
    "-> from_schema; compared: the dictionary (wrapper, key set, every value) with Lean's toSchemaU and with the record directly; the returned record with Lean's fromSchema(toSchemaU r v) under "
    "both reconcilers and with the record-in-Bohr stated directly; the hypotheses and predicted image of the theorem schema_roundtrip evaluated by Lean on the record; then the image is exported with "
    "the OTHER dtype and read back (must be unchanged). The malformed from_schema stream additionally permutes whole fragments and reverses a fragment (contiguous but out of order). "
    "SEQUENCES: 3-6 consecutive calls on the same per-atom data in one process with different options (nonphysical / mtol / tooclose permissive-then-strict and strict-then-permissive; speclabel, "
    "zero_ghost_fragments, separators, entry point FA/FS/MOL varied): every call is diffed against the stateless model and judged by the refusal oracle as a first call; a call that disagrees with the "
    "model is re-run in a fresh interpreter (oracle:history_dependent). A finding of a sequence call replays the earlier calls first. "
    "STAMPED DICTIONARIES: for every third accepted Molecule mol.dict() (validated=True) is re-validated with validate=True (fixed point) and then edited into each "
    "malformed class (overlap, contradictory mass, symbol vs atomic number, charge != sum of fragment charges, infeasible multiplicity, array length, fragments skipping / reordering atoms) and must be "
    "refused by Molecule(validate=True, **d) and by Molecule(**d without the stamp). "
    "ISOTOPE STREAM (the classes of Props/C04Default.lean): 1-6 atoms over the whole table, each described in one style — mass number of a NON-default (or the lightest/heaviest tabulated) isotope "
    "without a mass by elea / by label ('2H', '@2h') / both; a mass without mass number exactly at / near (1e-9 .. 0.999 mtol) / on the edge of (mtol -4..+4 ulp) / beyond (1.5-3 mtol) the tabulated "
    "mass of a non-default isotope, by argument or '@mass' label; a mass half-way between two adjacent isotopes (mtol >= 0.5); default — nonphysical=False, mtol mostly the default, through "
    "from_arrays, from_schema and Molecule; diffed against both Lean drivers like every other case. EVERY accepted record of every stream is now fed back TWICE (the record returned by the first "
    "feed-back must itself be returned unchanged: oracle:not_fixed_point_second_pass), and whenever nonphysical=False and 0 <= mtol <= 0.9865 the driver's SelfConsistent test on the model's "
    "record must hold (instance of narrow_window_selfconsistent; a failure is reported as a broken tie). "
    "SOURCE-DERIVED VOICE: every primary line and every fed-back record is answered a third time by Driver/C04.lean ops FAs / FSs — the pipeline whose geometry / nuclei / fragment stages are the programs "
    "generated from the source on this run — and compared three ways (implementation / hand model / generated program: mismatch:src:* and mismatch:src-vs-model:*). "
    "EXACT-THRESHOLD STREAM: valid from_arrays cases of >= 2 atoms moved onto a binary-fraction lattice of step tooclose in {0.5, 0.25, 2.0} (closest pair exactly AT the threshold: must be accepted, "
    "`<` not `<=`), half of them with one atom at 3/4 of the threshold (must be refused)."
)
LEVEL_TEXT = (
    "proof for the record-level pipeline of from_arrays/from_schema/to_schema (model), parametric in the per-atom reconciler (C06) and reusing C05; "
    "with the C06 model plugged in (Props/C04C06.lean) the invariant is unconditional and the fixed point is proved for self-consistent atoms, supplied masses, "
    "plain molecules and every second pass; with Props/C04Default.lean the fixed point 'a validated molecule passed through validation again is returned unchanged' is now PROVED IN FULL "
    "for the model (C06 reconciler under rd64 over the generated periodic table) for EVERY successful build with nonphysical=False and 0 <= mtol <= 0.9865 u — in particular at the default "
    "settings — with no hypothesis on the atoms or the rounding function, including a mass number supplied without a mass (table facts decided by kernel evaluation over every element and "
    "every mass number of its range; rd64 proved idempotent); the bound is sharp (kernel-checked counter-example at mtol = 0.9866, replayed on the implementation; the earlier one at mtol = 2); "
    "still partial: nonphysical=True with a mass number and no mass (no theorem; oracle only), negative mtol (nothing is within tolerance); "
    "the schema round trip from_schema(to_schema(r, 1|2)) = r-in-Bohr is PROVED for every record satisfying the invariant "
    "(any size, either stored unit, any reconciler) under three explicit hypotheses each shown necessary or decided per record (>= 1 atom; exported geometry passes the default "
    "overlap screen; atoms re-validate under from_schema's settings — for the C06 model under rd64 with nonphysical=False this third one is now discharged outright: "
    "schema_roundtrip_default / _twice_default / _twice_default_of_schema), C07's end-to-end text theorems are restated for every record built at the default settings "
    "(Props/C04DefaultText.lean: their fixed-point hypothesis discharged), the second "
    "round trip is proved to be the identity, exported_geometry_bohr and the from_schema refusal classes (unrecognised schema, non-contiguous / skipping / offset pattern, "
    "wrong array length, dropped atoms) are proved, and the C04 and C09 schema models are proved to agree (C09's from_arrays parameter discharged); formula_generator, the "
    "Angstrom->Bohr factor and the rounding of one product are parameters; the tie to the code is differential (sampled) on three streams (reconciler answers taken from the "
    "implementation / computed by the C06 model end to end / records through to_schema -> from_schema) plus call sequences checked against the stateless model; "
    "partial: pydantic coercion in Molecule.__init__ and _filter_defaults are compared behaviourally only; "
    "SOURCE TIE (partial): for three of the stage functions — validate_and_fill_geometry, validate_and_fill_nuclei, validate_and_fill_fragments — the hand model is no longer tied only differentially: their "
    "decision logic is regenerated from the source by a translator on every run and PROVED equal to the hand model for all inputs (Props/C04Src.lean), so the invariant / fixed-point / refusal theorems hold of "
    "the source-derived pipeline; numpy primitives keep a trusted re-statement in the evaluator, and units / frame / chgmult call / dispatch / merge / from_schema / to_schema stay hand models tied differentially"
)
TECHNIQUE = ("Lean 4 proof of invariant/idempotence/refusal theorems about a stage-by-stage model + source translator (ast -> Lean program) with equality proofs for three stages "
             "+ differential correspondence through three entry points + independent oracle")

PER_ATOM = ["elea", "elez", "elem", "mass", "real", "elbl"]
SCHEMA_NAME = {"elea": "mass_numbers", "elez": "atomic_numbers", "elem": "symbols", "mass": "masses", "real": "real", "elbl": "atom_labels"}
OUT_FIELDS = ["status", "units", "input_units_to_au", "name", "comment", "connectivity", "geom", "elea", "elez", "elem", "mass",
              "real", "elbl", "fragment_separators", "molecular_charge", "fragment_charges", "molecular_multiplicity",
              "fragment_multiplicities", "fix_com", "fix_orientation", "fix_symmetry"]
DEFAULT_ST = {"minimal": False, "speclabel": True, "nonphysical": False, "zgf": False, "mtol": 1.0e-3, "tooclose": 0.1}


# ----------------------------------------------------------------------------------------
# tokens


def fr(x) -> str:
    f = x if isinstance(x, Fraction) else (Fraction(int(x)) if isinstance(x, (int, np.integer)) and not isinstance(x, (bool, np.bool_)) else Fraction(float(x)))
    return str(f.numerator) if f.denominator == 1 else f"{f.numerator}/{f.denominator}"


def t_str(s):
    return "~" if s is None else "'" + str(s)


def t_int(x):
    return "~" if x is None else str(int(x))


def t_rat(x):
    return "~" if x is None else fr(x)


def t_bool(x):
    return "~" if x is None else ("T" if bool(x) else "F")


def t_list(items, f):
    return "~" if items is None else "L" + ",".join(f(x) for x in items)


def t_tri(x):
    if x is None:
        return "~"
    if x is True:
        return "T"
    if x is False:
        return "F"
    return "X"


def t_idx(a):
    return str(int(a)) if float(a).is_integer() else "x"


def t_bond(b):
    if len(b) == 3:
        return f"{t_idx(b[0])}:{t_idx(b[1])}:{fr(b[2])}"
    return ":".join("9" for _ in b)  # any other arity: malformed tuple


def flat_geom(g):
    if g is None:
        return None
    out = []
    for row in g:
        if isinstance(row, (list, tuple)):
            out.extend(row)
        else:
            out.append(row)
    return out


# ----------------------------------------------------------------------------------------
# the reconciler table (the implementation's own reconcile_nucleus, called directly)


def reconcile_direct(clue, sl, nonph, mtol):
    from qcelemental.molparse.nucleus import reconcile_nucleus

    A, Z, E, mass, real, label = clue
    try:
        with contextlib.redirect_stdout(io.StringIO()):
            r = reconcile_nucleus(A=A, Z=Z, E=E, mass=mass, real=real, label=label, speclabel=sl, nonphysical=nonph, mtol=mtol, verbose=1)
    except Exception as e:  # noqa
        return ("err", err_class(e))
    return ("ok", r)


def table_for(arrays, nat, sl, nonph, mtol):
    """entries for atoms 0..nat-1 (only meaningful when every supplied array has length nat)."""
    for k in PER_ATOM:
        if arrays.get(k) is not None and len(arrays[k]) != nat:
            return ""
    seen, ents = set(), []
    for at in range(nat):
        def g(k):
            return None if arrays.get(k) is None else arrays[k][at]

        A = g("elea")
        if A is not None and A == -1:
            A = None
        clue = (A, g("elez"), g("elem"), g("mass"), g("real"), g("elbl"))
        key = ",".join([t_bool(sl), t_bool(nonph), fr(mtol), t_int(clue[0]), t_int(clue[1]), t_str(clue[2]), t_rat(clue[3]), t_bool(clue[4]), t_str(clue[5])])
        if key in seen:
            continue
        seen.add(key)
        res = reconcile_direct(clue, sl, nonph, mtol)
        if res[0] == "ok":
            a, z, e, m, rl, lb = res[1]
            ents.append(key + "=" + ",".join(["ok", t_int(a), t_int(z), t_str(e), t_rat(m), t_bool(rl), t_str(lb)]))
        else:
            ents.append(key + "=err," + res[1])
    return ";".join(ents)


_ANG = None


def ang_to_au():
    global _ANG
    if _ANG is None:
        import qcelemental as qcel

        _ANG = 1.0 / qcel.constants.bohr2angstroms
    return _ANG


def enc_line(op, kw, st, schema=None):
    """kw: from_arrays-named arguments (JSON-able python values); st: processing settings."""
    g = flat_geom(kw.get("geom"))
    nat = (len(g) // 3) if g is not None else 0
    table = table_for(kw, nat, st["speclabel"], st["nonphysical"], st["mtol"])
    fields = [
        op,
        " ".join([t_bool(st["minimal"]), t_bool(st["speclabel"]), t_bool(st["nonphysical"]), t_bool(st["zgf"]), fr(st["mtol"]), fr(st["tooclose"]), fr(ang_to_au())]),
        t_list(g, fr),
        t_list(kw.get("elea"), t_int),
        t_list(kw.get("elez"), t_int),
        t_list(kw.get("elem"), t_str),
        t_list(kw.get("mass"), t_rat),
        t_list(kw.get("real"), t_bool),
        t_list(kw.get("elbl"), t_str),
        t_str(kw.get("name")),
        t_str(kw.get("comment")),
        t_str(kw.get("units", "Angstrom")),
        t_rat(kw.get("input_units_to_au")),
        t_tri(kw.get("fix_com")),
        t_tri(kw.get("fix_orientation")),
        t_str(kw.get("fix_symmetry")),
        t_list(kw.get("fragment_separators"), t_int),
        t_list(kw.get("fragment_charges"), t_int),
        t_list(kw.get("fragment_multiplicities"), t_int),
        t_int(kw.get("molecular_charge")),
        t_int(kw.get("molecular_multiplicity")),
        t_list(kw.get("connectivity"), t_bond),
    ]
    if schema is None:
        fields += ["~", "~", "~"]
    else:
        fields += [
            t_str(schema.get("schema_name")),
            t_int(schema.get("schema_version")),
            t_list(schema.get("fragments"), lambda f: ":".join(str(int(i)) for i in f) if len(f) else "e"),
        ]
    fields.append(table)
    return "|".join(fields)


# ----------------------------------------------------------------------------------------
# canonical form of the implementation's record (same layout as the driver's answer)


def c_intlike(x):
    xf = float(x)
    return str(int(xf)) if xf == int(xf) else repr(xf)


def canon_rec(rec) -> str:
    conn = rec.get("connectivity")
    parts = [
        "ok",
        t_str(rec["units"]),
        t_rat(rec.get("input_units_to_au")),
        t_str(rec.get("name")),
        t_str(rec.get("comment")),
        "~" if conn is None else "L" + ",".join(f"{int(a)}:{int(b)}:{fr(o)}" for a, b, o in conn),
        t_list(list(np.asarray(rec["geom"]).ravel()), fr),
        t_list(list(rec["elea"]), t_int),
        t_list(list(rec["elez"]), t_int),
        t_list([str(x) for x in rec["elem"]], t_str),
        t_list(list(rec["mass"]), fr),
        t_list(list(rec["real"]), t_bool),
        t_list([str(x) for x in rec["elbl"]], t_str),
        t_list(list(rec["fragment_separators"]), t_int),
        c_intlike(rec["molecular_charge"]),
        t_list(list(rec["fragment_charges"]), c_intlike),
        c_intlike(rec["molecular_multiplicity"]),
        t_list(list(rec["fragment_multiplicities"]), c_intlike),
        t_bool(rec["fix_com"]),
        t_bool(rec["fix_orientation"]),
        t_str(rec.get("fix_symmetry")),
    ]
    return "|".join(parts)


def first_diff(a: str, b: str) -> str:
    fa, fb = a.split("|"), b.split("|")
    if len(fa) != len(fb):
        return f"{a[:60]} vs {b[:60]}"
    for n, x, y in zip(OUT_FIELDS, fa, fb):
        if x != y:
            return f"field {n}: {x[:120]} vs {y[:120]}"
    return ""


def parse_model(line: str):
    """model answer -> dict (used for the Molecule(...) comparison)."""
    f = line.split("|")
    d = dict(zip(OUT_FIELDS, f))

    def lst(s, conv):
        if s == "~":
            return None
        body = s[1:]
        return [] if body == "" else [conv(x) for x in body.split(",")]

    Fr = lambda s: Fraction(s)  # noqa
    sq = lambda s: s[1:]  # noqa
    out = {
        "units": sq(d["units"]),
        "name": None if d["name"] == "~" else sq(d["name"]),
        "comment": None if d["comment"] == "~" else sq(d["comment"]),
        "connectivity": lst(d["connectivity"], lambda b: (int(b.split(":")[0]), int(b.split(":")[1]), Fr(b.split(":")[2]))),
        "geom": lst(d["geom"], Fr),
        "elea": lst(d["elea"], int),
        "elez": lst(d["elez"], int),
        "elem": lst(d["elem"], sq),
        "mass": lst(d["mass"], Fr),
        "real": lst(d["real"], lambda x: x == "T"),
        "elbl": lst(d["elbl"], sq),
        "fragment_separators": lst(d["fragment_separators"], int),
        "molecular_charge": int(d["molecular_charge"]),
        "fragment_charges": lst(d["fragment_charges"], int),
        "molecular_multiplicity": int(d["molecular_multiplicity"]),
        "fragment_multiplicities": lst(d["fragment_multiplicities"], int),
        "fix_com": d["fix_com"] == "T",
        "fix_orientation": d["fix_orientation"] == "T",
        "fix_symmetry": None if d["fix_symmetry"] == "~" else sq(d["fix_symmetry"]),
    }
    return out


# ----------------------------------------------------------------------------------------
# calling the implementation


def _quiet(f):
    try:
        with contextlib.redirect_stdout(io.StringIO()):
            return ("ok", f())
    except Exception as e:  # noqa
        return ("err", err_class(e), str(e)[:200])


def fa_kwargs(kw, st, forms):
    """python call arguments for from_arrays; `forms` says which lists go in as ndarrays / nested."""
    args = {}
    for k, v in kw.items():
        if v is None:
            continue
        if k == "geom":
            if forms.get("geom") == "nested" and len(v) % 3 == 0:
                v = [list(v[i : i + 3]) for i in range(0, len(v), 3)]
            elif forms.get("geom") == "np":
                v = np.array(v, dtype=float)
        elif k == "fragment_separators" and forms.get("seps") == "np":
            v = np.array(v, dtype=int)
        elif k == "connectivity":
            v = [tuple(b) for b in v]
        elif k in ("elez", "elem", "real", "elbl") and forms.get(k) == "np" and all(x is not None for x in v):
            v = np.array(v)
        args[k] = v
    if st["minimal"]:
        args["missing_enabled_return"] = "minimal"
    # only non-default processing details are passed, so that the documented defaults are exercised
    if st["speclabel"] is not True:
        args["speclabel"] = st["speclabel"]
    if st["nonphysical"]:
        args["nonphysical"] = True
    if st["zgf"]:
        args["zero_ghost_fragments"] = True
    if st["mtol"] != 1.0e-3:
        args["mtol"] = st["mtol"]
    if st["tooclose"] != 0.1:
        args["tooclose"] = st["tooclose"]
    return args


def call_fa(kw, st, forms):
    from qcelemental.molparse import from_arrays

    return _quiet(lambda: from_arrays(**fa_kwargs(kw, st, forms)))


def feed_back_args(rec, st):
    args = dict(rec)
    args["speclabel"] = False
    if st["minimal"]:
        args["missing_enabled_return"] = "minimal"
    if st["nonphysical"]:
        args["nonphysical"] = True
    if st["mtol"] != 1.0e-3:
        args["mtol"] = st["mtol"]
    if st["tooclose"] != 0.1:
        args["tooclose"] = st["tooclose"]
    return args


def rec_as_kw(rec):
    """the record as JSON-able from_arrays-named arguments (for the feed-back model line)."""
    conn = rec.get("connectivity")
    return {
        "geom": [float(x) for x in np.asarray(rec["geom"]).ravel()],
        "elea": [int(x) for x in rec["elea"]],
        "elez": [int(x) for x in rec["elez"]],
        "elem": [str(x) for x in rec["elem"]],
        "mass": [float(x) for x in rec["mass"]],
        "real": [bool(x) for x in rec["real"]],
        "elbl": [str(x) for x in rec["elbl"]],
        "name": rec.get("name"),
        "comment": rec.get("comment"),
        "units": rec["units"],
        "input_units_to_au": rec.get("input_units_to_au"),
        "fix_com": bool(rec["fix_com"]),
        "fix_orientation": bool(rec["fix_orientation"]),
        "fix_symmetry": rec.get("fix_symmetry"),
        "fragment_separators": [int(x) for x in rec["fragment_separators"]],
        "fragment_charges": [float(x) for x in rec["fragment_charges"]],
        "fragment_multiplicities": [int(x) for x in rec["fragment_multiplicities"]],
        "molecular_charge": float(rec["molecular_charge"]),
        "molecular_multiplicity": int(rec["molecular_multiplicity"]),
        "connectivity": None if conn is None else [[int(a), int(b), float(o)] for a, b, o in conn],
    }


def schema_dict(case):
    """the dict handed to from_schema (version 1 nests the molecule)."""
    sc = case["schema"]
    kw = case["kw"]
    ms = {}
    for k in PER_ATOM:
        if kw.get(k) is not None:
            ms[SCHEMA_NAME[k]] = list(kw[k])
    ms["geometry"] = list(kw["geom"]) if case["forms"].get("geom") != "np" else np.array(kw["geom"], dtype=float)
    for k in ["name", "comment", "fix_com", "fix_orientation", "fix_symmetry", "fragment_charges", "fragment_multiplicities",
              "molecular_charge", "molecular_multiplicity"]:
        if kw.get(k) is not None:
            ms[k] = kw[k]
    if kw.get("connectivity") is not None:
        ms["connectivity"] = [tuple(b) for b in kw["connectivity"]]
    if sc.get("fragments") is not None:
        ms["fragments"] = [list(f) for f in sc["fragments"]]
    top = {}
    if sc.get("schema_name") is not None:
        top["schema_name"] = sc["schema_name"]
    if sc.get("schema_version") is not None:
        top["schema_version"] = sc["schema_version"]
    if sc.get("nested"):
        top["molecule"] = ms
        return top
    ms.update(top)
    return ms


def call_fs(case):
    from qcelemental.molparse import from_schema

    d = schema_dict(case)
    if case["st"]["nonphysical"]:
        return _quiet(lambda: from_schema(d, nonphysical=True))
    return _quiet(lambda: from_schema(d))


def call_mol(case):
    import qcelemental as qcel

    d = schema_dict(case)
    if case["st"]["nonphysical"]:
        d["nonphysical"] = True
    return _quiet(lambda: qcel.models.Molecule(**d))


# ----------------------------------------------------------------------------------------
# the oracle: the property stated directly (independent of the model)


def py_split_points(n, seps):
    """pieces of range(n) cut at `seps` the way any consumer slices: l[a:b] with Python semantics."""
    div = [0] + [int(s) for s in seps] + [n]
    base = list(range(n))
    return [base[div[i] : div[i + 1]] for i in range(len(div) - 1)]


def min_dist_margin(g, tooclose):
    """(some pair closer than tooclose?, smallest | dist - tooclose |) — exact rationals for the decision."""
    pts = [(Fraction(g[i]), Fraction(g[i + 1]), Fraction(g[i + 2])) for i in range(0, len(g) - len(g) % 3, 3)]
    tc2 = Fraction(tooclose) ** 2
    close, margin = False, 1e9
    for i in range(len(pts)):
        for j in range(i + 1, len(pts)):
            d2 = sum((a - b) ** 2 for a, b in zip(pts[i], pts[j]))
            if d2 < tc2:
                close = True
            margin = min(margin, abs(float(d2) ** 0.5 - tooclose))
    return close, margin


def inv_complaints(rec, st):
    """`Molrec.Inv` re-implemented on the implementation's record."""
    import qcelemental as qcel

    pt = qcel.periodictable
    bad = []
    need = ["units", "geom", "elea", "elez", "elem", "mass", "real", "elbl", "fragment_separators", "molecular_charge",
            "fragment_charges", "molecular_multiplicity", "fragment_multiplicities", "fix_com", "fix_orientation", "provenance"]
    for k in need:
        if k not in rec:
            bad.append(("missing_field", f"field {k} absent"))
    if bad:
        return bad
    n = len(rec["elem"])
    for k in PER_ATOM:
        if len(rec[k]) != n:
            bad.append(("lengths", f"len({k}) = {len(rec[k])} != {n}"))
    g = [float(x) for x in np.asarray(rec["geom"]).ravel()]
    if len(g) != 3 * n:
        bad.append(("lengths", f"geom has {len(g)} numbers for {n} atoms"))
    if bad:
        return bad
    if rec["units"] not in ("Angstrom", "Bohr"):
        bad.append(("units", f"units {rec['units']!r}"))
    if not (isinstance(rec["fix_com"], (bool, np.bool_)) and isinstance(rec["fix_orientation"], (bool, np.bool_))):
        bad.append(("frame", "fix_com / fix_orientation not boolean"))
    # nuclear data consistent with each other and the periodic table
    for at in range(n):
        A, Z, E, m = int(rec["elea"][at]), int(rec["elez"][at]), str(rec["elem"][at]), float(rec["mass"][at])
        try:
            if pt.to_E(Z) != E or pt.to_Z(E) != Z:
                bad.append(("nuclear", f"atom {at}: symbol {E} vs Z {Z}"))
                continue
        except Exception:  # noqa
            bad.append(("nuclear", f"atom {at}: ({E}, {Z}) not in the periodic table"))
            continue
        if A != -1:
            try:
                am = pt.to_mass(E + str(A))
            except Exception:  # noqa
                bad.append(("nuclear", f"atom {at}: {E}{A} is not a known nuclide"))
                continue
            if abs(m - am) > st["mtol"] * (1 + 1e-9):
                bad.append(("nuclear", f"atom {at}: mass {m} is not the mass of {E}{A} ({am}) within mtol"))
        if not st["nonphysical"]:
            vals = list(pt._el2a2mass[E].values())
            if not (min(vals) - 0.5 - 1e-9 <= m <= max(vals) + 0.5 + 1e-9):
                bad.append(("nuclear", f"atom {at}: mass {m} outside the range of {E}"))
        if not m > 0:
            bad.append(("nuclear", f"atom {at}: mass {m} not positive"))
    # overlap
    close, _ = min_dist_margin(g, st["tooclose"])
    if close:
        bad.append(("tooclose", "two atoms closer than the overlap threshold"))
    # fragments partition the atoms in order
    seps = [int(s) for s in rec["fragment_separators"]]
    pieces = py_split_points(n, seps)
    if [i for p in pieces for i in p] != list(range(n)) or (n > 0 and any(len(p) == 0 for p in pieces)):
        bad.append(("fragments", f"separators {seps} do not cut {n} atoms into non-empty consecutive blocks"))
    fc, fm = list(rec["fragment_charges"]), list(rec["fragment_multiplicities"])
    if not (len(fc) == len(fm) == len(seps) + 1):
        bad.append(("fragments", f"len(fc)={len(fc)} len(fm)={len(fm)} len(seps)+1={len(seps)+1}"))
        return bad
    # charges / multiplicities
    c, m = rec["molecular_charge"], rec["molecular_multiplicity"]
    if c != sum(fc):
        bad.append(("chgmult", f"molecular_charge {c} != sum of fragment charges {sum(fc)}"))
    zeff = [int(rec["elez"][at]) * (1 if rec["real"][at] else 0) for at in range(n)]

    def feasible(z, ch, mu, what):
        if float(mu) != int(mu) or mu < 1:
            bad.append(("chgmult", f"{what}: multiplicity {mu} is not a positive integer"))
            return
        nel = z - ch
        if mu - 1 > nel:
            bad.append(("chgmult", f"{what}: multiplicity {mu} needs more than {nel} electrons"))
        elif (mu + nel) % 2 != 1:
            bad.append(("chgmult", f"{what}: multiplicity {mu} has the wrong parity for {nel} electrons"))

    feasible(sum(zeff), c, m, "molecule")
    if not bad or all(k != "fragments" for k, _ in bad):
        for k, p in enumerate(pieces):
            feasible(sum(zeff[i] for i in p), fc[k], fm[k], f"fragment {k}")
    prov = rec["provenance"]
    if not (isinstance(prov, dict) and prov.get("creator") == "QCElemental" and str(prov.get("routine", "")).startswith("qcelemental.molparse.from_")):
        bad.append(("provenance", f"provenance stamp {prov}"))
    return bad


def must_refuse(case):
    """refusal classes the property names, decided from the INPUT alone (None = no demand)."""
    kw, st = case["kw"], case["st"]
    g = kw.get("geom")
    if case["entry"] == "FA":
        u = kw.get("units", "Angstrom")
        if u.lower() not in ("angstrom", "bohr"):
            return "unknown_unit"
    if g is None or len(g) == 0:
        # zero atoms (a record only with missing_enabled_return='minimal'): a per-atom descriptor of another length is a mismatch all the same
        if case["entry"] == "FA" and st.get("minimal") and any(kw.get(k) is not None and len(kw[k]) != 0 for k in PER_ATOM):
            return "length_mismatch"
        return None
    if len(g) % 3 != 0:
        return "geom_not_3n"
    n = len(g) // 3
    for k in PER_ATOM:
        if kw.get(k) is not None and len(kw[k]) != n:
            return "length_mismatch"
    tc = st["tooclose"] if case["entry"] == "FA" else 0.1
    close, _ = min_dist_margin(g, tc)
    if close:
        return "too_close"
    if case["entry"] == "FA":
        seps = kw.get("fragment_separators")
        if seps is not None:
            pieces = py_split_points(n, seps)
            if any(len(p) == 0 for p in pieces) or [i for p in pieces for i in p] != list(range(n)):
                return "bad_separators"
        nfr = 1 if seps is None else len(seps) + 1
        for k in ("fragment_charges", "fragment_multiplicities"):
            if kw.get(k) is not None and (seps is None or len(kw[k]) != nfr):
                return "fragment_length_mismatch"
    else:
        fr_ = case["schema"].get("fragments")
        if fr_ is not None:
            if any(len(f) == 0 for f in fr_) or [i for f in fr_ for i in f] != list(range(n)):
                return "bad_fragment_pattern"
            for k in ("fragment_charges", "fragment_multiplicities"):
                if kw.get(k) is not None and len(kw[k]) != len(fr_):
                    return "fragment_length_mismatch"
        if len(kw.get("elem") or []) != n:
            return "length_mismatch"
    if case.get("tag") == "contradictory_nuclear":
        return "contradictory_nuclear"
    return None


# ----------------------------------------------------------------------------------------
# generator


def _pt():
    import qcelemental as qcel

    return qcel.periodictable


def gen_coords(rng, n, spacing=1.6, jitter=0.35):
    side = 3
    while side**3 < n + 2:
        side += 1
    cells = rng.sample([(a, b, c) for a in range(side) for b in range(side) for c in range(side)], n)
    nd = rng.choice([0, 1, 3, 6, 10])
    g = []
    off = [rng.choice([0.0, 0.0, -3.2, 17.5]) for _ in range(3)]
    for cell in cells:
        for a, o in zip(cell, off):
            g.append(round(a * spacing + o + rng.uniform(-jitter, jitter), nd) if nd else float(round(a * spacing + o)))
    return g


def rand_case(s, rng):
    return "".join(ch.upper() if rng.random() < 0.5 else ch.lower() for ch in s)


def gen_atoms(rng, n, speclabel, holes=True):
    """per-atom truth + the six descriptor arrays built from it."""
    pt = _pt()
    atoms = []
    for _ in range(n):
        r = rng.random()
        Z = rng.randint(1, 18) if r < 0.7 else (rng.randint(19, 54) if r < 0.9 else rng.randint(55, 117))
        E = pt.to_E(Z)
        isos = sorted(pt._el2a2mass[E].keys())
        A = pt.to_A(Z) if rng.random() < 0.7 else rng.choice(isos)
        mass = pt.to_mass(E + str(A))
        d = rng.choice([0.0] * 12 + [1e-6, -4e-4, 2e-3, 0.3])
        mass_given = mass + d
        real = rng.random() > 0.15
        user = rng.choice(["", "", "", "_mine", "_A1", "_x_2", "7"])
        atoms.append({"Z": Z, "E": E, "A": A, "mass": mass_given, "real": real, "user": user})
    arrays = {}
    mask = rng.randrange(64)
    if rng.random() < 0.9:
        mask |= rng.choice([2, 4])  # make sure the element is identified most of the time
    hole = rng.choice([0.0, 0.0, 0.1, 0.3]) if holes else 0.0
    if mask & 1:
        arrays["elea"] = [(None if rng.random() < hole else (-1 if rng.random() < 0.08 else a["A"])) for a in atoms]
    if mask & 2:
        arrays["elez"] = [(None if rng.random() < hole / 3 else a["Z"]) for a in atoms]
    if mask & 4:
        arrays["elem"] = [(None if rng.random() < hole / 3 else rand_case(a["E"], rng)) for a in atoms]
    if mask & 8:
        arrays["mass"] = [(None if rng.random() < hole else a["mass"]) for a in atoms]
    if mask & 16:
        arrays["real"] = [(None if rng.random() < hole else a["real"]) for a in atoms]
    if mask & 32:
        lbls = []
        for a in atoms:
            if not speclabel:
                lbls.append(None if rng.random() < hole else rng.choice([a["user"], a["user"].upper(), "", "lbl"]))
                continue
            if rng.random() < hole:
                lbls.append(None)
                continue
            useZ = rng.random() < 0.2
            core = str(a["Z"]) if useZ else rand_case(a["E"], rng)
            pre = str(a["A"]) if (not useZ and rng.random() < 0.3) else ""
            user = a["user"]
            if useZ and not user.startswith("_"):
                user = ""
            s = pre + core + user
            if rng.random() < 0.25:
                ms = f"{a['mass']:.8f}"
                a["mass"] = float(ms)
                if "mass" in arrays and arrays["mass"][atoms.index(a)] is not None:
                    arrays["mass"][atoms.index(a)] = a["mass"]
                s += "@" + ms
            if not a["real"] or (("real" not in arrays) and rng.random() < 0.2):
                s = ("@" + s) if rng.random() < 0.5 else ("Gh(" + s + ")")
            lbls.append(s)
        arrays["elbl"] = lbls
    return atoms, arrays, mask


def gen_chgmult(rng, atoms, arrays, seps, n):
    """partial specification biased to be satisfiable."""
    nfr = len(seps) + 1
    out = {}
    r = rng.random()
    if r < 0.55:
        return out
    div = [0] + list(seps) + [n]
    zs = [sum(a["Z"] if a["real"] else 0 for a in atoms[div[i] : div[i + 1]]) for i in range(nfr)]
    fc = [(0 if z == 0 else min(z, rng.choice([0, 0, 0, 1, -1, 2]))) for z in zs]
    fm = []
    for z, ch in zip(zs, fc):
        nel = z - ch
        base = 1 + (nel % 2) if nel >= 0 else 1
        if nel >= base + 1 and rng.random() < 0.2:
            base += 2
        fm.append(base)
    c, m = sum(fc), 1 + sum(x - 1 for x in fm)
    p = rng.choice([0.2, 0.5, 0.9])
    as_float = rng.random() < 0.3
    cv = (lambda x: float(x)) if as_float else (lambda x: x)
    if rng.random() < p:
        out["molecular_charge"] = cv(c)
    if rng.random() < p:
        out["molecular_multiplicity"] = m
    if rng.random() < 0.7:
        out["fragment_charges"] = [(cv(x) if rng.random() < p else None) for x in fc]
    if rng.random() < 0.7:
        out["fragment_multiplicities"] = [(x if rng.random() < p else None) for x in fm]
    if rng.random() < 0.06:  # perturb: often unsatisfiable
        k = rng.choice(["molecular_charge", "molecular_multiplicity"])
        out[k] = (out.get(k) or 0) + rng.choice([1, -1, 2])
    return out


def gen_bonds(rng, n):
    nb = rng.randint(1, 5)
    bonds = []
    for _ in range(nb):
        a, b = rng.randrange(max(n, 1)), rng.randrange(max(n, 1))
        o = rng.choice([1, 1.0, 1.5, 2, 2.0, 3, 0, 5, 0.5])
        if rng.random() < 0.2:
            a = float(a)
        bonds.append([a, b, o])
    if rng.random() < 0.3 and bonds:
        bonds.append(list(rng.choice(bonds)))  # duplicate / same atoms, other order
        bonds[-1][2] = rng.choice([1, 2.0, 1.5])
    return bonds


def gen_valid(rng, entry):
    n = rng.choice([0] + list(range(1, 13)) * 4) if entry == "FA" else rng.choice(list(range(1, 13)))
    st = dict(DEFAULT_ST)
    forms = {}
    if entry == "FA":
        st["speclabel"] = rng.random() < 0.6
        st["tooclose"] = rng.choice([0.1] * 10 + [0.5, 0.02, 1.8])
        st["mtol"] = rng.choice([1.0e-3] * 6 + [1.0e-4, 0.5])
        st["zgf"] = rng.random() < 0.1
    else:
        st["speclabel"] = False
    st["nonphysical"] = rng.random() < 0.12
    g = gen_coords(rng, n)
    atoms, arrays, mask = gen_atoms(rng, n, st["speclabel"], holes=(entry != "MOL"))
    kw = {"geom": g}
    kw.update(arrays)
    if st["nonphysical"] and n > 0 and rng.random() < 0.6:
        # a mass far outside the element's natural range: accepted only because nonphysical=True is forwarded
        at = rng.randrange(n)
        atoms[at]["mass"] = float(round(atoms[at]["mass"] * rng.choice([3.0, 0.2]) + rng.choice([10.0, 1.0]), 6))
        kw["mass"] = [a["mass"] for a in atoms]
        kw.pop("elea", None)
        if st["speclabel"] and "elbl" in kw:
            kw.pop("elbl")
        if "elez" not in kw and "elem" not in kw:
            kw["elez"] = [a["Z"] for a in atoms]
    if entry != "FA" and "elem" not in kw:
        kw["elem"] = [rand_case(a["E"], rng) for a in atoms]
    if n == 0:
        st["minimal"] = rng.random() < 0.6
        if rng.random() < 0.3:
            kw["geom"] = None
    # fragments
    nfr = 1 if n < 2 else rng.choice([1, 1, 1, 2, 2, 3, 4, 5])
    nfr = min(nfr, max(n, 1))
    seps = sorted(rng.sample(range(1, n), nfr - 1)) if nfr > 1 else []
    schema = None
    if entry == "FA":
        if nfr > 1 or (n > 0 and rng.random() < 0.3):
            kw["fragment_separators"] = seps
            forms["seps"] = rng.choice(["list", "np"])
        kw["units"] = rng.choice(["Angstrom", "Bohr", "angstrom", "bohr", "BOHR", "aNGSTROM", "Angstrom", "Bohr"])
        if rng.random() < 0.2:
            base = 1.0 if kw["units"].lower() == "bohr" else ang_to_au()
            kw["input_units_to_au"] = base + rng.choice([0.0, 1e-4, -0.03, 0.0499, -0.0499, 0.02])
    else:
        schema = {"schema_name": "qcschema_molecule", "schema_version": 2, "nested": False}
        if entry == "FS":
            r = rng.random()
            if r < 0.25:
                schema = {"schema_name": rng.choice(["qcschema_input", "qc_schema_input", "qcschema_output", "qcschema"]), "schema_version": 1, "nested": True}
            elif r < 0.35:
                schema["schema_name"] = rng.choice(["qcschema_molecule", "qcschema_molecule_x"])
        else:  # Molecule fills both in when absent
            if rng.random() < 0.5:
                schema = {"schema_name": None, "schema_version": None, "nested": False}
        if nfr > 1 or rng.random() < 0.3:
            div = [0] + seps + [n]
            schema["fragments"] = [list(range(div[i], div[i + 1])) for i in range(nfr)]
    cm = gen_chgmult(rng, atoms, arrays, seps, n)
    if entry == "FA" and "fragment_separators" not in kw:
        cm.pop("fragment_charges", None)
        cm.pop("fragment_multiplicities", None)
    if entry != "FA" and (schema.get("fragments") is None):
        cm.pop("fragment_charges", None)
        cm.pop("fragment_multiplicities", None)
    if entry == "MOL":
        # pydantic coercion is outside the model: give Molecule values of the declared types
        for k in ("fragment_charges", "fragment_multiplicities"):
            if k in cm and any(x is None for x in cm[k]):
                cm.pop(k)
    kw.update(cm)
    r = rng.random()
    if r < 0.15:
        kw["fix_com"] = rng.choice([True, False])
    if rng.random() < 0.15:
        kw["fix_orientation"] = rng.choice([True, False])
    if rng.random() < 0.15:
        kw["fix_symmetry"] = rng.choice(["c1", "C2v", "D2H", "cs"] + ([""] if entry != "MOL" else []))
    if rng.random() < 0.2:
        kw["name"] = rng.choice(["water", "mol_1", "X"])
    if rng.random() < 0.1:
        kw["comment"] = rng.choice(["a comment", "c"])
    if rng.random() < 0.15 and n >= 1:
        kw["connectivity"] = gen_bonds(rng, n)
    forms["geom"] = rng.choice(["flat", "flat", "nested", "np"]) if entry == "FA" else rng.choice(["flat", "np"])
    for k in ("elez", "elem", "real", "elbl"):
        if entry == "FA" and rng.random() < 0.3:
            forms[k] = "np"
    return {"entry": entry, "kw": kw, "st": st, "forms": forms, "schema": schema, "tag": "valid", "_atoms": atoms}


def gen_ts_special(rng):
    """from_arrays inputs aimed at the schema round trip: stored in Angstrom with a pinned input_units_to_au, fragments made
    of ghost atoms only (zero charge, singlet), negative-but-valid separators, named / commented / bonded molecules;
    always validated under from_schema's own mtol so that the oracle demands the round trip."""
    for _ in range(50):
        case = gen_valid(rng, "FA")
        kw, st, atoms = case["kw"], case["st"], case["_atoms"]
        n = len(atoms)
        if n == 0:
            continue
        st["mtol"] = 1.0e-3
        st["tooclose"] = rng.choice([0.1, 0.1, 0.5])
        how = rng.choice(["angstrom_pinned", "angstrom_default", "ghost_fragment", "negative_separators", "bohr_pinned"])
        if how in ("angstrom_pinned", "angstrom_default"):
            kw["units"] = rng.choice(["Angstrom", "angstrom", "ANGSTROM"])
            kw.pop("input_units_to_au", None)
            if how == "angstrom_pinned":
                kw["input_units_to_au"] = ang_to_au() + rng.choice([0.0, 1e-4, -0.03, 0.0499, -0.0499, 0.02, 1e-9])
        elif how == "bohr_pinned":
            kw["units"] = "Bohr"
            kw["input_units_to_au"] = 1.0 + rng.choice([0.0, 1e-4, -0.03, 0.04])
        elif how == "ghost_fragment":
            if n < 2 or st["speclabel"]:
                continue
            seps = kw.get("fragment_separators")
            if not seps:
                seps = sorted(rng.sample(range(1, n), min(n - 1, rng.choice([1, 2]))))
                kw["fragment_separators"] = seps
            div = [0] + [int(x) for x in seps] + [n]
            k = rng.randrange(len(div) - 1)
            real = [a["real"] for a in atoms]
            for at in range(div[k], div[k + 1]):
                real[at] = False
            kw["real"] = real
            for key in ("fragment_charges", "fragment_multiplicities", "molecular_charge", "molecular_multiplicity"):
                kw.pop(key, None)
            st["zgf"] = rng.random() < 0.5
            case["forms"].pop("real", None)
        else:
            if n < 2:
                continue
            k = rng.randint(1, n - 1)
            kw["fragment_separators"] = [-k] if (n < 3 or rng.random() < 0.5) else sorted({rng.randint(1, n - 1) - n, -1})
            for key in ("fragment_charges", "fragment_multiplicities", "molecular_charge", "molecular_multiplicity"):
                kw.pop(key, None)
            case["forms"].pop("seps", None)
        if rng.random() < 0.5:
            kw["name"] = rng.choice(["water", "mol_1", "X"])
        case["tag"] = "ts_special:" + how
        return case
    return gen_valid(rng, "FA")


# ----------------------------------------------------------------------------------------
# isotope stream (extension C04b): the classes the default-settings fixed-point theorems of Props/C04Default.lean are
# about — a mass number WITHOUT a mass (argument / label / both), a mass WITHOUT a mass number at / near / on the edge of /
# beyond the window of a NON-default isotope, a mass half-way between two isotopes (inside both windows once mtol >= 0.5);
# always nonphysical=False and 0 <= mtol <= 0.9865 (the scope of from_arrays_idempotent_narrow), through all three entries.

ISO_MTOL_BOUND = 0.9865
ISO_STYLES_FA = ["A_elea", "A_label", "A_elea_and_label", "A_extreme", "mass_exact", "mass_near", "mass_edge", "mass_beyond",
                 "mass_label", "half_way", "default"]


def _ulps(x, k):
    y = float(x)
    for _ in range(abs(k)):
        y = float(np.nextafter(y, np.inf if k > 0 else -np.inf))
    return y


def gen_iso(rng, entry):
    pt = _pt()
    n = rng.randint(1, 6)
    st = dict(DEFAULT_ST)
    if entry == "FA":
        st["speclabel"] = rng.random() < 0.7
        st["mtol"] = rng.choice([1.0e-3] * 7 + [1.0e-4, 0.25, 0.5, 0.9, ISO_MTOL_BOUND])
    else:
        st["speclabel"] = False
    mtol = st["mtol"]
    elea, elez, elem, mass, elbl, styles = [], [], [], [], [], []
    mol_mode = rng.choice(["A", "mass"]) if entry == "MOL" else None  # Molecule arrays are typed: no None holes
    for _ in range(n):
        r = rng.random()
        Z = rng.randint(1, 18) if r < 0.6 else (rng.randint(19, 54) if r < 0.85 else rng.randint(55, 117))
        E = pt.to_E(Z)
        isos = sorted(pt._el2a2mass[E].keys())
        dA = pt.to_A(Z)
        others = [a for a in isos if a != dA] or [dA]
        A = rng.choice(others)
        allowed = list(ISO_STYLES_FA)
        if not st["speclabel"]:
            allowed = [x for x in allowed if "label" not in x]
        if mtol < 0.5:
            allowed = [x for x in allowed if x != "half_way"]
        if mol_mode == "A":
            allowed = [x for x in allowed if x in ("A_elea", "A_extreme", "default")]
        elif mol_mode == "mass":
            allowed = [x for x in allowed if x.startswith("mass_") and "label" not in x or x == "half_way"]
        sty = rng.choice(allowed)
        a_clue, m_clue, lab = None, None, None
        am = pt.to_mass(E + str(A))
        if sty == "A_elea":
            a_clue = A
        elif sty == "A_label":
            lab = str(A) + rand_case(E, rng) + rng.choice(["", "", "_t", "5"])
        elif sty == "A_elea_and_label":
            a_clue = A
            lab = rng.choice(["", "@"]) + str(A) + rand_case(E, rng)
        elif sty == "A_extreme":
            A = rng.choice([isos[0], isos[-1]])
            am = pt.to_mass(E + str(A))
            a_clue = A
        elif sty == "mass_exact":
            m_clue = am
        elif sty == "mass_near":
            m_clue = am + rng.choice([1, -1]) * rng.choice([1e-9, 1e-6, 0.5 * mtol, 0.999 * mtol])
        elif sty == "mass_edge":
            m_clue = _ulps(am + rng.choice([1, -1]) * mtol, rng.choice([-4, -1, 0, 1, 4]))
        elif sty == "mass_beyond":
            m_clue = am + rng.choice([1, -1]) * min(rng.choice([1.5 * mtol, 3 * mtol]), 0.45)
        elif sty == "mass_label":
            ms = f"{am + rng.choice([0.0, 1e-6, -0.5 * mtol]):.8f}"
            lab = rand_case(E, rng) + "@" + ms
        elif sty == "half_way":
            k = rng.randrange(len(isos) - 1) if len(isos) > 1 else 0
            lo, hi = isos[k], isos[min(k + 1, len(isos) - 1)]
            m_clue = (pt.to_mass(E + str(lo)) + pt.to_mass(E + str(hi))) / 2 + rng.choice([0.0, 1e-7, -1e-7, 0.01])
        if mol_mode == "A" and a_clue is None:
            a_clue = -1
        if mol_mode == "mass" and m_clue is None:
            m_clue = pt.to_mass(E)
        elea.append(a_clue)
        mass.append(m_clue)
        elbl.append(lab)
        elez.append(Z)
        elem.append(rand_case(E, rng))
        styles.append(sty)
    kw = {"geom": gen_coords(rng, n)}
    if any(x is not None for x in elea) or rng.random() < 0.2:
        kw["elea"] = elea
    if any(x is not None for x in mass):
        kw["mass"] = mass
    if st["speclabel"] and (any(x is not None for x in elbl) or rng.random() < 0.2):
        kw["elbl"] = elbl
    which = rng.choice(["elez", "elem", "both"]) if entry == "FA" else rng.choice(["elem", "both"])
    if which in ("elez", "both"):
        kw["elez"] = elez
    if which in ("elem", "both"):
        kw["elem"] = elem
    if "elbl" in kw and which == "elez" and rng.random() < 0.3 and all(l is not None for l in elbl):
        kw.pop("elez")  # every label names its element: the label alone identifies the atoms
    schema, forms = None, {"geom": "flat"}
    if entry == "FA":
        kw["units"] = rng.choice(["Bohr", "Angstrom", "bohr"])
        if n >= 2 and rng.random() < 0.3:
            kw["fragment_separators"] = sorted(rng.sample(range(1, n), rng.choice([1, min(2, n - 1)])))
    else:
        schema = {"schema_name": "qcschema_molecule", "schema_version": 2, "nested": False}
        if entry == "FS" and rng.random() < 0.3:
            schema = {"schema_name": "qcschema_input", "schema_version": 1, "nested": True}
        if n >= 2 and rng.random() < 0.3:
            cut = rng.randint(1, n - 1)
            schema["fragments"] = [list(range(0, cut)), list(range(cut, n))]
    return {"entry": entry, "kw": kw, "st": st, "forms": forms, "schema": schema, "tag": "valid", "iso": styles}


# ----------------------------------------------------------------------------------------
# call sequences: the same per-atom data validated several times in ONE process under different options.
# Validation is a function of its arguments: every call of a sequence is compared with the (stateless) model and
# judged by the oracle as if it were the first call of a fresh process.


def _far_mass(pt, E, rng):
    vals = list(pt._el2a2mass[E].values())
    return float(round(max(vals) + 0.5 + rng.choice([0.7, 5.0, 50.0]), 6))


def gen_sequence(rng):
    """3-6 calls on the same molecule; the options that decide acceptance (nonphysical, mtol, tooclose) and those
    that shape the record (speclabel, zero_ghost_fragments) vary from call to call, permissive-then-strict and
    strict-then-permissive, through from_arrays / from_schema / Molecule."""
    pt = _pt()
    for _ in range(50):
        base = gen_valid(rng, "FA")
        atoms = base["_atoms"]
        n = len(atoms)
        if n == 0:
            continue
        kw, st = base["kw"], base["st"]
        st.update(speclabel=False, mtol=1.0e-3, tooclose=0.1, nonphysical=False, zgf=False, minimal=False)
        for k in ("elea", "mass", "elbl", "input_units_to_au"):
            kw.pop(k, None)
        kw["units"] = "Bohr"
        kw["elem"] = [a["E"] for a in atoms]
        if kw.get("fix_symmetry") == "":
            kw.pop("fix_symmetry")
        for k in ("elez", "real"):  # no None holes: the sequence also goes through Molecule(...) (pydantic coercion is outside the model)
            if kw.get(k) is not None and any(x is None for x in kw[k]):
                kw.pop(k)
        base["forms"] = {"geom": "flat"}
        kind = rng.choice(["nonphysical", "mtol", "tooclose", "nonphysical", "mtol"])
        at = rng.randrange(n)
        E = atoms[at]["E"]
        if kind == "nonphysical":
            kw["mass"] = [pt.to_mass(a["E"]) for a in atoms]
            kw["mass"][at] = _far_mass(pt, E, rng)
            variants = [({"nonphysical": True}, "valid"), ({"nonphysical": False}, "contradictory_nuclear")]
            entries = ["FA", "FS", "MOL"]
        elif kind == "mtol":
            A = pt.to_A(E)
            kw["elea"] = [pt.to_A(a["E"]) for a in atoms]
            kw["mass"] = [pt.to_mass(a["E"]) for a in atoms]
            kw["mass"][at] = pt.to_mass(E + str(A)) + rng.choice([0.004, -0.004, 0.02, 0.2])
            loose = rng.choice([0.3, 0.5])
            variants = [({"mtol": loose}, "valid"), ({"mtol": 1.0e-3}, "contradictory_nuclear"), ({"mtol": 1.0e-4}, "contradictory_nuclear")]
            entries = ["FA"]
        else:
            if n < 2:
                continue
            b = (at + 1) % n
            for i in range(3):
                kw["geom"][3 * b + i] = kw["geom"][3 * at + i] + (0.05 if i == 2 else 0.0)
            if not acceptable_case(base) or sum(1 for i in range(n) for j in range(i + 1, n)
                                                if sum((kw["geom"][3 * i + q] - kw["geom"][3 * j + q]) ** 2 for q in range(3)) < 0.01) != 1:
                continue
            variants = [({"tooclose": 0.02}, "valid"), ({"tooclose": 0.1}, "too_close"), ({"tooclose": 0.5}, "too_close")]
            entries = ["FA"]
        for k in ("fragment_charges", "fragment_multiplicities", "molecular_charge", "molecular_multiplicity", "connectivity"):
            kw.pop(k, None)
        nsteps = rng.randint(3, 6)
        order = [rng.choice(variants) for _ in range(nsteps)]
        # make sure both orders occur: some permissive call before a strict one and a strict one before a permissive one
        order[0] = variants[0] if rng.random() < 0.5 else rng.choice(variants[1:])
        order[1] = rng.choice(variants[1:]) if order[0] is variants[0] else variants[0]
        order[-1] = rng.choice(variants[1:])
        steps = []
        for opt, tag in order:
            entry = rng.choice(entries)
            c = {"entry": entry, "kw": json.loads(json.dumps(kw)), "st": dict(st), "forms": dict(base["forms"]), "schema": None, "tag": tag}
            c["st"].update(opt)
            if entry == "FA":
                # options that shape the record but never decide acceptance
                c["st"]["zgf"] = rng.random() < 0.3
                c["st"]["speclabel"] = rng.random() < 0.3
                if c["st"]["speclabel"]:
                    c["kw"]["elbl"] = [a["E"].lower() for a in atoms]
                if "fragment_separators" not in c["kw"] and n >= 2 and rng.random() < 0.3:
                    c["kw"]["fragment_separators"] = [rng.randint(1, n - 1)]
            else:
                c["kw"].pop("fragment_separators", None)
                c["kw"].pop("units", None)
                c["schema"] = {"schema_name": "qcschema_molecule", "schema_version": 2, "nested": False}
                if entry == "FS" and rng.random() < 0.3:
                    c["schema"] = {"schema_name": "qcschema_input", "schema_version": 1, "nested": True}
                c["st"].update(speclabel=False)
            steps.append(c)
        out = []
        for k, c in enumerate(steps):
            c = strip_case(c)
            c["seq"] = {"kind": kind, "pos": k, "prefix": [dict(p, seq=None) for p in out]}
            out.append(c)
        return out
    return []


MALFORMED = ["length_mismatch", "geom_not_3n", "too_close", "bad_unit", "bad_separators", "negative_separators",
             "fragment_lengths", "contradictory_nuclear", "bad_bond", "bad_frame", "bad_schema", "bad_pattern", "bad_iutau"]


def gen_malformed(rng, entry):
    for _ in range(50):
        case = gen_valid(rng, entry)
        kw, st, n = case["kw"], case["st"], len(case["_atoms"])
        if n == 0:
            if entry == "FA" and st.get("minimal"):
                # no atoms, but a per-atom descriptor that has some
                k = rng.choice(PER_ATOM)
                m = rng.randint(1, 3)
                kw[k] = {"elea": [4] * m, "elez": [2] * m, "elem": ["He"] * m, "mass": [4.00260325] * m, "real": [True] * m, "elbl": ["He"] * m}[k]
                case["forms"].pop(k, None)
                case["tag"] = "length_mismatch"
                return case
            continue
        kind = rng.choice(MALFORMED)
        if kind == "length_mismatch":
            ks = [k for k in PER_ATOM if kw.get(k) is not None]
            if not ks:
                continue
            k = rng.choice(ks)
            kw[k] = kw[k][:-1] if (rng.random() < 0.5) else kw[k] + [kw[k][-1]]
            case["forms"].pop(k, None)
        elif kind == "geom_not_3n":
            kw["geom"] = kw["geom"][: -rng.choice([1, 2])] if rng.random() < 0.7 else kw["geom"] + [0.5]
            case["forms"]["geom"] = "flat"
        elif kind == "too_close":
            if n < 2:
                continue
            a, b = rng.sample(range(n), 2)
            d = rng.choice([0.0, 1e-6, 0.03, 0.09, 0.09, 0.11, 0.2, 0.3]) * (st["tooclose"] / 0.1 if entry == "FA" else 1.0)
            ax = rng.randrange(3)
            for i in range(3):
                kw["geom"][3 * b + i] = kw["geom"][3 * a + i] + (d if i == ax else 0.0)
        elif kind == "bad_unit":
            if entry != "FA":
                continue
            kw["units"] = rng.choice(["nm", "Angstroms", "", "au", "bohr ", "A", "pm", "angstrom_"])
        elif kind == "bad_separators":
            if entry != "FA":
                continue
            kw["fragment_separators"] = rng.choice([[0], [n], [n + 3], [1, 1], [2, 1], [n, n + 1], [1, n + 2], [3, 2, 1], [0, 1], [1, 0]])
            kw.pop("fragment_charges", None)
            kw.pop("fragment_multiplicities", None)
        elif kind == "negative_separators":
            if entry != "FA" or n < 2:
                continue
            k = rng.randint(1, n + 1)
            kw["fragment_separators"] = rng.choice([[-k], [1, -1] if n > 2 else [-1], [-k, -1], [-1, -k], [-n]])
            kw.pop("fragment_charges", None)
            kw.pop("fragment_multiplicities", None)
        elif kind == "fragment_lengths":
            if entry == "FA":
                seps = kw.get("fragment_separators")
                nfr = 1 if seps is None else len(seps) + 1
                which = rng.choice(["fragment_charges", "fragment_multiplicities"])
                if seps is None and rng.random() < 0.5:
                    kw[which] = [0] if which == "fragment_charges" else [1]  # given without separation info
                else:
                    if seps is None:
                        kw["fragment_separators"] = []
                    kw[which] = [None] * (nfr + rng.choice([-1, 1, 2]))
            else:
                fr_ = case["schema"].get("fragments")
                if fr_ is None or entry == "MOL":
                    continue
                which = rng.choice(["fragment_charges", "fragment_multiplicities"])
                kw[which] = [None] * (len(fr_) + rng.choice([-1, 1]))
        elif kind == "contradictory_nuclear":
            at = rng.randrange(n)
            a = case["_atoms"][at]
            pt = _pt()
            how = rng.choice(["ZvsE", "badA", "ghost", "mass", "labelmass", "labelA", "labelE"])
            if how == "ZvsE":
                otherZ = a["Z"] % 100 + 1
                kw["elez"] = [x["Z"] for x in case["_atoms"]]
                kw["elem"] = [x["E"] for x in case["_atoms"]]
                kw["elez"][at] = otherZ
            elif how == "badA":
                if entry != "FA" and "elem" not in kw:
                    continue
                kw.setdefault("elem", [x["E"] for x in case["_atoms"]])
                kw["elea"] = [x["A"] for x in case["_atoms"]]
                kw["elea"][at] = max(pt._el2a2mass[a["E"]].keys()) + 40
                kw.pop("mass", None)
            elif how in ("labelmass", "labelA", "labelE"):
                # a full-spec label (speclabel=True: the label carries clues) contradicting the per-atom arrays: its @mass vs the
                # mass array, its leading mass number vs elea, its symbol vs elem
                if not st["speclabel"] or (how == "labelmass" and st["nonphysical"] is None):
                    continue
                kw["elbl"] = [x["E"] for x in case["_atoms"]]
                kw.pop("elez", None)
                if how == "labelmass":
                    kw["mass"] = [x["mass"] for x in case["_atoms"]]
                    kw["elbl"][at] = f"{a['E']}@{a['mass'] + 0.25 + 0.01 * rng.randint(1, 40):.5f}"
                    kw.pop("elea", None)
                elif how == "labelA":
                    isos = sorted(pt._el2a2mass[a["E"]].keys())
                    if len(isos) < 2:
                        continue
                    aa = [x for x in isos if x != a["A"]]
                    kw["elea"] = [x["A"] for x in case["_atoms"]]
                    kw["elea"][at] = aa[0]
                    kw["elbl"][at] = f"{aa[-1]}{a['E']}" if aa[-1] != aa[0] else f"{isos[0] if isos[0] != aa[0] else isos[1]}{a['E']}"
                    if kw["elbl"][at].startswith(str(kw["elea"][at])) and len(str(kw["elea"][at])) == len(kw["elbl"][at]) - len(a["E"]):
                        continue
                    kw.pop("mass", None)
                else:
                    kw["elem"] = [x["E"] for x in case["_atoms"]]
                    other = "He" if a["E"] != "He" else "Ne"
                    kw["elbl"][at] = other
            elif how == "ghost":
                if not st["speclabel"]:
                    continue
                kw["real"] = [True] * n
                kw["elbl"] = [x["E"] for x in case["_atoms"]]
                kw["elbl"][at] = "@" + a["E"]
            else:
                if st["nonphysical"]:
                    continue
                kw.setdefault("elem", [x["E"] for x in case["_atoms"]])
                kw["mass"] = [x["mass"] for x in case["_atoms"]]
                kw["mass"][at] = a["mass"] * 3 + 10
                kw.pop("elea", None)
                if "elbl" in kw and st["speclabel"]:
                    kw.pop("elbl")
            for k in ("elez", "elem", "real", "elbl"):
                case["forms"].pop(k, None)
        elif kind == "bad_bond":
            kw["connectivity"] = gen_bonds(rng, n)
            b = rng.choice(kw["connectivity"])
            how = rng.choice(["neg", "order", "order_neg", "nonint", "arity"])
            if how == "neg":
                b[rng.randrange(2)] = -1
            elif how == "order":
                b[2] = rng.choice([5.5, 6, 5.000001])
            elif how == "order_neg":
                b[2] = rng.choice([-1, -0.5])
            elif how == "nonint":
                b[rng.randrange(2)] = 1.5
            else:
                if entry == "MOL":
                    continue
                kw["connectivity"].append([0, 1] if rng.random() < 0.5 else [0, 1, 1, 1])
        elif kind == "bad_frame":
            if entry == "MOL":
                continue
            kw[rng.choice(["fix_com", "fix_orientation"])] = rng.choice([1, 0, "yes", "True"])
        elif kind == "bad_schema":
            if entry != "FS":
                continue
            sc = case["schema"]
            how = rng.choice(["name", "version", "both", "noversion", "swap"])
            if how == "name":
                sc["schema_name"] = rng.choice(["molecule", "qcschem", "QCSchema_molecule", ""])
            elif how == "version":
                sc["schema_version"] = rng.choice([3, 0, -1])
            elif how == "both":
                sc["schema_name"], sc["schema_version"] = None, None
            elif how == "noversion":
                sc["schema_version"] = None
            else:  # v1 name with v2 layout / version
                sc["schema_name"], sc["schema_version"], sc["nested"] = "qcschema_input", 2, False
        elif kind == "bad_pattern":
            if entry == "FA":
                continue
            sc = case["schema"]
            base = sc.get("fragments") or [list(range(n))]
            how = rng.choice(["offset", "skip", "reorder", "empty", "dup", "short", "long", "perm_frags", "reverse_frag"])
            fr_ = [list(f) for f in base]
            if how == "perm_frags":  # every fragment contiguous, the fragments in another order
                if len(fr_) < 2:
                    continue
                i, j = rng.sample(range(len(fr_)), 2)
                fr_[i], fr_[j] = fr_[j], fr_[i]
            elif how == "reverse_frag":  # one fragment lists its (consecutive) atoms backwards
                ks = [k for k, f in enumerate(fr_) if len(f) >= 2]
                if not ks:
                    continue
                k = rng.choice(ks)
                fr_[k] = fr_[k][::-1]
            elif how == "offset":
                fr_ = [[i + 1 for i in f] for f in fr_]
            elif how == "skip":
                if n < 2:
                    continue
                fr_[-1] = fr_[-1][:-1] + [fr_[-1][-1] + 1]
            elif how == "reorder":
                flat = [i for f in fr_ for i in f]
                if len(flat) < 2:
                    continue
                i, j = rng.sample(range(len(flat)), 2)
                flat[i], flat[j] = flat[j], flat[i]
                it = iter(flat)
                fr_ = [[next(it) for _ in f] for f in fr_]
            elif how == "empty":
                fr_.insert(rng.randrange(len(fr_) + 1), [])
                if entry == "MOL":
                    continue
            elif how == "dup":
                fr_[0] = fr_[0] + [fr_[0][0]]
            elif how == "short":
                if len(fr_[-1]) < 2 and len(fr_) < 2:
                    continue
                fr_[-1] = fr_[-1][:-1]
                fr_ = [f for f in fr_ if f]
                if not fr_:
                    continue
            else:
                fr_[-1] = fr_[-1] + [n]
            sc["fragments"] = fr_
            kw.pop("fragment_charges", None)
            kw.pop("fragment_multiplicities", None)
        elif kind == "bad_iutau":
            if entry != "FA":
                continue
            base = 1.0 if kw.get("units", "Angstrom").lower() == "bohr" else ang_to_au()
            kw["input_units_to_au"] = base + rng.choice([0.06, -0.06, 1.0, -0.0500011, 0.3, 0.0501, 0.07, -0.2])
        case["tag"] = kind
        return case
    return gen_valid(rng, entry)


def gen_leak_case(rng):
    """targeted: heavy atoms whose mass is np.allclose (rtol 1e-5) to the default mass but outside mtol — the
    `_filter_defaults` class recorded as a known finding; the from_schema/from_arrays records must still be right."""
    pt = _pt()
    n = rng.randint(1, 3)
    zs = [rng.randint(72, 112) for _ in range(n)]
    elem = [pt.to_E(z) for z in zs]
    mass = [pt.to_mass(e) + rng.choice([1.5e-3, -1.6e-3, 1.2e-3]) for e in elem]
    kw = {"geom": gen_coords(rng, n), "elem": elem, "mass": mass}
    return {"entry": "MOL", "kw": kw, "st": dict(DEFAULT_ST, speclabel=False), "forms": {"geom": "flat"},
            "schema": {"schema_name": None, "schema_version": None, "nested": False}, "tag": "filter_defaults_leak"}


def acceptable_case(case):
    """exclusion zone: distances within 1e-9 of the threshold, iutau within 1e-9 of the window edge."""
    kw, st = case["kw"], case["st"]
    g = kw.get("geom") or []
    tc = st["tooclose"] if case["entry"] == "FA" else 0.1
    if len(g) >= 6:
        _, margin = min_dist_margin(g, tc)
        if margin < 1e-9:
            return False
    x = kw.get("input_units_to_au")
    if x is not None:
        base = 1.0 if kw.get("units", "Angstrom").lower() == "bohr" else ang_to_au()
        if abs(abs(x - base) - 0.05) < 1e-9:
            return False
    return True


def gen_exact_threshold(rng):
    """a valid from_arrays case whose CLOSEST pair lies EXACTLY at the overlap threshold: atoms on distinct points of the lattice
    (tooclose * Z)^3 with tooclose in {0.5, 0.25, 2.0} (binary fractions: the coordinates, every squared distance and tooclose**2 are
    exact doubles, so the implementation's comparison in double IS the exact one and the 1e-9 exclusion zone is not needed).  `closer than
    the threshold` is strict (`dists < metric`): such a molecule must be accepted.  Half of the cases move one atom to 3/4 of the lattice
    step from its neighbour (closer than the threshold: must be refused)."""
    for _ in range(50):
        c = gen_valid(rng, "FA")
        n = len(c["kw"].get("geom") or []) // 3
        if n >= 2:
            break
    tc = rng.choice([0.5, 0.25, 2.0])
    pts = {(0, 0, 0), (1, 0, 0)} if rng.random() < 0.5 else {(0, 0, 0), (0, 0, 1)}
    while len(pts) < n:
        pts.add((rng.randrange(-2, 3), rng.randrange(-2, 3), rng.randrange(-2, 3)))
    pts = sorted(pts)
    rng.shuffle(pts)
    g = [tc * x for p in pts for x in p]
    c["st"]["tooclose"] = tc
    c["tag"] = "valid"
    c["exact_threshold"] = "at"
    if rng.random() < 0.5:
        # one atom closer than the threshold to (0,0,0): 3/4 of a step along a free axis direction
        k = pts.index((0, 0, 0))
        j = next(i for i in range(n) if i != k)
        g[3 * j: 3 * j + 3] = [0.0, 0.75 * tc, 0.0] if (0, 1, 0) not in pts else [0.0, -0.75 * tc, 0.0]
        if (0, 1, 0) in pts and (0, -1, 0) in pts:
            g[3 * j: 3 * j + 3] = [0.375 * tc, 0.375 * tc, 0.0]
        c["tag"] = "tooclose_exact"
        c["exact_threshold"] = "below"
    c["kw"]["geom"] = g
    return c


def strip_case(case):
    c = {k: v for k, v in case.items() if not k.startswith("_")}
    return json.loads(json.dumps(c))


def gen_cases(ctx: Ctx):
    rng = ctx.rng
    nv, nm = ctx.scale(1500, 14000), ctx.scale(1000, 9000)
    plan = [("FA", nv, nm), ("FS", nv // 2, nm // 2), ("MOL", nv // 2, nm // 2)]
    cases = []
    for entry, a, b in plan:
        for _ in range(a):
            c = gen_valid(rng, entry)
            if acceptable_case(c):
                cases.append(strip_case(c))
        for _ in range(b):
            c = gen_malformed(rng, entry)
            if acceptable_case(c):
                cases.append(strip_case(c))
    for _ in range(ctx.scale(4, 20)):
        cases.append(strip_case(gen_leak_case(rng)))
    for _ in range(ctx.scale(250, 1200)):
        c = gen_ts_special(rng)
        if acceptable_case(c):
            cases.append(strip_case(c))
    # isotope stream (A without mass / mass without A around non-default isotopes / half-way masses), default scope
    for entry, k in (("FA", ctx.scale(60, 1200)), ("FS", ctx.scale(25, 400)), ("MOL", ctx.scale(15, 300))):
        for _ in range(k):
            c = gen_iso(rng, entry)
            if acceptable_case(c):
                cases.append(strip_case(c))
    # exact-threshold stream (binary-fraction lattices: closest pair exactly AT tooclose -> accepted; 3/4 of it -> refused)
    for _ in range(ctx.scale(40, 300)):
        cases.append(strip_case(gen_exact_threshold(rng)))
    # call sequences (consecutive in the list: `evaluate` calls the implementation in list order, in this process)
    for _ in range(ctx.scale(90, 500)):
        cases.extend(gen_sequence(rng))
    return cases


# ----------------------------------------------------------------------------------------
# running


def primary_line(case):
    if case["entry"] == "FA":
        return enc_line("FA", case["kw"], case["st"])
    st = dict(case["st"])
    st.update(speclabel=False, mtol=1.0e-3, tooclose=0.1, minimal=False, zgf=False)
    sc = dict(case["schema"])
    if case["entry"] == "MOL":  # Molecule.__init__ fills these in when absent (molecule.py:352-353)
        if sc.get("schema_name") is None:
            sc["schema_name"] = "qcschema_molecule"
        if sc.get("schema_version") is None:
            sc["schema_version"] = 2
    return enc_line("FS", case["kw"], st, schema=sc)


def impl_primary(case):
    if case["entry"] == "FA":
        return call_fa(case["kw"], case["st"], case["forms"])
    if case["entry"] == "FS":
        return call_fs(case)
    return call_mol(case)


def mol_compare(mol, m, kw):
    """Molecule fields against the model's from_schema record (behavioural; _filter_defaults re-stated)."""
    pt = _pt()
    bad = []
    n = len(m["elem"])

    def chk(name, a, b):
        if a != b:
            bad.append(f"{name}: {str(a)[:100]} vs model {str(b)[:100]}")

    chk("symbols", [str(x) for x in mol.symbols], m["elem"])
    geo = [float(x) for x in np.asarray(mol.geometry).ravel()]
    if len(geo) != 3 * n or any(abs(Fraction(a) - b) > Fraction(5000001, 10**15) for a, b in zip(geo, m["geom"])):
        bad.append("geometry differs from the record by more than the 8-decimal rounding")
    dm = [pt.to_mass(e) for e in m["elem"]]
    if np.array_equal(dm, [float(x) for x in m["mass"]]):
        # _filter_defaults drops validated masses / mass_numbers that equal the defaults; `{**kwargs, **schema}`
        # (molecule.py:363) then keeps whatever the caller passed (already validated above, but not normalised:
        # e.g. a mass number given as -1 stays -1)
        chk("masses(default)", [float(x) for x in mol.masses], [float(x) for x in kw["mass"]] if kw.get("mass") is not None else dm)
        chk("mass_numbers(default)", [int(x) for x in mol.mass_numbers],
            [int(x) for x in kw["elea"]] if kw.get("elea") is not None else [pt.to_A(e) for e in m["elem"]])
    else:
        chk("masses", [Fraction(float(x)) for x in mol.masses], m["mass"])
        chk("mass_numbers", [int(x) for x in mol.mass_numbers], m["elea"])
    chk("atomic_numbers", [int(x) for x in mol.atomic_numbers], m["elez"])
    chk("real", [bool(x) for x in mol.real], m["real"])
    chk("atom_labels", [str(x) for x in mol.atom_labels], m["elbl"])
    chk("fragments", [[int(i) for i in f] for f in mol.fragments], py_split_points(n, m["fragment_separators"]))
    chk("fragment_charges", [float(x) for x in mol.fragment_charges], [float(x) for x in m["fragment_charges"]])
    chk("fragment_multiplicities", [int(x) for x in mol.fragment_multiplicities], m["fragment_multiplicities"])
    chk("molecular_charge", float(mol.molecular_charge), float(m["molecular_charge"]))
    chk("molecular_multiplicity", int(mol.molecular_multiplicity), m["molecular_multiplicity"])
    chk("fix_com", bool(mol.fix_com), m["fix_com"])
    chk("fix_orientation", bool(mol.fix_orientation), m["fix_orientation"])
    chk("fix_symmetry", mol.fix_symmetry, m["fix_symmetry"])
    conn = mol.connectivity
    chk("connectivity", None if conn is None else [(int(a), int(b), Fraction(float(o))) for a, b, o in conn], m["connectivity"])
    if m["name"] is not None:
        chk("name", mol.name, m["name"])
    chk("comment", mol.comment, m["comment"])
    if mol.validated is not True:
        bad.append("validated flag not set")
    return bad


def mol_as_record(mol):
    """a Molecule seen as a record for the invariant oracle."""
    n = len(mol.symbols)
    seps = list(np.cumsum([len(f) for f in mol.fragments])[:-1])
    return {
        "units": "Bohr", "geom": np.asarray(mol.geometry).ravel(), "elea": mol.mass_numbers, "elez": mol.atomic_numbers,
        "elem": mol.symbols, "mass": mol.masses, "real": mol.real, "elbl": mol.atom_labels, "fragment_separators": seps,
        "molecular_charge": mol.molecular_charge, "fragment_charges": mol.fragment_charges,
        "molecular_multiplicity": mol.molecular_multiplicity, "fragment_multiplicities": mol.fragment_multiplicities,
        "fix_com": mol.fix_com, "fix_orientation": mol.fix_orientation,
        "provenance": {"creator": mol.provenance.creator, "routine": "qcelemental.molparse.from_schema"},
        "_contiguous": [int(i) for f in mol.fragments for i in f] == list(range(n)) and all(len(f) for f in mol.fragments),
    }


def filter_defaults_leak(case, mol):
    """the class repaired in /repo 1141b4a (kept as its own violation kind): the validated record (from_schema on
    the same input) says A == -1 for some atom, its masses are np.allclose to the default masses, and
    Molecule.mass_numbers shows the default A there."""
    pt = _pt()
    c2 = dict(case, schema=dict(case["schema"]))
    if c2["schema"].get("schema_name") is None:
        c2["schema"]["schema_name"] = "qcschema_molecule"
    if c2["schema"].get("schema_version") is None:
        c2["schema"]["schema_version"] = 2
    rec = call_fs(c2)
    if rec[0] != "ok":
        return False
    rec = rec[1]
    dm = [pt.to_mass(str(e)) for e in rec["elem"]]
    if not np.allclose(dm, [float(x) for x in rec["mass"]]):
        return False
    for at in range(len(dm)):
        if int(rec["elea"][at]) == -1 and int(mol.mass_numbers[at]) == pt.to_A(str(rec["elem"][at])):
            return True
    return False


def mol_equal(a, b):
    da, db = a.dict(), b.dict()
    if set(da) != set(db):
        return f"keys differ: {sorted(set(da) ^ set(db))}"
    for k in da:
        x, y = da[k], db[k]
        if k == "provenance":
            continue
        try:
            if isinstance(x, np.ndarray) or isinstance(y, np.ndarray):
                same = np.asarray(x).shape == np.asarray(y).shape and bool(np.all(np.asarray(x) == np.asarray(y)))
            elif k == "fragments":
                same = [list(map(int, f)) for f in x] == [list(map(int, f)) for f in y]
            else:
                same = x == y
        except Exception:  # noqa
            same = False
        if not same:
            return f"field {k}: {str(x)[:80]} vs {str(y)[:80]}"
    return ""


# ----------------------------------------------------------------------------------------
# Molecule(validate=True, **stamped_dict): a dictionary that carries `validated: True` (any Molecule.dict(), any
# to_schema(..., dtype=2) output) whose data were edited afterwards must be refused when validation is on


def stamped_edits(d0, nonphysical, mol):
    """(name, edited dict) — one malformed-class edit each, chosen deterministically from the dictionary itself.
    (`Molecule.dict()` leaves out fields that equal their defaults; an edit spells the field out from the model.)"""
    pt = _pt()
    n = len(d0["symbols"])
    out = []
    full = {k: (d0[k] if k in d0 else getattr(mol, k)) for k in ("masses", "atomic_numbers", "molecular_charge", "fragment_charges",
                                                                  "molecular_multiplicity", "fragment_multiplicities", "fragments", "geometry", "symbols")}
    d0, stamped = full, d0

    def copy():
        d = dict(stamped)
        for k in ("provenance", "extras", "identifiers", "id"):
            d.pop(k, None)
        return d

    g = np.array(d0["geometry"], dtype=float).reshape(-1, 3)
    if n >= 2:
        d = copy()
        g2 = g.copy()
        g2[n - 1] = g2[0] + np.array([0.0, 0.0, 0.05])
        d["geometry"] = g2
        out.append(("overlap", d))
    if not nonphysical:
        d = copy()
        m = [float(x) for x in d0["masses"]]
        E = str(d0["symbols"][0])
        m[0] = float(round(max(pt._el2a2mass[E].values()) + 0.5 + 5.0, 6))
        d["masses"] = m
        d.pop("mass_numbers", None)
        out.append(("contradictory_mass", d))
    d = copy()
    z = [int(x) for x in d0["atomic_numbers"]]
    z[n - 1] = z[n - 1] % 100 + 1
    d["atomic_numbers"] = z
    out.append(("symbol_vs_atomic_number", d))
    d = copy()
    d["molecular_charge"] = float(d0["molecular_charge"]) + 1.0
    d["fragment_charges"] = [float(x) for x in d0["fragment_charges"]]
    out.append(("charge_not_sum_of_fragment_charges", d))
    d = copy()
    d["molecular_multiplicity"] = int(d0["molecular_multiplicity"]) + 1
    d["fragment_multiplicities"] = [int(x) for x in d0["fragment_multiplicities"]]
    out.append(("infeasible_multiplicity", d))
    d = copy()
    d["masses"] = [float(x) for x in d0["masses"]] + [1.0]
    out.append(("length_mismatch", d))
    d = copy()
    fr_ = [[int(i) for i in f] for f in d0["fragments"]]
    fr_[-1] = fr_[-1][:-1] + [fr_[-1][-1] + 1]
    d["fragments"] = fr_
    out.append(("fragments_skip_atom", d))
    if n >= 2:
        d = copy()
        flat = [int(i) for f in d0["fragments"] for i in f]
        flat[0], flat[-1] = flat[-1], flat[0]
        it = iter(flat)
        d["fragments"] = [[next(it) for _ in f] for f in d0["fragments"]]
        out.append(("fragments_reordered", d))
    return out


def stamped_dict_checks(out: Outcome, case, mol, nonphysical):
    import qcelemental as qcel

    d0 = mol.dict()
    extra = {"nonphysical": True} if nonphysical else {}
    if d0.get("validated") is not True:
        out.violations.append(Finding("oracle:stamped:no_stamp", case, observed=str(d0.get("validated")), detail="Molecule.dict() of a validated molecule does not carry validated=True"))
        return
    # validation on, explicitly, on the untouched stamped dictionary: a fixed point
    again = _quiet(lambda: qcel.models.Molecule(validate=True, **dict(mol.dict(), **extra)))
    if again[0] != "ok":
        out.violations.append(Finding("oracle:not_fixed_point", case, observed="err " + again[1], detail="Molecule(validate=True, **mol.dict()) refused: " + again[2]))
    else:
        dd = mol_equal(mol, again[1])
        if dd:
            out.violations.append(Finding("oracle:not_fixed_point", case, observed=dd, detail="Molecule(validate=True, **mol.dict()) differs from mol"))
    for name, d in stamped_edits(d0, nonphysical, mol):
        out.count("stamped_edit:" + name)
        # (a) validation explicitly on, the stamp present
        r1 = _quiet(lambda: qcel.models.Molecule(validate=True, **dict(d, **extra)))
        # (b) the documented default: validate=None means "validate unless the stamp is set" -> stamp removed = validation on
        d2 = {k: v for k, v in d.items() if k != "validated"}
        r2 = _quiet(lambda: qcel.models.Molecule(**dict(d2, **extra)))
        for how, r in (("validate=True, stamped", r1), ("validate=None, stamp removed", r2)):
            if r[0] == "ok":
                m = r[1]
                out.violations.append(Finding("oracle:stamped_dict_not_refused:" + name, case,
                                              observed=f"accepted: symbols={list(map(str, m.symbols))} masses={[float(x) for x in m.masses]} chg={m.molecular_charge}/{list(m.fragment_charges)} "
                                                       f"mult={m.molecular_multiplicity}/{list(m.fragment_multiplicities)} fragments={m.fragments}"[:500],
                                              expected="ValidationError",
                                              detail=f"Molecule({how}) accepted mol.dict() edited into class '{name}' (validation on must refuse: no valid record exists)"))
            elif r[1] != "Validation" and not (name in ("contradictory_mass", "symbol_vs_atomic_number") and r[1] == "NotAnElement"):
                out.violations.append(Finding("oracle:stamped_dict_error_class:" + name, case, observed="err " + r[1], expected="ValidationError",
                                              detail=f"Molecule({how}) on class '{name}' raised {r[1]}: {r[2]}"))


# ----------------------------------------------------------------------------------------
# history independence: a call inside a sequence must answer what a fresh process answers

_FRESH_SRC = r"""
import sys, json, contextlib, io
sys.path.insert(0, sys.argv[1])
import c04
case = json.load(open(sys.argv[2]))
res = c04.impl_primary(case)
if res[0] == "ok":
    print(json.dumps(["ok", c04.canon_rec(res[1]) if case["entry"] != "MOL" else "ok(Molecule)"]))
else:
    print(json.dumps(["err", res[1]]))
"""


def fresh_process_answer(ctx: Ctx, case):
    """the same single call in a new interpreter (nothing validated before it)."""
    import subprocess
    import sys as _sys
    import os as _os

    f = ctx.work / f"fresh.{_os.getpid()}.{abs(hash(case_key(case))) % 10**9}.json"
    c = {k: v for k, v in case.items() if k != "seq"}
    f.write_text(json.dumps(c))
    p = subprocess.run([_sys.executable, "-c", _FRESH_SRC, str(common.VERIF / "harness"), str(f)], capture_output=True, text=True, timeout=300,
                       env=dict(_os.environ))
    if p.returncode != 0:
        raise RuntimeError("fresh-process worker failed: " + p.stderr[-800:])
    return json.loads(p.stdout.strip().split("\n")[-1])


def case_key(case):
    return json.dumps(case, sort_keys=True, default=str)


def run_streams(ctx: Ctx, lines):
    """the same lines through both drivers, concurrently: (answers with the implementation's reconcile_nucleus table,
    answers with the per-atom reconciliation computed by the C06 model)"""
    from concurrent.futures import ThreadPoolExecutor

    if not lines:
        return [], []
    with ThreadPoolExecutor(max_workers=2) as ex:
        fa = ex.submit(ctx.run_model, DRIVER, lines)
        fb = ex.submit(ctx.run_model, DRIVER_C06, lines)
        return fa.result(), fb.result()


def src_line(line: str) -> str:
    """the same line with op FA -> FAs / FS -> FSs: answered by the pipeline whose geometry / nuclei / fragment stages are the programs
    generated from the source (Gen/FromArraysSrc.lean)"""
    return line[:2] + "s" + line[2:]


def run_streams3(ctx: Ctx, lines):
    """run_streams plus the source-derived answers (third voice of the three-way comparison)"""
    from concurrent.futures import ThreadPoolExecutor

    if not lines:
        return [], [], []
    with ThreadPoolExecutor(max_workers=3) as ex:
        fa = ex.submit(ctx.run_model, DRIVER, lines)
        fb = ex.submit(ctx.run_model, DRIVER_C06, lines)
        fc = ex.submit(ctx.run_model, DRIVER, [src_line(l) for l in lines])
        return fa.result(), fb.result(), fc.result()


def src_compare(out: Outcome, case, tag, ci, ml, mls):
    """three-way: implementation (ci; None when not comparable line by line) / hand model (ml) / source-derived program (mls)"""
    if mls is None:
        return
    if mls == "src-untranslated":
        out.count("src_stream:untranslated")
        return
    if mls.startswith("bad-op"):
        raise RuntimeError(f"FAs/FSs line not understood by the driver: {case_key(case)[:300]}")
    out.count("src_stream:" + tag)
    if ml is not None and mls != ml:
        out.mismatches.append(Finding("mismatch:src-vs-model:" + tag, case, observed=mls[:600], expected=ml[:600],
                                      detail="the program generated from the source (Gen/FromArraysSrc.lean) and the hand model answer differently — "
                                             "contradicts fromArraysWith_eq / fromSchemaWith_eq (Props/C04Src.lean): " + (first_diff(ml, mls) if ml.startswith("ok") and mls.startswith("ok") else "")))
    if ci is not None and mls != ci and not (ml is not None and mls == ml):
        out.mismatches.append(Finding("mismatch:src:" + tag, case, observed=ci[:600], expected=mls[:600],
                                      detail="implementation vs the program generated from its own source: " + (first_diff(ci, mls) if ci.startswith("ok") and mls.startswith("ok") else "")))


def idem_class(kw, st):
    """which theorem of Props/C04C06.lean covers the fixed point of this input (distribution only)"""
    def absent(k):
        v = kw.get(k)
        return v is None or all(x is None or (k == "elea" and x == -1) for x in v)

    if kw.get("mass") is not None and all(x is not None for x in kw["mass"]):
        return "all_masses_supplied(from_arrays_idempotent_c06_masses)"
    if absent("elea") and absent("mass") and (not st["speclabel"] or absent("elbl")) and st["mtol"] >= 0:
        return "plain(from_arrays_idempotent_c06_plain)"
    if not st["nonphysical"] and 0 <= st["mtol"] <= ISO_MTOL_BOUND:
        return "isotope_without_mass_or_mixed:nonphysical=False,0<=mtol<=0.9865(from_arrays_idempotent_narrow / _default)"
    return "isotope_without_mass_or_mixed:nonphysical_or_wide_window(from_arrays_idempotent_c06_partial: SelfConsistent hypothesis)"


def evaluate(ctx: Ctx, out: Outcome, cases):
    lines = [primary_line(c) for c in cases]
    model = [None] * len(cases)
    model6 = [None] * len(cases)
    model_src = [None] * len(cases)
    if ctx.model_available:
        model, model6, model_src = run_streams3(ctx, lines)
    feedback = []  # (index, line, canon of the implementation's record)
    sc_lines = []  # (index, primary line with op FAq/FSq): is the hypothesis of from_arrays_idempotent_c06_partial met?
    not_fixed = set()  # indices where the implementation's record fed back did not come back unchanged
    results = []
    fresh_budget = [8]  # fresh-interpreter re-runs of suspicious sequence calls (each costs an import of the library)
    for idx, (case, line, ml, ml6, mls) in enumerate(zip(cases, lines, model, model6, model_src)):
        entry, st = case["entry"], case["st"]
        res = impl_primary(case)
        results.append(res)
        out.evaluations += 1
        if case.get("seq"):
            sq = case["seq"]
            out.count(f"sequence:{sq['kind']}:pos{sq['pos']}:{entry}:{case['tag']}")
            prev = [p["tag"] for p in sq["prefix"]]
            if case["tag"] != "valid" and "valid" in prev:
                out.count("sequence:strict_after_permissive")
            if case["tag"] == "valid" and any(t != "valid" for t in prev):
                out.count("sequence:permissive_after_strict")
        out.count("entry:" + entry)
        out.count("tag:" + case["tag"])
        if case.get("iso"):
            out.count(f"iso_stream:{entry}:" + ("accepted" if res[0] == "ok" else "refused:" + res[1]))
            out.count(f"iso_stream:mtol={st['mtol']:g}")
            for sty in case["iso"]:
                out.count("iso_stream:atom:" + sty)
        n = len(case["kw"].get("geom") or []) // 3
        out.count(f"natoms:{n:02d}")
        nd = sum(1 for k in PER_ATOM if case["kw"].get(k) is not None)
        out.count(f"descriptor_arrays_supplied:{nd}")
        if res[0] == "ok":
            ci = canon_rec(res[1]) if entry != "MOL" else "ok(Molecule)"
            out.count(f"outcome:{entry}:ok")
        else:
            ci = "err " + res[1]
            out.count(f"outcome:{entry}:err:{res[1]}")
        if case["tag"] == "valid":
            out.count(f"valid_stream:{entry}:" + ("accepted" if res[0] == "ok" else "refused"))
        if ml is not None and ml.startswith("bad-op"):
            raise RuntimeError(f"driver could not parse the line for case {case_key(case)[:400]}")
        if ml is not None and "TABLE-MISS" in ml:
            raise RuntimeError(f"reconciler table incomplete for case {case_key(case)[:400]}")
        if ml6 is not None and ml6.startswith("bad-op"):
            raise RuntimeError(f"driver (C06 stream) could not parse the line for case {case_key(case)[:400]}")
        nfr = 1
        if res[0] == "ok" and entry != "MOL":
            nfr = len(res[1]["fragment_separators"]) + 1
            out.count(f"fragments:{nfr}")
        if res[0] == "err" or n >= 2 or nd < 6 or nfr > 1:
            out.nontrivial(line)
        if len(out.samples) < 6 and (idx % 97 == 0):
            out.sample({"entry": entry, "tag": case["tag"], "input": line[:400], "impl": ci[:300], "model": (ml or "")[:300]})

        # ---------------- oracle: refusal classes + error class
        demand = must_refuse(case)
        if demand is not None:
            out.count("refusal_class:" + demand)
            if res[0] == "ok":
                out.violations.append(Finding("oracle:not_refused:" + demand, case, observed=ci[:400], expected="ValidationError",
                                              detail=f"input of refusal class '{demand}' was accepted"))
            elif res[1] != "Validation" and not (demand == "contradictory_nuclear" and res[1] == "NotAnElement"):
                out.violations.append(Finding("oracle:refusal_error_class:" + demand, case, observed=ci, expected="ValidationError",
                                              detail=f"refused with {res[1]}: {res[2]}"))
        elif res[0] == "err" and res[1] not in ("Validation", "NotAnElement"):
            out.violations.append(Finding("oracle:error_class", case, observed=ci, expected="ValidationError (or NotAnElementError from the reconciler)",
                                          detail=res[2]))
        # ---------------- oracle: invariant on success + fixed point
        if res[0] == "ok" and entry != "MOL":
            rec = res[1]
            ist = dict(st)
            if entry == "FS":
                ist.update(tooclose=0.1, mtol=1.0e-3)
            for clause, msg in inv_complaints(rec, ist):
                out.violations.append(Finding("oracle:inv:" + clause, case, observed=ci[:600], detail=msg))
            from qcelemental.molparse import from_arrays

            fst = dict(ist)
            if entry == "FS":
                fst["minimal"] = False
            back = _quiet(lambda: from_arrays(**feed_back_args(rec, fst)))
            cb = canon_rec(back[1]) if back[0] == "ok" else "err " + back[1]
            if cb != ci:
                not_fixed.add(idx)
                out.violations.append(Finding("oracle:not_fixed_point", case, observed=cb[:600], expected=ci[:600],
                                              detail="from_arrays(speclabel=False, **rec) != rec: " + (first_diff(ci, cb) if back[0] == "ok" else back[2])))
            # fed back TWICE: the record returned by the first feed-back is itself a validated molecule and must be returned
            # unchanged again (theorems from_arrays_second_pass_c06_rd64 / from_arrays_idempotent_default)
            if back[0] == "ok":
                back2 = _quiet(lambda: from_arrays(**feed_back_args(back[1], fst)))
                cb2 = canon_rec(back2[1]) if back2[0] == "ok" else "err " + back2[1]
                out.count("fed_back_twice")
                if cb2 != cb:
                    out.violations.append(Finding("oracle:not_fixed_point_second_pass", case, observed=cb2[:600], expected=cb[:600],
                                                  detail="the record returned by from_arrays(speclabel=False, **rec), fed back again, is not returned unchanged: "
                                                  + (first_diff(cb, cb2) if back2[0] == "ok" else back2[2])))
            if case.get("iso") and back[0] == "ok" and cb == ci:
                for at, sty in enumerate(case["iso"]):
                    out.count("iso_stream:record_atom:" + sty + (":A=-1" if int(rec["elea"][at]) == -1 else ":A_set"))
            bst = dict(fst)
            bst.update(speclabel=False, zgf=False)
            feedback.append((idx, enc_line("FA", rec_as_kw(rec), bst), ci))
            sc_lines.append((idx, line[:2] + "q" + line[2:]))
            out.count("fixed_point_covered_by:" + idem_class(case["kw"], dict(st, speclabel=False) if entry == "FS" else st))
        if res[0] == "ok" and entry == "MOL":
            import qcelemental as qcel

            mol = res[1]
            mrec = mol_as_record(mol)
            if not mrec["_contiguous"]:
                out.violations.append(Finding("oracle:inv:fragments", case, observed=str(mol.fragments)[:300], detail="Molecule fragments do not partition the atoms in order"))
            else:
                leak = filter_defaults_leak(case, mol)
                for clause, msg in inv_complaints(mrec, dict(st, tooclose=0.1 - 2e-8, mtol=1.0e-3 + 1e-9)):
                    if clause == "nuclear" and "is not the mass of" in msg and leak:
                        out.violations.append(Finding("oracle:molecule_filter_defaults_mass_number", case, observed=f"mass_numbers={list(map(int, mol.mass_numbers))} masses={list(map(float, mol.masses))}",
                                                      expected="mass number -1 (as in the from_schema record) or the nuclide's own mass",
                                                      detail="Molecule: " + msg + " — _filter_defaults (np.allclose, rtol 1e-5) dropped the validated masses/mass_numbers; the caller's mass survives, mass_numbers falls back to the default isotope"))
                    else:
                        out.violations.append(Finding("oracle:inv:" + clause, case, observed=ci, detail="Molecule: " + msg))
            again = _quiet(lambda: qcel.models.Molecule(**mol.dict()))
            if again[0] != "ok":
                out.violations.append(Finding("oracle:not_fixed_point", case, observed="err " + again[1], detail="Molecule(**mol.dict()) refused: " + again[2]))
            else:
                d = mol_equal(mol, again[1])
                if d:
                    out.violations.append(Finding("oracle:not_fixed_point", case, observed=d, detail="Molecule(**mol.dict()) differs from mol"))
            if idx % 3 == 0:  # every third accepted Molecule (a replayed case has idx 0)
                stamped_dict_checks(out, case, mol, bool(st["nonphysical"]))
            extra = {"nonphysical": True} if st["nonphysical"] else {}
            again2 = _quiet(lambda: qcel.models.Molecule(**dict(mol.dict(), validated=False, **extra)))
            if again2[0] != "ok":
                out.violations.append(Finding("oracle:not_fixed_point", case, observed="err " + again2[1], detail="re-validating Molecule(**mol.dict(), validated=False) refused: " + again2[2]))
            else:
                d = mol_equal(mol, again2[1])
                if d:
                    out.violations.append(Finding("oracle:not_fixed_point", case, observed=d, detail="re-validated Molecule differs from mol"))
        # ---------------- correspondence
        if ml is not None:
            if entry != "MOL":
                if ml != ci:
                    out.mismatches.append(Finding("mismatch:" + entry, case, observed=ci[:600], expected=ml[:600],
                                                  detail="implementation vs Lean model: " + (first_diff(ci, ml) if ci.startswith("ok") and ml.startswith("ok") else "")))
            else:
                if ml.startswith("ok"):
                    if res[0] != "ok":
                        conn = case["kw"].get("connectivity")
                        if not (conn is not None and len(conn) == 0):
                            out.mismatches.append(Finding("mismatch:MOL", case, observed=ci, expected=ml[:300], detail="Molecule refused what the from_schema model accepts: " + res[2]))
                    else:
                        for msg in mol_compare(res[1], parse_model(ml), case["kw"]):
                            out.mismatches.append(Finding("mismatch:MOL", case, observed=msg, expected=ml[:300], detail="Molecule field vs from_schema model record"))
                else:
                    if res[0] == "ok":
                        out.mismatches.append(Finding("mismatch:MOL", case, observed=ci, expected=ml, detail="Molecule accepted what the from_schema model refuses"))
                    elif ml != ci:
                        out.mismatches.append(Finding("mismatch:MOL", case, observed=ci, expected=ml, detail="error class"))
        # ---------------- correspondence, source-derived stages (three-way; for Molecule(...) only program vs hand model)
        src_compare(out, case, entry, ci if entry != "MOL" else None, ml, mls)
        # ---------------- history independence (sequences): the stateless model disagrees -> what does a fresh process say?
        if case.get("seq") and case["seq"]["pos"] > 0 and ml is not None and entry != "MOL" and ml != ci and fresh_budget[0] > 0:
            fresh_budget[0] -= 1
            fr_ans = fresh_process_answer(ctx, case)
            cf_ = fr_ans[1] if fr_ans[0] == "ok" else "err " + fr_ans[1]
            if cf_ != ci:
                out.violations.append(Finding("oracle:history_dependent", case, observed=ci[:600], expected=cf_[:600],
                                              detail=f"call #{case['seq']['pos']} of a sequence answers differently from the same call in a fresh process "
                                                     f"(earlier calls: {[ (p['entry'], p['tag'], {k: p['st'][k] for k in ('nonphysical', 'mtol', 'tooclose', 'speclabel', 'zgf')}) for p in case['seq']['prefix']]})"[:900]))
        # ---------------- correspondence, second stream: the per-atom reconciliation computed by the C06 model
        if ml6 is not None:
            out.count("c06_stream:" + entry)
            if entry != "MOL":
                # (a disagreement shared with the first stream has been reported there)
                if ml6 != ci and not (ml is not None and ml6 == ml):
                    out.mismatches.append(Finding("mismatch:c06:" + entry, case, observed=ci[:600], expected=ml6[:600],
                                                  detail="implementation vs Lean from_arrays with the C06 model as reconciler (end to end): "
                                                  + (first_diff(ci, ml6) if ci.startswith("ok") and ml6.startswith("ok") else "")))
            elif ml is not None and ml6 != ml:
                out.mismatches.append(Finding("mismatch:c06:MOL", case, observed=ml[:600], expected=ml6[:600],
                                              detail="from_schema model with the implementation's reconcile_nucleus answers vs with the C06 model: "
                                              + (first_diff(ml, ml6) if ml.startswith("ok") and ml6.startswith("ok") else "")))
    # ---------------- the hypothesis of the partial fixed-point theorem, evaluated by Lean on every accepted record
    if ctx.model_available and sc_lines:
        for (idx, _l), a in zip(sc_lines, ctx.run_model(DRIVER_C06, [l for _, l in sc_lines])):
            if a.startswith("sc T "):
                out.count("SelfConsistent_hypothesis(from_arrays_idempotent_c06_partial):holds")
                cst = cases[idx]["st"]
                if not cst["nonphysical"] and 0 <= (cst["mtol"] if cases[idx]["entry"] == "FA" else 1.0e-3) <= ISO_MTOL_BOUND:
                    out.count("narrow_window_selfconsistent:instances_evaluated")
                if idx in not_fixed:
                    out.mismatches.append(Finding("mismatch:c06:selfconsistent_not_fixed", cases[idx], observed="implementation: record fed back differs", expected=a,
                                                  detail="every atom of the model's record is SelfConsistent (so the model's record IS a fixed point, by theorem) but the implementation's is not"))
            elif a.startswith("sc F "):
                out.count("SelfConsistent_hypothesis(from_arrays_idempotent_c06_partial):fails")
                cst = cases[idx]["st"]
                mt = cst["mtol"] if cases[idx]["entry"] == "FA" else 1.0e-3
                if not cst["nonphysical"] and 0 <= mt <= ISO_MTOL_BOUND:
                    out.mismatches.append(Finding("mismatch:c06:narrow_window_selfconsistent", cases[idx], observed=a, expected="sc T",
                                                  detail="the driver finds an atom of the model's record that is not SelfConsistent although nonphysical=False and 0 <= mtol <= 0.9865: "
                                                         "contradicts the theorem narrow_window_selfconsistent (Props/C04Default.lean) — driver and proved model have drifted apart"))
            elif a.startswith("bad-op"):
                raise RuntimeError(f"FAq/FSq line not understood by the driver: {case_key(cases[idx])[:300]}")
            else:
                out.count("SelfConsistent_hypothesis(from_arrays_idempotent_c06_partial):model_refuses")
    # ---------------- second pass: the accepted records through the model again (both streams)
    if ctx.model_available and feedback:
        ans, ans6, ans_src = run_streams3(ctx, [l for _, l, _ in feedback])
        for (idx, _l, ci), ml, ml6, mls in zip(feedback, ans, ans6, ans_src):
            out.count("fed_back")
            src_compare(out, cases[idx], "feedback", ci, ml, mls)
            if "TABLE-MISS" in ml or ml.startswith("bad-op") or ml6.startswith("bad-op"):
                raise RuntimeError(f"feed-back line not understood by the driver: {ml} / {ml6} / {case_key(cases[idx])[:300]}")
            if ml != ci:
                out.mismatches.append(Finding("mismatch:feedback", cases[idx], observed=ci[:600], expected=ml[:600],
                                              detail="model on the implementation's record (fed back) does not return it: " + (first_diff(ci, ml) if ml.startswith("ok") else ml)))
            if ml6 != ci and ml6 != ml:
                out.mismatches.append(Finding("mismatch:c06:feedback", cases[idx], observed=ci[:600], expected=ml6[:600],
                                              detail="Lean from_arrays with the C06 model on the implementation's record (fed back) does not return it: "
                                              + (first_diff(ci, ml6) if ml6.startswith("ok") else ml6)))
    return results


# ----------------------------------------------------------------------------------------
# third stream: the schema round trip  to_schema(rec, dtype, units='Bohr') -> from_schema -> rec'


_CF = None


def cf_ang_bohr():
    """the factor to_schema uses for an Angstrom record without its own input_units_to_au (to_schema.py:49)"""
    global _CF
    if _CF is None:
        import qcelemental as qcel

        _CF = float(qcel.constants.conversion_factor("Angstrom", "Bohr"))
    return _CF


def formula_of(rec):
    from qcelemental.molparse.to_string import formula_generator

    return formula_generator(rec["elem"])


def ts_line(op, rec, nonph, dtype, with_table):
    """one line for Driver/C04c.lean: the record laid out exactly as the drivers answer it."""
    kw = rec_as_kw(rec)
    n = len(kw["elem"])
    table = table_for(kw, n, False, nonph, 1.0e-3) if with_table else ""
    head = [op, " ".join([t_bool(nonph), fr(ang_to_au()), fr(cf_ang_bohr()), str(int(dtype))])]
    return "|".join(head + canon_rec(rec).split("|")[1:] + [t_str(formula_of(rec)), "~", table])


def call_to_schema(rec, dtype):
    from qcelemental.molparse import to_schema

    return _quiet(lambda: to_schema(rec, dtype=dtype, units="Bohr"))


def call_from_schema_dict(d, nonph):
    from qcelemental.molparse import from_schema

    if nonph:
        return _quiet(lambda: from_schema(d, nonphysical=True))
    return _quiet(lambda: from_schema(d))


def canon_schema_dict(d, dtype):
    """the implementation's dictionary in the layout of the driver's `TSd` answer."""
    ms = d.get("molecule", {}) if dtype == 1 else d
    conn = ms.get("connectivity")
    fcom, fori = ms.get("fix_com"), ms.get("fix_orientation")
    parts = [
        "dict",
        t_str(d.get("schema_name")),
        t_int(d.get("schema_version")),
        t_list(ms.get("fragments"), lambda f: ":".join(str(int(i)) for i in f) if len(f) else "e"),
        t_list(flat_geom(ms.get("geometry")), fr),
        t_list(ms.get("mass_numbers"), t_int),
        t_list(ms.get("atomic_numbers"), t_int),
        t_list(ms.get("symbols"), t_str),
        t_list(ms.get("masses"), fr),
        t_list(ms.get("real"), t_bool),
        t_list(ms.get("atom_labels"), t_str),
        t_str(ms.get("name")),
        t_str(ms.get("comment")),
        t_tri(bool(fcom) if isinstance(fcom, (bool, np.bool_)) else fcom),
        t_tri(bool(fori) if isinstance(fori, (bool, np.bool_)) else fori),
        t_str(ms.get("fix_symmetry")),
        t_list(ms.get("fragment_charges"), c_intlike),
        t_list(ms.get("fragment_multiplicities"), c_intlike),
        "~" if ms.get("molecular_charge") is None else c_intlike(ms["molecular_charge"]),
        "~" if ms.get("molecular_multiplicity") is None else c_intlike(ms["molecular_multiplicity"]),
        "~" if conn is None else "L" + ",".join(f"{int(a)}:{int(b)}:{fr(o)}" for a, b, o in conn),
    ]
    return "|".join(parts)


MOL_KEYS = {"validated", "symbols", "geometry", "masses", "atomic_numbers", "mass_numbers", "atom_labels", "name",
            "molecular_charge", "molecular_multiplicity", "real", "fragments", "fragment_charges", "fragment_multiplicities",
            "fix_com", "fix_orientation", "provenance"}


def dict_complaints(d, rec, dtype, geom_exp):
    """the exported dictionary stated directly (independent of the model): the dtype 1 / 2 wrapper, the key set, and
    every value equal to the record's (geometry: the stored one times the Bohr factor used)."""
    bad = []
    if dtype == 1:
        if set(d.keys()) != {"schema_name", "schema_version", "molecule"}:
            bad.append(f"dtype 1 top-level keys {sorted(d.keys())}")
            return bad
        if d["schema_name"] != "qcschema_input" or d["schema_version"] != 1:
            bad.append(f"dtype 1 header {d['schema_name']!r}/{d['schema_version']!r}")
        ms = d["molecule"]
        if "schema_name" in ms or "schema_version" in ms:
            bad.append("dtype 1 molecule carries schema_name/schema_version")
    else:
        if d.get("schema_name") != "qcschema_molecule" or d.get("schema_version") != 2:
            bad.append(f"dtype 2 header {d.get('schema_name')!r}/{d.get('schema_version')!r}")
        if "molecule" in d:
            bad.append("dtype 2 dictionary is nested")
        ms = {k: v for k, v in d.items() if k not in ("schema_name", "schema_version")}
    want = set(MOL_KEYS) | {k for k in ("comment", "fix_symmetry", "connectivity") if k in rec}
    if set(ms.keys()) != want:
        bad.append(f"molecule keys: missing {sorted(want - set(ms.keys()))} extra {sorted(set(ms.keys()) - want)}")
        return bad
    n = len(rec["elem"])

    def eq(name, a, b):
        if a != b:
            bad.append(f"{name}: {str(a)[:80]} vs record {str(b)[:80]}")

    eq("symbols", [str(x) for x in ms["symbols"]], [str(x) for x in rec["elem"]])
    eq("geometry", [Fraction(float(x)) for x in flat_geom(ms["geometry"])], [Fraction(x) for x in geom_exp])
    eq("masses", [Fraction(float(x)) for x in ms["masses"]], [Fraction(float(x)) for x in rec["mass"]])
    eq("atomic_numbers", [int(x) for x in ms["atomic_numbers"]], [int(x) for x in rec["elez"]])
    eq("mass_numbers", [int(x) for x in ms["mass_numbers"]], [int(x) for x in rec["elea"]])
    eq("atom_labels", [str(x) for x in ms["atom_labels"]], [str(x) for x in rec["elbl"]])
    eq("real", [bool(x) for x in ms["real"]], [bool(x) for x in rec["real"]])
    eq("name", ms["name"], rec.get("name", formula_of(rec)))
    eq("fragments", [[int(i) for i in f] for f in ms["fragments"]], py_split_points(n, rec["fragment_separators"]))
    eq("fragment_charges", [float(x) for x in ms["fragment_charges"]], [float(x) for x in rec["fragment_charges"]])
    eq("fragment_multiplicities", [int(x) for x in ms["fragment_multiplicities"]], [int(x) for x in rec["fragment_multiplicities"]])
    eq("molecular_charge", float(ms["molecular_charge"]), float(rec["molecular_charge"]))
    eq("molecular_multiplicity", int(ms["molecular_multiplicity"]), int(rec["molecular_multiplicity"]))
    eq("fix_com", ms["fix_com"], bool(rec["fix_com"]))
    eq("fix_orientation", ms["fix_orientation"], bool(rec["fix_orientation"]))
    for k in ("comment", "fix_symmetry"):
        if k in rec:
            eq(k, ms[k], rec[k])
    if "connectivity" in rec:
        eq("connectivity", [(int(a), int(b), Fraction(float(o))) for a, b, o in ms["connectivity"]],
           [(int(a), int(b), Fraction(float(o))) for a, b, o in rec["connectivity"]])
    if ms["validated"] is not True:
        bad.append("validated flag not True")
    return bad


def exported_geometry(rec):
    """geometry in the schema = stored geometry x (1 if Bohr else the factor used): one IEEE product per coordinate."""
    g = [float(x) for x in np.asarray(rec["geom"]).ravel()]
    if rec["units"] == "Bohr":
        return g
    f = float(rec["input_units_to_au"]) if "input_units_to_au" in rec else cf_ang_bohr()
    return [x * f for x in g]


def canonical_seps(n, seps):
    out = []
    for s_ in seps:
        s_ = int(s_)
        out.append(max(s_ + n, 0) if s_ < 0 else min(s_, n))
    return out


def image_of(rec):
    """the record the round trip must return, stated directly: the same molecule in Bohr."""
    exp = dict(rec)
    exp["units"] = "Bohr"
    exp.pop("input_units_to_au", None)
    exp["name"] = rec.get("name", formula_of(rec))
    exp["geom"] = np.array(exported_geometry(rec))
    exp["fragment_separators"] = canonical_seps(len(rec["elem"]), rec["fragment_separators"])
    return exp


def ts_stage(ctx: Ctx, out: Outcome, cases, results):
    """every accepted from_arrays / from_schema record: to_schema (dtype 1 or 2) -> from_schema -> compare; the image
    exported with the other dtype and read back must be unchanged."""
    jobs = []  # (case index, record, nonphysical, dtype, qualified, kind)
    for idx, (case, res) in enumerate(zip(cases, results)):
        if res[0] != "ok" or case["entry"] == "MOL":
            continue
        rec, st = res[1], case["st"]
        n = len(rec["elem"])
        mtol = st["mtol"] if case["entry"] == "FA" else 1.0e-3
        gexp = exported_geometry(rec)
        close, margin = min_dist_margin(gexp, 0.1) if n >= 2 else (False, 1.0)
        if margin < 1e-9:
            out.count("ts:skipped_exclusion_zone")
            continue
        # the oracle demands the round trip for records validated under from_schema's own settings
        qualified = n >= 1 and mtol == 1.0e-3 and not close
        if ctx.thorough and len(cases) > 1 and case["tag"] in ("valid",) and not case.get("seq") and (idx // 2) % 2 == 1:
            continue  # thorough tier: half of the bulk valid stream (all dedicated / malformed-accepted / sequence records are kept)
        dtype = 1 + (idx % 2)
        jobs.append((idx, rec, bool(st["nonphysical"]), dtype, qualified, gexp))
    if not jobs:
        return
    impl = []
    second = []  # (job index, image record, dtype2)
    for j, (idx, rec, nonph, dtype, qualified, gexp) in enumerate(jobs):
        case = cases[idx]
        out.evaluations += 1
        out.count(f"ts:dtype{dtype}:" + ("qualified" if qualified else "outside_from_schema_settings"))
        out.count("ts:stored_units:" + rec["units"] + ("+input_units_to_au" if "input_units_to_au" in rec else ""))
        if any(int(s_) < 0 for s_ in rec["fragment_separators"]):
            out.count("ts:negative_separators")
        zs = [int(z) * (1 if r_ else 0) for z, r_ in zip(rec["elez"], rec["real"])]
        if any(sum(zs[i] for i in p) == 0 for p in py_split_points(len(zs), rec["fragment_separators"]) if p):
            out.count("ts:ghost_fragment")
        d = call_to_schema(rec, dtype)
        if d[0] != "ok":
            impl.append((None, "err(to_schema) " + d[1]))
            out.violations.append(Finding("oracle:ts:to_schema_raised", case, observed=d[1] + ": " + d[2], expected="a dictionary",
                                          detail=f"to_schema(rec, dtype={dtype}, units='Bohr') raised on a validated record"))
            continue
        d = d[1]
        for msg in dict_complaints(d, rec, dtype, gexp):
            out.violations.append(Finding("oracle:ts:exported_dict", case, observed=msg, expected="the record's own data in the dtype's wrapper",
                                          detail=f"to_schema(rec, dtype={dtype}, units='Bohr'): {msg}"))
        back = call_from_schema_dict(d, nonph)
        cb = canon_rec(back[1]) if back[0] == "ok" else "err " + back[1]
        impl.append((d, cb))
        out.nontrivial("TS|" + str(dtype) + "|" + canon_rec(rec))
        if back[0] == "err" and back[1] not in ("Validation", "NotAnElement"):
            out.violations.append(Finding("oracle:ts:error_class", case, observed=cb, expected="ValidationError", detail=back[2]))
        if qualified:
            want = canon_rec(image_of(rec))
            if cb != want:
                out.violations.append(Finding("oracle:ts:roundtrip", case, observed=cb[:600], expected=want[:600],
                                              detail=f"from_schema(to_schema(rec, dtype={dtype}, units='Bohr')) is not the record in Bohr: "
                                              + (first_diff(want, cb) if back[0] == "ok" else back[2])))
        if back[0] == "ok":
            for clause, msg in inv_complaints(back[1], dict(DEFAULT_ST, nonphysical=nonph)):
                out.violations.append(Finding("oracle:ts:inv:" + clause, case, observed=cb[:600], detail="round-tripped record: " + msg))
            d2 = call_to_schema(back[1], 3 - dtype)
            if d2[0] != "ok":
                out.violations.append(Finding("oracle:ts:to_schema_raised", case, observed=d2[1], detail="to_schema on the round-tripped record raised: " + d2[2]))
            else:
                b2 = call_from_schema_dict(d2[1], nonph)
                cb2 = canon_rec(b2[1]) if b2[0] == "ok" else "err " + b2[1]
                out.count("ts:second_trip")
                if cb2 != cb:
                    out.violations.append(Finding("oracle:ts:second_trip_not_identity", case, observed=cb2[:600], expected=cb[:600],
                                                  detail=f"from_schema(to_schema(rec', dtype={3 - dtype})) != rec': " + (first_diff(cb, cb2) if b2[0] == "ok" else b2[2])))
                second.append((j, back[1], 3 - dtype))
    if not ctx.model_available:
        return
    lines = []
    for (idx, rec, nonph, dtype, qualified, gexp) in jobs:
        lines.append(ts_line("TS", rec, nonph, dtype, True))
        lines.append(ts_line("TS6", rec, nonph, dtype, False))
        lines.append(ts_line("TSh", rec, nonph, dtype, True))
        lines.append(ts_line("TSd", rec, nonph, dtype, False))
    for (j, rec2, dtype2) in second:
        lines.append(ts_line("TS", rec2, jobs[j][2], dtype2, True))
    ans = ctx.run_model(DRIVER_TS, lines)
    for a, l in zip(ans, lines):
        if a.startswith("bad-op") or "TABLE-MISS" in a:
            raise RuntimeError(f"TS line not understood by the driver: {a} / {l[:400]}")
    for j, (idx, rec, nonph, dtype, qualified, gexp) in enumerate(jobs):
        case = cases[idx]
        a_ts, a_ts6, a_h, a_d = ans[4 * j: 4 * j + 4]
        d, cb = impl[j]
        if d is None:
            continue
        cd = canon_schema_dict(d, dtype)
        if a_d != cd:
            fa_, fb_ = a_d.split("|"), cd.split("|")
            k = next((i for i, (x, y) in enumerate(zip(fa_, fb_)) if x != y), -1)
            out.mismatches.append(Finding("mismatch:TS:dict", case, observed=cd[:600], expected=a_d[:600],
                                          detail=f"to_schema dictionary vs Lean toSchemaU (dtype {dtype}), field #{k}: {fb_[k][:100] if k >= 0 else ''} vs {fa_[k][:100] if k >= 0 else ''}"))
        if a_ts != cb:
            out.mismatches.append(Finding("mismatch:TS", case, observed=cb[:600], expected=a_ts[:600],
                                          detail=f"from_schema(to_schema(rec, {dtype})) vs Lean fromSchema (toSchemaU r {dtype}): "
                                          + (first_diff(cb, a_ts) if cb.startswith("ok") and a_ts.startswith("ok") else "")))
        if a_ts6 != cb and a_ts6 != a_ts:
            out.mismatches.append(Finding("mismatch:c06:TS", case, observed=cb[:600], expected=a_ts6[:600],
                                          detail="the same with the C06 model as reconciler (end to end): "
                                          + (first_diff(cb, a_ts6) if cb.startswith("ok") and a_ts6.startswith("ok") else "")))
        # the theorem's hypotheses and predicted image, evaluated by Lean on this record
        if a_h.startswith("hyp T|"):
            out.count("schema_roundtrip_hypotheses:hold")
            if a_ts != a_h[len("hyp T|"):]:
                out.mismatches.append(Finding("mismatch:TS:theorem_instance", case, observed=a_ts[:600], expected=a_h[:600],
                                              detail="roundtripHypB holds but the evaluated fromSchema (toSchemaU r v) is not schemaImage r (cannot happen if schema_roundtrip is what the driver runs)"))
        elif a_h.startswith("hyp F|"):
            out.count("schema_roundtrip_hypotheses:fail")
            if qualified:
                out.count("schema_roundtrip_hypotheses:fail_on_qualified_record")
        else:
            raise RuntimeError(f"TSh answer not understood: {a_h[:200]}")
    base = 4 * len(jobs)
    for k, (j, rec2, dtype2) in enumerate(second):
        a2 = ans[base + k]
        if a2 != canon_rec(rec2):
            out.mismatches.append(Finding("mismatch:TS:second_trip", cases[jobs[j][0]], observed=canon_rec(rec2)[:600], expected=a2[:600],
                                          detail=f"Lean fromSchema (toSchemaU r' {dtype2}) on the implementation's round-tripped record does not return it: "
                                          + (first_diff(canon_rec(rec2), a2) if a2.startswith("ok") else a2)))


def run(ctx: Ctx) -> Outcome:
    out = Outcome()
    cases = gen_cases(ctx)
    results = evaluate(ctx, out, cases)
    nprim = out.evaluations
    ts_stage(ctx, out, cases, results)
    ok = sum(v for k, v in out.distribution.items() if k.startswith("outcome:") and k.endswith(":ok"))
    out.notes.append(f"accepted {ok} of {nprim} generated cases ({100.0*ok/max(nprim,1):.1f}%); valid-tagged stream: see tag:valid")
    nts = sum(v for k, v in out.distribution.items() if k.startswith("ts:dtype"))
    out.notes.append(f"third stream: {nts} accepted records through to_schema(dtype=1|2, units='Bohr') -> from_schema, compared field by field with Lean's "
                     "fromSchema (toSchemaU r dtype) (reconciler answers from the implementation / computed by the C06 model), the dictionary with toSchemaU itself, "
                     f"and the image read back with the other dtype ({out.distribution.get('ts:second_trip', 0)} second trips); hypotheses of schema_roundtrip hold on "
                     f"{out.distribution.get('schema_roundtrip_hypotheses:hold', 0)}, fail on {out.distribution.get('schema_roundtrip_hypotheses:fail', 0)}")
    n6 = sum(v for k, v in out.distribution.items() if k.startswith("c06_stream:"))
    out.notes.append(f"second stream: {n6} lines + {out.distribution.get('fed_back', 0)} fed-back records through Driver/C04b.lean (per-atom reconciliation computed by the C06 model, "
                     "the implementation's answers on the line ignored) and compared with the implementation")
    h = out.distribution.get("SelfConsistent_hypothesis(from_arrays_idempotent_c06_partial):holds", 0)
    f = out.distribution.get("SelfConsistent_hypothesis(from_arrays_idempotent_c06_partial):fails", 0)
    out.notes.append(f"hypothesis of the partial fixed-point theorem (every atom SelfConsistent), decided by Lean on each accepted from_arrays/from_schema record: holds on {h}, fails on {f}")
    out.notes.append("all cases sampled from VERIF_SEED; Molecule(...) compared field-by-field with the from_schema model record (geometry to 8 decimals, _filter_defaults re-stated) — behavioural, partial")
    out.exhaustive = False
    return out


def replay(ctx: Ctx, case) -> Outcome:
    out = Outcome()
    if case.get("seq"):
        # a call of a sequence: the earlier calls of the sequence are made first, in this process (their answers are not judged here)
        for p in case["seq"]["prefix"]:
            impl_primary(p)
    results = evaluate(ctx, out, [case])
    ts_stage(ctx, out, [case], results)
    return out
