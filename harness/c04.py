"""C04 — a validated molecule is complete, consistent and a fixed point of validation.

Correspondence (Lean model `Model/FromArrays.lean` vs the real `from_arrays` / `from_schema` /
`Molecule(...)`) + an independent Python oracle stating the record invariant and the refusal
classes directly on the implementation's answers.

The per-atom reconciler (`reconcile_nucleus`, property C06) is a *parameter* of the model: every
line carries, for every atom, the clues and the answer of the implementation's own
`reconcile_nucleus` called by this harness with exactly those clues and the settings `from_arrays`
is documented to forward.  A wrong argument / atom / setting in the way `from_arrays` calls the
reconciler therefore shows as a disagreement; what the reconciler answers is C06's business.
"""
from __future__ import annotations

import contextlib
import io
import json
from fractions import Fraction

import numpy as np

import common
from common import Ctx, Finding, Outcome, err_class

import sys

sys.path.insert(0, str(common.VERIF / "tools"))
import gen_periodic  # noqa: E402  (the C06 model behind Driver/C04b.lean reads the generated periodic table)

PROPERTY = "C04"
LEAN_TARGETS = ["QcelVerif.Props.C04", "QcelVerif.Driver.C04", "QcelVerif.Props.C04C06", "QcelVerif.Driver.C04b"]
DRIVER = "QcelVerif/Driver/C04.lean"
# second stream: the same lines through a driver that COMPUTES the per-atom reconciliation with the C06 model
# (Model/ReconC06.lean) instead of reading the implementation's answers from the line — from_arrays end to end in Lean
DRIVER_C06 = "QcelVerif/Driver/C04b.lean"
TRANSLATORS = [gen_periodic.main]
THEOREMS = [
    ("QcelVerif.FromArrays.from_arrays_inv",
     "fromArrays env i = ok r -> Inv r (equal per-atom lengths, 3 coordinates per atom, every atom's (A,Z,E,mass,real,label) "
     "valid in the reconciler's sense [hypothesis NucSound, C06], no pair closer than tooclose, fragments = non-empty consecutive "
     "blocks covering 0..nat-1, len(fc)=len(fm)=len(seps)+1, c = sum fc and every (charge, multiplicity) feasible [C05 Rules], "
     "units in {Angstrom,Bohr}, bonds normalised and sorted) — any number of atoms"),
    ("QcelVerif.FromArrays.from_arrays_idempotent",
     "fromArrays env i = ok r -> fromArrays env (asInput i r) = ok r, under hypothesis NucIdem (C06) — the record fed back "
     "(speclabel=False) is returned unchanged"),
    ("QcelVerif.FromArrays.from_schema_inv", "fromSchema env s = ok r -> Inv r (Bohr, default tooclose/mtol)"),
    ("QcelVerif.FromArrays.refuses_unknown_unit", "units.capitalize() not in {Angstrom, Bohr} -> ValidationError"),
    ("QcelVerif.FromArrays.refuses_geom_not_3n", "geometry size not a multiple of 3 -> ValidationError"),
    ("QcelVerif.FromArrays.refuses_too_close", "some pair of atoms closer than tooclose -> ValidationError"),
    ("QcelVerif.FromArrays.refuses_length_mismatch", "a supplied per-atom array whose length is not nat -> ValidationError"),
    ("QcelVerif.FromArrays.refuses_bad_separators",
     "separators whose trial split has an empty block (empty / unsorted / out of range; nat > 0) -> never ok"),
    ("QcelVerif.FromArrays.refuses_fragment_length_mismatch", "len(fragment_charges) or len(fragment_multiplicities) != len(separators)+1 -> never ok"),
    ("QcelVerif.FromArrays.errors_are_validation",
     "every refusal of fromArrays is ValidationError unless the per-atom reconciler itself raised another class (propagated)"),
    ("QcelVerif.FromArrays.accepted_separators_sorted",
     "non-negative separators whose split has no empty block are strictly increasing inside (0, nat) (so empty/unsorted/out-of-range ones give an empty block)"),
    ("QcelVerif.FromArrays.seps_pattern_roundtrip",
     "for separators passing the trial split: the pattern np.split(arange(nat), seps) written by to_schema flattens to arange(nat) "
     "and contiguize gives back the canonical separators, which split every array exactly as the original ones"),
    # ---- C04 o C06 (Props/C04C06.lean): the reconciler parameter instantiated with the C06 model over the shipped table
    ("QcelVerif.FromArrays.recon_c06_sound_shipped",
     "NucSound discharged: every answer of the C06 model (shipped table, ANY rounding function) behind the adapter is ValidC06 — a table row (Z,E); "
     "A = -1 or E+str(A) tabulated with mass equal / float-evaluated within mtol; physical ranges unless nonphysical; real a bool; tag lower-case"),
    ("QcelVerif.FromArrays.recon_c06_respects_clues", "the adapted reconciler returns every supplied Z, A, float(mass), real; real=True when nothing says otherwise"),
    ("QcelVerif.FromArrays.from_arrays_inv_c06",
     "UNCONDITIONAL: fromArrays (envC06 rd a) i = ok r -> Inv r with every atom ValidC06 (no hypothesis on the reconciler left; any rounding function)"),
    ("QcelVerif.FromArrays.from_schema_inv_c06", "UNCONDITIONAL: the same through fromSchema (Bohr, default tooclose/mtol)"),
    ("QcelVerif.FromArrays.recon_c06_idem_partial",
     "PARTIAL NucIdem: an answer that is SelfConsistent (mass a rounded number; round(mass) names E+str(A) within mtol, or nothing and A = -1) fed back with "
     "speclabel=False is answered by itself; any coherent round-tripping table, any odd rounding function. FULL NucIdem is false (recon_c06_not_idem)"),
    ("QcelVerif.FromArrays.recon_c06_idem_mass_clue_fix", "NucIdem whenever the mass clue m was supplied and rd (rd m) = rd m (e.g. m already a double); odd rounding function"),
    ("QcelVerif.FromArrays.recon_c06_idem_mass_clue", "NucIdem in full whenever the mass clue was supplied (odd idempotent rounding function)"),
    ("QcelVerif.FromArrays.recon_c06_idem_on_feedback", "NucIdem in full on clues that are themselves a fed-back answer (clueOf v always carries the mass)"),
    ("QcelVerif.FromArrays.recon_c06_not_idem",
     "NucIdem (reconOfC06 rd64) is FALSE [decide +kernel, shipped table]: A=2, Z=1, mtol=2 -> (2,1,'H',mass(H1)), fed back -> ValidationError (replayed on the implementation)"),
    ("QcelVerif.FromArrays.from_arrays_idempotent_c06_partial",
     "PARTIAL: fromArrays (envC06 rd a) i = ok r and every atom of r SelfConsistent for i.mtol -> fromArrays (asInput i r) = ok r (odd rounding function; shipped_coherent discharged)"),
    ("QcelVerif.FromArrays.from_arrays_idempotent_c06_masses_fix", "fixed point when every mass was supplied and each supplied m has rd (rd m) = rd m (odd rounding function)"),
    ("QcelVerif.FromArrays.from_arrays_idempotent_c06_masses", "full fixed point when every mass was supplied (odd idempotent rounding function)"),
    ("QcelVerif.FromArrays.from_arrays_second_pass_c06",
     "from the second pass on from_arrays is a projection: fromArrays (asInput i r) = ok r' -> fromArrays (asInput i r') = ok r', for ANY r (odd idempotent rounding function)"),
    ("QcelVerif.FromArrays.from_arrays_second_pass_c06_rd64",
     "the same for rd64 with no hypothesis on the rounding function: the masses of the fed-back record are binary64 numbers (rd64 m = m)"),
    ("QcelVerif.FromArrays.from_arrays_idempotent_c06_plain",
     "UNCONDITIONAL for rd64 + shipped table: no elea, no mass, labels not consulted as nucleus specs, mtol >= 0 -> the record fed back is returned unchanged"),
    ("QcelVerif.FromArrays.shipped_default_rederives", "[decide +kernel over the element rows] under rd64 every default mass rounds half-even to its default mass number and is a double"),
    ("QcelVerif.FromArrays.from_arrays_not_idempotent_c06",
     "[decide +kernel, whole pipeline] one H atom, elea=[2], elez=[1], mtol=2: the record (A=2, mass of H1) is returned and fed back it is refused — why the partial theorem needs SelfConsistent"),
    ("QcelVerif.FromArrays.rd64_odd", "rd64 (-x) = -(rd64 x): the oddness hypothesis of the idempotence theorems holds for the driver's rounding function"),
    ("QcelVerif.FromArrays.driver_recon_eq", "the reconciler run by Driver/C04b.lean (memoised per-element ranges) is reconOfC06 rd64"),
    ("QcelVerif.FromArrays.selfConsistentB_iff", "the driver's per-atom test (ops FAq/FSq) decides SelfConsistent — the hypothesis of the partial theorem is evaluated on every accepted record"),
]
TRUSTED_BASE = [
    "Lean 4.33 kernel; axioms per theorem audited on every run (subset of propext, Classical.choice, Quot.sound)",
    "hand-written model Model/FromArrays.lean of from_arrays.py:301-408,411-501,504-547,594-616,619-702,705-773 and from_schema.py, "
    "tied by differential correspondence on the generated stream through from_arrays, from_schema and Molecule(...)",
    "reconcile_nucleus taken as a parameter (hypotheses NucSound / NucIdem) in Props/C04.lean; its answers travel on the line protocol of the first stream",
    "Props/C04C06.lean instantiates the parameter with the C06 model over the generated periodic table (adapter Model/ReconC06.lean: Clue->Input, Output->Nuc, error classes); "
    "NucSound is discharged in full, NucIdem is false in general and proved for self-consistent atoms / supplied masses / plain molecules; residual: rd odd (proved for rd64) "
    "and, for the supplied-mass theorems, rd idempotent (not proved for rd64; rd64 is tied to float() by C06's D lines); the second stream (Driver/C04b.lean) runs the whole "
    "pipeline in Lean with the C06 model and is diffed against the implementation and against the first stream",
    "tools/gen_periodic.py (C01's translator) for the periodic table read by the C06 model",
    "C05 model ChgMult.vfc and its theorems vfc_sound / vfc_accepts_valid_full (reused unchanged)",
    "numpy: np.array/reshape, np.split (re-stated as Python slice arithmetic), einsum distances in double vs exact rationals (1e-9 exclusion zone)",
    "pydantic v1 field coercion in Molecule.__init__ and _filter_defaults (default-mass test, caller's raw values surviving `{**kwargs, **schema}`): compared behaviourally only (partial)",
    "harness/c04.py generators and the Python oracle",
]
ASSUMPTIONS = [
    "domain 'qm' only; provenance never supplied by the caller (only the stamp of a fed-back record); efp/qmvz outside",
    "integer (or integer-valued float) charges and multiplicities; integer separators; ASCII strings; finite coordinates",
    "missing_enabled_return in {'error','minimal'}; zero atoms with 'minimal' only without separators (atom-less record with separators is outside the quantifier)",
    "pair distances and input_units_to_au within 1e-9 of their thresholds are not generated (implementation compares in double, model in Q)",
    "feed-back of a record uses speclabel=False (the record's elbl is the user part of the label only)",
    "negative separators are Python slice indices: accepted when the split still partitions the atoms in order (property demands the partition, not canonical separators)",
]
RULE = (
    "molecules of 0-12 atoms on a jittered lattice (coordinates with <= 10 decimals), elements over the whole table weighted to H-Ar, "
    "isotopes/ghosts/labels from the NUCLEUS grammar, all 2^6 subsets of the per-atom descriptor arrays with None holes, 1-5 fragments, "
    "partial charge/multiplicity specifications biased to satisfiable, unit spellings, input_units_to_au, frame flags, bonds; about 80% valid, "
    "plus a malformed stream applying one defect (length mismatch, geometry not 3n, overlapping atoms, bad unit, bad separators incl. negative, "
    "fragment-array lengths, contradictory nuclear data, bad bonds, bad frame flag, bad schema name/version/fragment pattern). Each case goes through "
    "from_arrays(**kw), or from_schema(dict) and Molecule(**kw); every accepted record is fed back. Every line and every fed-back record is answered twice by Lean: "
    "with the implementation's own reconcile_nucleus answers carried on the line (Driver/C04.lean) and with the per-atom reconciliation computed by the C06 model "
    "(Driver/C04b.lean, the whole pipeline in Lean). A case is distinct by its full protocol line and "
    "non-trivial when it has >= 2 atoms, an omitted descriptor, more than one fragment or ends in a refusal."
)
LEVEL_TEXT = (
    "proof for the record-level pipeline of from_arrays/from_schema (model), parametric in the per-atom reconciler (C06) and reusing C05; "
    "with the C06 model plugged in (Props/C04C06.lean) the invariant is unconditional and the fixed point is proved for self-consistent atoms, supplied masses, "
    "plain molecules and every second pass — partial: false for mtol wide enough to reach a neighbouring nuclide (kernel-checked counter-example), and not proved "
    "for a mass number supplied without a mass; the tie to the code is differential (sampled) on two streams (reconciler answers taken from the implementation / "
    "computed by the C06 model end to end); partial: pydantic coercion in Molecule.__init__ and _filter_defaults are compared behaviourally only"
)
TECHNIQUE = "Lean 4 proof of invariant/idempotence/refusal theorems about a stage-by-stage model + differential correspondence through three entry points + independent oracle"

PER_ATOM = ["elea", "elez", "elem", "mass", "real", "elbl"]
SCHEMA_NAME = {"elea": "mass_numbers", "elez": "atomic_numbers", "elem": "symbols", "mass": "masses", "real": "real", "elbl": "atom_labels"}
OUT_FIELDS = ["status", "units", "input_units_to_au", "name", "comment", "connectivity", "geom", "elea", "elez", "elem", "mass",
              "real", "elbl", "fragment_separators", "molecular_charge", "fragment_charges", "molecular_multiplicity",
              "fragment_multiplicities", "fix_com", "fix_orientation", "fix_symmetry"]
DEFAULT_ST = {"minimal": False, "speclabel": True, "nonphysical": False, "zgf": False, "mtol": 1.0e-3, "tooclose": 0.1}


# ----------------------------------------------------------------------------------------
# tokens


def fr(x) -> str:
    f = x if isinstance(x, Fraction) else (Fraction(int(x)) if isinstance(x, (int, np.integer)) and not isinstance(x, (bool, np.bool_)) else Fraction(float(x)))
    return str(f.numerator) if f.denominator == 1 else f"{f.numerator}/{f.denominator}"


def t_str(s):
    return "~" if s is None else "'" + str(s)


def t_int(x):
    return "~" if x is None else str(int(x))


def t_rat(x):
    return "~" if x is None else fr(x)


def t_bool(x):
    return "~" if x is None else ("T" if bool(x) else "F")


def t_list(items, f):
    return "~" if items is None else "L" + ",".join(f(x) for x in items)


def t_tri(x):
    if x is None:
        return "~"
    if x is True:
        return "T"
    if x is False:
        return "F"
    return "X"


def t_idx(a):
    return str(int(a)) if float(a).is_integer() else "x"


def t_bond(b):
    if len(b) == 3:
        return f"{t_idx(b[0])}:{t_idx(b[1])}:{fr(b[2])}"
    return ":".join("9" for _ in b)  # any other arity: malformed tuple


def flat_geom(g):
    if g is None:
        return None
    out = []
    for row in g:
        if isinstance(row, (list, tuple)):
            out.extend(row)
        else:
            out.append(row)
    return out


# ----------------------------------------------------------------------------------------
# the reconciler table (the implementation's own reconcile_nucleus, called directly)


def reconcile_direct(clue, sl, nonph, mtol):
    from qcelemental.molparse.nucleus import reconcile_nucleus

    A, Z, E, mass, real, label = clue
    try:
        with contextlib.redirect_stdout(io.StringIO()):
            r = reconcile_nucleus(A=A, Z=Z, E=E, mass=mass, real=real, label=label, speclabel=sl, nonphysical=nonph, mtol=mtol, verbose=1)
    except Exception as e:  # noqa
        return ("err", err_class(e))
    return ("ok", r)


def table_for(arrays, nat, sl, nonph, mtol):
    """entries for atoms 0..nat-1 (only meaningful when every supplied array has length nat)."""
    for k in PER_ATOM:
        if arrays.get(k) is not None and len(arrays[k]) != nat:
            return ""
    seen, ents = set(), []
    for at in range(nat):
        def g(k):
            return None if arrays.get(k) is None else arrays[k][at]

        A = g("elea")
        if A is not None and A == -1:
            A = None
        clue = (A, g("elez"), g("elem"), g("mass"), g("real"), g("elbl"))
        key = ",".join([t_bool(sl), t_bool(nonph), fr(mtol), t_int(clue[0]), t_int(clue[1]), t_str(clue[2]), t_rat(clue[3]), t_bool(clue[4]), t_str(clue[5])])
        if key in seen:
            continue
        seen.add(key)
        res = reconcile_direct(clue, sl, nonph, mtol)
        if res[0] == "ok":
            a, z, e, m, rl, lb = res[1]
            ents.append(key + "=" + ",".join(["ok", t_int(a), t_int(z), t_str(e), t_rat(m), t_bool(rl), t_str(lb)]))
        else:
            ents.append(key + "=err," + res[1])
    return ";".join(ents)


_ANG = None


def ang_to_au():
    global _ANG
    if _ANG is None:
        import qcelemental as qcel

        _ANG = 1.0 / qcel.constants.bohr2angstroms
    return _ANG


def enc_line(op, kw, st, schema=None):
    """kw: from_arrays-named arguments (JSON-able python values); st: processing settings."""
    g = flat_geom(kw.get("geom"))
    nat = (len(g) // 3) if g is not None else 0
    table = table_for(kw, nat, st["speclabel"], st["nonphysical"], st["mtol"])
    fields = [
        op,
        " ".join([t_bool(st["minimal"]), t_bool(st["speclabel"]), t_bool(st["nonphysical"]), t_bool(st["zgf"]), fr(st["mtol"]), fr(st["tooclose"]), fr(ang_to_au())]),
        t_list(g, fr),
        t_list(kw.get("elea"), t_int),
        t_list(kw.get("elez"), t_int),
        t_list(kw.get("elem"), t_str),
        t_list(kw.get("mass"), t_rat),
        t_list(kw.get("real"), t_bool),
        t_list(kw.get("elbl"), t_str),
        t_str(kw.get("name")),
        t_str(kw.get("comment")),
        t_str(kw.get("units", "Angstrom")),
        t_rat(kw.get("input_units_to_au")),
        t_tri(kw.get("fix_com")),
        t_tri(kw.get("fix_orientation")),
        t_str(kw.get("fix_symmetry")),
        t_list(kw.get("fragment_separators"), t_int),
        t_list(kw.get("fragment_charges"), t_int),
        t_list(kw.get("fragment_multiplicities"), t_int),
        t_int(kw.get("molecular_charge")),
        t_int(kw.get("molecular_multiplicity")),
        t_list(kw.get("connectivity"), t_bond),
    ]
    if schema is None:
        fields += ["~", "~", "~"]
    else:
        fields += [
            t_str(schema.get("schema_name")),
            t_int(schema.get("schema_version")),
            t_list(schema.get("fragments"), lambda f: ":".join(str(int(i)) for i in f) if len(f) else "e"),
        ]
    fields.append(table)
    return "|".join(fields)


# ----------------------------------------------------------------------------------------
# canonical form of the implementation's record (same layout as the driver's answer)


def c_intlike(x):
    xf = float(x)
    return str(int(xf)) if xf == int(xf) else repr(xf)


def canon_rec(rec) -> str:
    conn = rec.get("connectivity")
    parts = [
        "ok",
        t_str(rec["units"]),
        t_rat(rec.get("input_units_to_au")),
        t_str(rec.get("name")),
        t_str(rec.get("comment")),
        "~" if conn is None else "L" + ",".join(f"{int(a)}:{int(b)}:{fr(o)}" for a, b, o in conn),
        t_list(list(np.asarray(rec["geom"]).ravel()), fr),
        t_list(list(rec["elea"]), t_int),
        t_list(list(rec["elez"]), t_int),
        t_list([str(x) for x in rec["elem"]], t_str),
        t_list(list(rec["mass"]), fr),
        t_list(list(rec["real"]), t_bool),
        t_list([str(x) for x in rec["elbl"]], t_str),
        t_list(list(rec["fragment_separators"]), t_int),
        c_intlike(rec["molecular_charge"]),
        t_list(list(rec["fragment_charges"]), c_intlike),
        c_intlike(rec["molecular_multiplicity"]),
        t_list(list(rec["fragment_multiplicities"]), c_intlike),
        t_bool(rec["fix_com"]),
        t_bool(rec["fix_orientation"]),
        t_str(rec.get("fix_symmetry")),
    ]
    return "|".join(parts)


def first_diff(a: str, b: str) -> str:
    fa, fb = a.split("|"), b.split("|")
    if len(fa) != len(fb):
        return f"{a[:60]} vs {b[:60]}"
    for n, x, y in zip(OUT_FIELDS, fa, fb):
        if x != y:
            return f"field {n}: {x[:120]} vs {y[:120]}"
    return ""


def parse_model(line: str):
    """model answer -> dict (used for the Molecule(...) comparison)."""
    f = line.split("|")
    d = dict(zip(OUT_FIELDS, f))

    def lst(s, conv):
        if s == "~":
            return None
        body = s[1:]
        return [] if body == "" else [conv(x) for x in body.split(",")]

    Fr = lambda s: Fraction(s)  # noqa
    sq = lambda s: s[1:]  # noqa
    out = {
        "units": sq(d["units"]),
        "name": None if d["name"] == "~" else sq(d["name"]),
        "comment": None if d["comment"] == "~" else sq(d["comment"]),
        "connectivity": lst(d["connectivity"], lambda b: (int(b.split(":")[0]), int(b.split(":")[1]), Fr(b.split(":")[2]))),
        "geom": lst(d["geom"], Fr),
        "elea": lst(d["elea"], int),
        "elez": lst(d["elez"], int),
        "elem": lst(d["elem"], sq),
        "mass": lst(d["mass"], Fr),
        "real": lst(d["real"], lambda x: x == "T"),
        "elbl": lst(d["elbl"], sq),
        "fragment_separators": lst(d["fragment_separators"], int),
        "molecular_charge": int(d["molecular_charge"]),
        "fragment_charges": lst(d["fragment_charges"], int),
        "molecular_multiplicity": int(d["molecular_multiplicity"]),
        "fragment_multiplicities": lst(d["fragment_multiplicities"], int),
        "fix_com": d["fix_com"] == "T",
        "fix_orientation": d["fix_orientation"] == "T",
        "fix_symmetry": None if d["fix_symmetry"] == "~" else sq(d["fix_symmetry"]),
    }
    return out


# ----------------------------------------------------------------------------------------
# calling the implementation


def _quiet(f):
    try:
        with contextlib.redirect_stdout(io.StringIO()):
            return ("ok", f())
    except Exception as e:  # noqa
        return ("err", err_class(e), str(e)[:200])


def fa_kwargs(kw, st, forms):
    """python call arguments for from_arrays; `forms` says which lists go in as ndarrays / nested."""
    args = {}
    for k, v in kw.items():
        if v is None:
            continue
        if k == "geom":
            if forms.get("geom") == "nested" and len(v) % 3 == 0:
                v = [list(v[i : i + 3]) for i in range(0, len(v), 3)]
            elif forms.get("geom") == "np":
                v = np.array(v, dtype=float)
        elif k == "fragment_separators" and forms.get("seps") == "np":
            v = np.array(v, dtype=int)
        elif k == "connectivity":
            v = [tuple(b) for b in v]
        elif k in ("elez", "elem", "real", "elbl") and forms.get(k) == "np" and all(x is not None for x in v):
            v = np.array(v)
        args[k] = v
    if st["minimal"]:
        args["missing_enabled_return"] = "minimal"
    # only non-default processing details are passed, so that the documented defaults are exercised
    if st["speclabel"] is not True:
        args["speclabel"] = st["speclabel"]
    if st["nonphysical"]:
        args["nonphysical"] = True
    if st["zgf"]:
        args["zero_ghost_fragments"] = True
    if st["mtol"] != 1.0e-3:
        args["mtol"] = st["mtol"]
    if st["tooclose"] != 0.1:
        args["tooclose"] = st["tooclose"]
    return args


def call_fa(kw, st, forms):
    from qcelemental.molparse import from_arrays

    return _quiet(lambda: from_arrays(**fa_kwargs(kw, st, forms)))


def feed_back_args(rec, st):
    args = dict(rec)
    args["speclabel"] = False
    if st["minimal"]:
        args["missing_enabled_return"] = "minimal"
    if st["nonphysical"]:
        args["nonphysical"] = True
    if st["mtol"] != 1.0e-3:
        args["mtol"] = st["mtol"]
    if st["tooclose"] != 0.1:
        args["tooclose"] = st["tooclose"]
    return args


def rec_as_kw(rec):
    """the record as JSON-able from_arrays-named arguments (for the feed-back model line)."""
    conn = rec.get("connectivity")
    return {
        "geom": [float(x) for x in np.asarray(rec["geom"]).ravel()],
        "elea": [int(x) for x in rec["elea"]],
        "elez": [int(x) for x in rec["elez"]],
        "elem": [str(x) for x in rec["elem"]],
        "mass": [float(x) for x in rec["mass"]],
        "real": [bool(x) for x in rec["real"]],
        "elbl": [str(x) for x in rec["elbl"]],
        "name": rec.get("name"),
        "comment": rec.get("comment"),
        "units": rec["units"],
        "input_units_to_au": rec.get("input_units_to_au"),
        "fix_com": bool(rec["fix_com"]),
        "fix_orientation": bool(rec["fix_orientation"]),
        "fix_symmetry": rec.get("fix_symmetry"),
        "fragment_separators": [int(x) for x in rec["fragment_separators"]],
        "fragment_charges": [float(x) for x in rec["fragment_charges"]],
        "fragment_multiplicities": [int(x) for x in rec["fragment_multiplicities"]],
        "molecular_charge": float(rec["molecular_charge"]),
        "molecular_multiplicity": int(rec["molecular_multiplicity"]),
        "connectivity": None if conn is None else [[int(a), int(b), float(o)] for a, b, o in conn],
    }


def schema_dict(case):
    """the dict handed to from_schema (version 1 nests the molecule)."""
    sc = case["schema"]
    kw = case["kw"]
    ms = {}
    for k in PER_ATOM:
        if kw.get(k) is not None:
            ms[SCHEMA_NAME[k]] = list(kw[k])
    ms["geometry"] = list(kw["geom"]) if case["forms"].get("geom") != "np" else np.array(kw["geom"], dtype=float)
    for k in ["name", "comment", "fix_com", "fix_orientation", "fix_symmetry", "fragment_charges", "fragment_multiplicities",
              "molecular_charge", "molecular_multiplicity"]:
        if kw.get(k) is not None:
            ms[k] = kw[k]
    if kw.get("connectivity") is not None:
        ms["connectivity"] = [tuple(b) for b in kw["connectivity"]]
    if sc.get("fragments") is not None:
        ms["fragments"] = [list(f) for f in sc["fragments"]]
    top = {}
    if sc.get("schema_name") is not None:
        top["schema_name"] = sc["schema_name"]
    if sc.get("schema_version") is not None:
        top["schema_version"] = sc["schema_version"]
    if sc.get("nested"):
        top["molecule"] = ms
        return top
    ms.update(top)
    return ms


def call_fs(case):
    from qcelemental.molparse import from_schema

    d = schema_dict(case)
    if case["st"]["nonphysical"]:
        return _quiet(lambda: from_schema(d, nonphysical=True))
    return _quiet(lambda: from_schema(d))


def call_mol(case):
    import qcelemental as qcel

    d = schema_dict(case)
    if case["st"]["nonphysical"]:
        d["nonphysical"] = True
    return _quiet(lambda: qcel.models.Molecule(**d))


# ----------------------------------------------------------------------------------------
# the oracle: the property stated directly (independent of the model)


def py_split_points(n, seps):
    """pieces of range(n) cut at `seps` the way any consumer slices: l[a:b] with Python semantics."""
    div = [0] + [int(s) for s in seps] + [n]
    base = list(range(n))
    return [base[div[i] : div[i + 1]] for i in range(len(div) - 1)]


def min_dist_margin(g, tooclose):
    """(some pair closer than tooclose?, smallest | dist - tooclose |) — exact rationals for the decision."""
    pts = [(Fraction(g[i]), Fraction(g[i + 1]), Fraction(g[i + 2])) for i in range(0, len(g) - len(g) % 3, 3)]
    tc2 = Fraction(tooclose) ** 2
    close, margin = False, 1e9
    for i in range(len(pts)):
        for j in range(i + 1, len(pts)):
            d2 = sum((a - b) ** 2 for a, b in zip(pts[i], pts[j]))
            if d2 < tc2:
                close = True
            margin = min(margin, abs(float(d2) ** 0.5 - tooclose))
    return close, margin


def inv_complaints(rec, st):
    """`Molrec.Inv` re-implemented on the implementation's record."""
    import qcelemental as qcel

    pt = qcel.periodictable
    bad = []
    need = ["units", "geom", "elea", "elez", "elem", "mass", "real", "elbl", "fragment_separators", "molecular_charge",
            "fragment_charges", "molecular_multiplicity", "fragment_multiplicities", "fix_com", "fix_orientation", "provenance"]
    for k in need:
        if k not in rec:
            bad.append(("missing_field", f"field {k} absent"))
    if bad:
        return bad
    n = len(rec["elem"])
    for k in PER_ATOM:
        if len(rec[k]) != n:
            bad.append(("lengths", f"len({k}) = {len(rec[k])} != {n}"))
    g = [float(x) for x in np.asarray(rec["geom"]).ravel()]
    if len(g) != 3 * n:
        bad.append(("lengths", f"geom has {len(g)} numbers for {n} atoms"))
    if bad:
        return bad
    if rec["units"] not in ("Angstrom", "Bohr"):
        bad.append(("units", f"units {rec['units']!r}"))
    if not (isinstance(rec["fix_com"], (bool, np.bool_)) and isinstance(rec["fix_orientation"], (bool, np.bool_))):
        bad.append(("frame", "fix_com / fix_orientation not boolean"))
    # nuclear data consistent with each other and the periodic table
    for at in range(n):
        A, Z, E, m = int(rec["elea"][at]), int(rec["elez"][at]), str(rec["elem"][at]), float(rec["mass"][at])
        try:
            if pt.to_E(Z) != E or pt.to_Z(E) != Z:
                bad.append(("nuclear", f"atom {at}: symbol {E} vs Z {Z}"))
                continue
        except Exception:  # noqa
            bad.append(("nuclear", f"atom {at}: ({E}, {Z}) not in the periodic table"))
            continue
        if A != -1:
            try:
                am = pt.to_mass(E + str(A))
            except Exception:  # noqa
                bad.append(("nuclear", f"atom {at}: {E}{A} is not a known nuclide"))
                continue
            if abs(m - am) > st["mtol"] * (1 + 1e-9):
                bad.append(("nuclear", f"atom {at}: mass {m} is not the mass of {E}{A} ({am}) within mtol"))
        if not st["nonphysical"]:
            vals = list(pt._el2a2mass[E].values())
            if not (min(vals) - 0.5 - 1e-9 <= m <= max(vals) + 0.5 + 1e-9):
                bad.append(("nuclear", f"atom {at}: mass {m} outside the range of {E}"))
        if not m > 0:
            bad.append(("nuclear", f"atom {at}: mass {m} not positive"))
    # overlap
    close, _ = min_dist_margin(g, st["tooclose"])
    if close:
        bad.append(("tooclose", "two atoms closer than the overlap threshold"))
    # fragments partition the atoms in order
    seps = [int(s) for s in rec["fragment_separators"]]
    pieces = py_split_points(n, seps)
    if [i for p in pieces for i in p] != list(range(n)) or (n > 0 and any(len(p) == 0 for p in pieces)):
        bad.append(("fragments", f"separators {seps} do not cut {n} atoms into non-empty consecutive blocks"))
    fc, fm = list(rec["fragment_charges"]), list(rec["fragment_multiplicities"])
    if not (len(fc) == len(fm) == len(seps) + 1):
        bad.append(("fragments", f"len(fc)={len(fc)} len(fm)={len(fm)} len(seps)+1={len(seps)+1}"))
        return bad
    # charges / multiplicities
    c, m = rec["molecular_charge"], rec["molecular_multiplicity"]
    if c != sum(fc):
        bad.append(("chgmult", f"molecular_charge {c} != sum of fragment charges {sum(fc)}"))
    zeff = [int(rec["elez"][at]) * (1 if rec["real"][at] else 0) for at in range(n)]

    def feasible(z, ch, mu, what):
        if float(mu) != int(mu) or mu < 1:
            bad.append(("chgmult", f"{what}: multiplicity {mu} is not a positive integer"))
            return
        nel = z - ch
        if mu - 1 > nel:
            bad.append(("chgmult", f"{what}: multiplicity {mu} needs more than {nel} electrons"))
        elif (mu + nel) % 2 != 1:
            bad.append(("chgmult", f"{what}: multiplicity {mu} has the wrong parity for {nel} electrons"))

    feasible(sum(zeff), c, m, "molecule")
    if not bad or all(k != "fragments" for k, _ in bad):
        for k, p in enumerate(pieces):
            feasible(sum(zeff[i] for i in p), fc[k], fm[k], f"fragment {k}")
    prov = rec["provenance"]
    if not (isinstance(prov, dict) and prov.get("creator") == "QCElemental" and str(prov.get("routine", "")).startswith("qcelemental.molparse.from_")):
        bad.append(("provenance", f"provenance stamp {prov}"))
    return bad


def must_refuse(case):
    """refusal classes the property names, decided from the INPUT alone (None = no demand)."""
    kw, st = case["kw"], case["st"]
    g = kw.get("geom")
    if case["entry"] == "FA":
        u = kw.get("units", "Angstrom")
        if u.lower() not in ("angstrom", "bohr"):
            return "unknown_unit"
    if g is None or len(g) == 0:
        return None
    if len(g) % 3 != 0:
        return "geom_not_3n"
    n = len(g) // 3
    for k in PER_ATOM:
        if kw.get(k) is not None and len(kw[k]) != n:
            return "length_mismatch"
    tc = st["tooclose"] if case["entry"] == "FA" else 0.1
    close, _ = min_dist_margin(g, tc)
    if close:
        return "too_close"
    if case["entry"] == "FA":
        seps = kw.get("fragment_separators")
        if seps is not None:
            pieces = py_split_points(n, seps)
            if any(len(p) == 0 for p in pieces) or [i for p in pieces for i in p] != list(range(n)):
                return "bad_separators"
        nfr = 1 if seps is None else len(seps) + 1
        for k in ("fragment_charges", "fragment_multiplicities"):
            if kw.get(k) is not None and (seps is None or len(kw[k]) != nfr):
                return "fragment_length_mismatch"
    else:
        fr_ = case["schema"].get("fragments")
        if fr_ is not None:
            if any(len(f) == 0 for f in fr_) or [i for f in fr_ for i in f] != list(range(n)):
                return "bad_fragment_pattern"
            for k in ("fragment_charges", "fragment_multiplicities"):
                if kw.get(k) is not None and len(kw[k]) != len(fr_):
                    return "fragment_length_mismatch"
        if len(kw.get("elem") or []) != n:
            return "length_mismatch"
    if case.get("tag") == "contradictory_nuclear":
        return "contradictory_nuclear"
    return None


# ----------------------------------------------------------------------------------------
# generator


def _pt():
    import qcelemental as qcel

    return qcel.periodictable


def gen_coords(rng, n, spacing=1.6, jitter=0.35):
    side = 3
    while side**3 < n + 2:
        side += 1
    cells = rng.sample([(a, b, c) for a in range(side) for b in range(side) for c in range(side)], n)
    nd = rng.choice([0, 1, 3, 6, 10])
    g = []
    off = [rng.choice([0.0, 0.0, -3.2, 17.5]) for _ in range(3)]
    for cell in cells:
        for a, o in zip(cell, off):
            g.append(round(a * spacing + o + rng.uniform(-jitter, jitter), nd) if nd else float(round(a * spacing + o)))
    return g


def rand_case(s, rng):
    return "".join(ch.upper() if rng.random() < 0.5 else ch.lower() for ch in s)


def gen_atoms(rng, n, speclabel, holes=True):
    """per-atom truth + the six descriptor arrays built from it."""
    pt = _pt()
    atoms = []
    for _ in range(n):
        r = rng.random()
        Z = rng.randint(1, 18) if r < 0.7 else (rng.randint(19, 54) if r < 0.9 else rng.randint(55, 117))
        E = pt.to_E(Z)
        isos = sorted(pt._el2a2mass[E].keys())
        A = pt.to_A(Z) if rng.random() < 0.7 else rng.choice(isos)
        mass = pt.to_mass(E + str(A))
        d = rng.choice([0.0] * 12 + [1e-6, -4e-4, 2e-3, 0.3])
        mass_given = mass + d
        real = rng.random() > 0.15
        user = rng.choice(["", "", "", "_mine", "_A1", "_x_2", "7"])
        atoms.append({"Z": Z, "E": E, "A": A, "mass": mass_given, "real": real, "user": user})
    arrays = {}
    mask = rng.randrange(64)
    if rng.random() < 0.9:
        mask |= rng.choice([2, 4])  # make sure the element is identified most of the time
    hole = rng.choice([0.0, 0.0, 0.1, 0.3]) if holes else 0.0
    if mask & 1:
        arrays["elea"] = [(None if rng.random() < hole else (-1 if rng.random() < 0.08 else a["A"])) for a in atoms]
    if mask & 2:
        arrays["elez"] = [(None if rng.random() < hole / 3 else a["Z"]) for a in atoms]
    if mask & 4:
        arrays["elem"] = [(None if rng.random() < hole / 3 else rand_case(a["E"], rng)) for a in atoms]
    if mask & 8:
        arrays["mass"] = [(None if rng.random() < hole else a["mass"]) for a in atoms]
    if mask & 16:
        arrays["real"] = [(None if rng.random() < hole else a["real"]) for a in atoms]
    if mask & 32:
        lbls = []
        for a in atoms:
            if not speclabel:
                lbls.append(None if rng.random() < hole else rng.choice([a["user"], a["user"].upper(), "", "lbl"]))
                continue
            if rng.random() < hole:
                lbls.append(None)
                continue
            useZ = rng.random() < 0.2
            core = str(a["Z"]) if useZ else rand_case(a["E"], rng)
            pre = str(a["A"]) if (not useZ and rng.random() < 0.3) else ""
            user = a["user"]
            if useZ and not user.startswith("_"):
                user = ""
            s = pre + core + user
            if rng.random() < 0.25:
                ms = f"{a['mass']:.8f}"
                a["mass"] = float(ms)
                if "mass" in arrays and arrays["mass"][atoms.index(a)] is not None:
                    arrays["mass"][atoms.index(a)] = a["mass"]
                s += "@" + ms
            if not a["real"] or (("real" not in arrays) and rng.random() < 0.2):
                s = ("@" + s) if rng.random() < 0.5 else ("Gh(" + s + ")")
            lbls.append(s)
        arrays["elbl"] = lbls
    return atoms, arrays, mask


def gen_chgmult(rng, atoms, arrays, seps, n):
    """partial specification biased to be satisfiable."""
    nfr = len(seps) + 1
    out = {}
    r = rng.random()
    if r < 0.55:
        return out
    div = [0] + list(seps) + [n]
    zs = [sum(a["Z"] if a["real"] else 0 for a in atoms[div[i] : div[i + 1]]) for i in range(nfr)]
    fc = [(0 if z == 0 else min(z, rng.choice([0, 0, 0, 1, -1, 2]))) for z in zs]
    fm = []
    for z, ch in zip(zs, fc):
        nel = z - ch
        base = 1 + (nel % 2) if nel >= 0 else 1
        if nel >= base + 1 and rng.random() < 0.2:
            base += 2
        fm.append(base)
    c, m = sum(fc), 1 + sum(x - 1 for x in fm)
    p = rng.choice([0.2, 0.5, 0.9])
    as_float = rng.random() < 0.3
    cv = (lambda x: float(x)) if as_float else (lambda x: x)
    if rng.random() < p:
        out["molecular_charge"] = cv(c)
    if rng.random() < p:
        out["molecular_multiplicity"] = m
    if rng.random() < 0.7:
        out["fragment_charges"] = [(cv(x) if rng.random() < p else None) for x in fc]
    if rng.random() < 0.7:
        out["fragment_multiplicities"] = [(x if rng.random() < p else None) for x in fm]
    if rng.random() < 0.06:  # perturb: often unsatisfiable
        k = rng.choice(["molecular_charge", "molecular_multiplicity"])
        out[k] = (out.get(k) or 0) + rng.choice([1, -1, 2])
    return out


def gen_bonds(rng, n):
    nb = rng.randint(1, 5)
    bonds = []
    for _ in range(nb):
        a, b = rng.randrange(max(n, 1)), rng.randrange(max(n, 1))
        o = rng.choice([1, 1.0, 1.5, 2, 2.0, 3, 0, 5, 0.5])
        if rng.random() < 0.2:
            a = float(a)
        bonds.append([a, b, o])
    if rng.random() < 0.3 and bonds:
        bonds.append(list(rng.choice(bonds)))  # duplicate / same atoms, other order
        bonds[-1][2] = rng.choice([1, 2.0, 1.5])
    return bonds


def gen_valid(rng, entry):
    n = rng.choice([0] + list(range(1, 13)) * 4) if entry == "FA" else rng.choice(list(range(1, 13)))
    st = dict(DEFAULT_ST)
    forms = {}
    if entry == "FA":
        st["speclabel"] = rng.random() < 0.6
        st["tooclose"] = rng.choice([0.1] * 10 + [0.5, 0.02, 1.8])
        st["mtol"] = rng.choice([1.0e-3] * 6 + [1.0e-4, 0.5])
        st["zgf"] = rng.random() < 0.1
    else:
        st["speclabel"] = False
    st["nonphysical"] = rng.random() < 0.12
    g = gen_coords(rng, n)
    atoms, arrays, mask = gen_atoms(rng, n, st["speclabel"], holes=(entry != "MOL"))
    kw = {"geom": g}
    kw.update(arrays)
    if st["nonphysical"] and n > 0 and rng.random() < 0.6:
        # a mass far outside the element's natural range: accepted only because nonphysical=True is forwarded
        at = rng.randrange(n)
        atoms[at]["mass"] = float(round(atoms[at]["mass"] * rng.choice([3.0, 0.2]) + rng.choice([10.0, 1.0]), 6))
        kw["mass"] = [a["mass"] for a in atoms]
        kw.pop("elea", None)
        if st["speclabel"] and "elbl" in kw:
            kw.pop("elbl")
        if "elez" not in kw and "elem" not in kw:
            kw["elez"] = [a["Z"] for a in atoms]
    if entry != "FA" and "elem" not in kw:
        kw["elem"] = [rand_case(a["E"], rng) for a in atoms]
    if n == 0:
        st["minimal"] = rng.random() < 0.6
        if rng.random() < 0.3:
            kw["geom"] = None
    # fragments
    nfr = 1 if n < 2 else rng.choice([1, 1, 1, 2, 2, 3, 4, 5])
    nfr = min(nfr, max(n, 1))
    seps = sorted(rng.sample(range(1, n), nfr - 1)) if nfr > 1 else []
    schema = None
    if entry == "FA":
        if nfr > 1 or (n > 0 and rng.random() < 0.3):
            kw["fragment_separators"] = seps
            forms["seps"] = rng.choice(["list", "np"])
        kw["units"] = rng.choice(["Angstrom", "Bohr", "angstrom", "bohr", "BOHR", "aNGSTROM", "Angstrom", "Bohr"])
        if rng.random() < 0.2:
            base = 1.0 if kw["units"].lower() == "bohr" else ang_to_au()
            kw["input_units_to_au"] = base + rng.choice([0.0, 1e-4, -0.03, 0.0499, -0.0499, 0.02])
    else:
        schema = {"schema_name": "qcschema_molecule", "schema_version": 2, "nested": False}
        if entry == "FS":
            r = rng.random()
            if r < 0.25:
                schema = {"schema_name": rng.choice(["qcschema_input", "qc_schema_input", "qcschema_output", "qcschema"]), "schema_version": 1, "nested": True}
            elif r < 0.35:
                schema["schema_name"] = rng.choice(["qcschema_molecule", "qcschema_molecule_x"])
        else:  # Molecule fills both in when absent
            if rng.random() < 0.5:
                schema = {"schema_name": None, "schema_version": None, "nested": False}
        if nfr > 1 or rng.random() < 0.3:
            div = [0] + seps + [n]
            schema["fragments"] = [list(range(div[i], div[i + 1])) for i in range(nfr)]
    cm = gen_chgmult(rng, atoms, arrays, seps, n)
    if entry == "FA" and "fragment_separators" not in kw:
        cm.pop("fragment_charges", None)
        cm.pop("fragment_multiplicities", None)
    if entry != "FA" and (schema.get("fragments") is None):
        cm.pop("fragment_charges", None)
        cm.pop("fragment_multiplicities", None)
    if entry == "MOL":
        # pydantic coercion is outside the model: give Molecule values of the declared types
        for k in ("fragment_charges", "fragment_multiplicities"):
            if k in cm and any(x is None for x in cm[k]):
                cm.pop(k)
    kw.update(cm)
    r = rng.random()
    if r < 0.15:
        kw["fix_com"] = rng.choice([True, False])
    if rng.random() < 0.15:
        kw["fix_orientation"] = rng.choice([True, False])
    if rng.random() < 0.15:
        kw["fix_symmetry"] = rng.choice(["c1", "C2v", "D2H", "cs"] + ([""] if entry != "MOL" else []))
    if rng.random() < 0.2:
        kw["name"] = rng.choice(["water", "mol_1", "X"])
    if rng.random() < 0.1:
        kw["comment"] = rng.choice(["a comment", "c"])
    if rng.random() < 0.15 and n >= 1:
        kw["connectivity"] = gen_bonds(rng, n)
    forms["geom"] = rng.choice(["flat", "flat", "nested", "np"]) if entry == "FA" else rng.choice(["flat", "np"])
    for k in ("elez", "elem", "real", "elbl"):
        if entry == "FA" and rng.random() < 0.3:
            forms[k] = "np"
    return {"entry": entry, "kw": kw, "st": st, "forms": forms, "schema": schema, "tag": "valid", "_atoms": atoms}


MALFORMED = ["length_mismatch", "geom_not_3n", "too_close", "bad_unit", "bad_separators", "negative_separators",
             "fragment_lengths", "contradictory_nuclear", "bad_bond", "bad_frame", "bad_schema", "bad_pattern", "bad_iutau"]


def gen_malformed(rng, entry):
    for _ in range(50):
        case = gen_valid(rng, entry)
        kw, st, n = case["kw"], case["st"], len(case["_atoms"])
        if n == 0:
            continue
        kind = rng.choice(MALFORMED)
        if kind == "length_mismatch":
            ks = [k for k in PER_ATOM if kw.get(k) is not None]
            if not ks:
                continue
            k = rng.choice(ks)
            kw[k] = kw[k][:-1] if (rng.random() < 0.5) else kw[k] + [kw[k][-1]]
            case["forms"].pop(k, None)
        elif kind == "geom_not_3n":
            kw["geom"] = kw["geom"][: -rng.choice([1, 2])] if rng.random() < 0.7 else kw["geom"] + [0.5]
            case["forms"]["geom"] = "flat"
        elif kind == "too_close":
            if n < 2:
                continue
            a, b = rng.sample(range(n), 2)
            d = rng.choice([0.0, 1e-6, 0.03, 0.09, 0.09, 0.11, 0.2, 0.3]) * (st["tooclose"] / 0.1 if entry == "FA" else 1.0)
            ax = rng.randrange(3)
            for i in range(3):
                kw["geom"][3 * b + i] = kw["geom"][3 * a + i] + (d if i == ax else 0.0)
        elif kind == "bad_unit":
            if entry != "FA":
                continue
            kw["units"] = rng.choice(["nm", "Angstroms", "", "au", "bohr ", "A", "pm", "angstrom_"])
        elif kind == "bad_separators":
            if entry != "FA":
                continue
            kw["fragment_separators"] = rng.choice([[0], [n], [n + 3], [1, 1], [2, 1], [n, n + 1], [1, n + 2], [3, 2, 1], [0, 1], [1, 0]])
            kw.pop("fragment_charges", None)
            kw.pop("fragment_multiplicities", None)
        elif kind == "negative_separators":
            if entry != "FA" or n < 2:
                continue
            k = rng.randint(1, n + 1)
            kw["fragment_separators"] = rng.choice([[-k], [1, -1] if n > 2 else [-1], [-k, -1], [-1, -k], [-n]])
            kw.pop("fragment_charges", None)
            kw.pop("fragment_multiplicities", None)
        elif kind == "fragment_lengths":
            if entry == "FA":
                seps = kw.get("fragment_separators")
                nfr = 1 if seps is None else len(seps) + 1
                which = rng.choice(["fragment_charges", "fragment_multiplicities"])
                if seps is None and rng.random() < 0.5:
                    kw[which] = [0] if which == "fragment_charges" else [1]  # given without separation info
                else:
                    if seps is None:
                        kw["fragment_separators"] = []
                    kw[which] = [None] * (nfr + rng.choice([-1, 1, 2]))
            else:
                fr_ = case["schema"].get("fragments")
                if fr_ is None or entry == "MOL":
                    continue
                which = rng.choice(["fragment_charges", "fragment_multiplicities"])
                kw[which] = [None] * (len(fr_) + rng.choice([-1, 1]))
        elif kind == "contradictory_nuclear":
            at = rng.randrange(n)
            a = case["_atoms"][at]
            pt = _pt()
            how = rng.choice(["ZvsE", "badA", "ghost", "mass"])
            if how == "ZvsE":
                otherZ = a["Z"] % 100 + 1
                kw["elez"] = [x["Z"] for x in case["_atoms"]]
                kw["elem"] = [x["E"] for x in case["_atoms"]]
                kw["elez"][at] = otherZ
            elif how == "badA":
                if entry != "FA" and "elem" not in kw:
                    continue
                kw.setdefault("elem", [x["E"] for x in case["_atoms"]])
                kw["elea"] = [x["A"] for x in case["_atoms"]]
                kw["elea"][at] = max(pt._el2a2mass[a["E"]].keys()) + 40
                kw.pop("mass", None)
            elif how == "ghost":
                if not st["speclabel"]:
                    continue
                kw["real"] = [True] * n
                kw["elbl"] = [x["E"] for x in case["_atoms"]]
                kw["elbl"][at] = "@" + a["E"]
            else:
                if st["nonphysical"]:
                    continue
                kw.setdefault("elem", [x["E"] for x in case["_atoms"]])
                kw["mass"] = [x["mass"] for x in case["_atoms"]]
                kw["mass"][at] = a["mass"] * 3 + 10
                kw.pop("elea", None)
                if "elbl" in kw and st["speclabel"]:
                    kw.pop("elbl")
            for k in ("elez", "elem", "real", "elbl"):
                case["forms"].pop(k, None)
        elif kind == "bad_bond":
            kw["connectivity"] = gen_bonds(rng, n)
            b = rng.choice(kw["connectivity"])
            how = rng.choice(["neg", "order", "order_neg", "nonint", "arity"])
            if how == "neg":
                b[rng.randrange(2)] = -1
            elif how == "order":
                b[2] = rng.choice([5.5, 6, 5.000001])
            elif how == "order_neg":
                b[2] = rng.choice([-1, -0.5])
            elif how == "nonint":
                b[rng.randrange(2)] = 1.5
            else:
                if entry == "MOL":
                    continue
                kw["connectivity"].append([0, 1] if rng.random() < 0.5 else [0, 1, 1, 1])
        elif kind == "bad_frame":
            if entry == "MOL":
                continue
            kw[rng.choice(["fix_com", "fix_orientation"])] = rng.choice([1, 0, "yes", "True"])
        elif kind == "bad_schema":
            if entry != "FS":
                continue
            sc = case["schema"]
            how = rng.choice(["name", "version", "both", "noversion", "swap"])
            if how == "name":
                sc["schema_name"] = rng.choice(["molecule", "qcschem", "QCSchema_molecule", ""])
            elif how == "version":
                sc["schema_version"] = rng.choice([3, 0, -1])
            elif how == "both":
                sc["schema_name"], sc["schema_version"] = None, None
            elif how == "noversion":
                sc["schema_version"] = None
            else:  # v1 name with v2 layout / version
                sc["schema_name"], sc["schema_version"], sc["nested"] = "qcschema_input", 2, False
        elif kind == "bad_pattern":
            if entry == "FA":
                continue
            sc = case["schema"]
            base = sc.get("fragments") or [list(range(n))]
            how = rng.choice(["offset", "skip", "reorder", "empty", "dup", "short", "long"])
            fr_ = [list(f) for f in base]
            if how == "offset":
                fr_ = [[i + 1 for i in f] for f in fr_]
            elif how == "skip":
                if n < 2:
                    continue
                fr_[-1] = fr_[-1][:-1] + [fr_[-1][-1] + 1]
            elif how == "reorder":
                flat = [i for f in fr_ for i in f]
                if len(flat) < 2:
                    continue
                i, j = rng.sample(range(len(flat)), 2)
                flat[i], flat[j] = flat[j], flat[i]
                it = iter(flat)
                fr_ = [[next(it) for _ in f] for f in fr_]
            elif how == "empty":
                fr_.insert(rng.randrange(len(fr_) + 1), [])
                if entry == "MOL":
                    continue
            elif how == "dup":
                fr_[0] = fr_[0] + [fr_[0][0]]
            elif how == "short":
                if len(fr_[-1]) < 2 and len(fr_) < 2:
                    continue
                fr_[-1] = fr_[-1][:-1]
                fr_ = [f for f in fr_ if f]
                if not fr_:
                    continue
            else:
                fr_[-1] = fr_[-1] + [n]
            sc["fragments"] = fr_
            kw.pop("fragment_charges", None)
            kw.pop("fragment_multiplicities", None)
        elif kind == "bad_iutau":
            if entry != "FA":
                continue
            base = 1.0 if kw.get("units", "Angstrom").lower() == "bohr" else ang_to_au()
            kw["input_units_to_au"] = base + rng.choice([0.06, -0.06, 1.0, -0.0500011, 0.3, 0.0501, 0.07, -0.2])
        case["tag"] = kind
        return case
    return gen_valid(rng, entry)


def gen_leak_case(rng):
    """targeted: heavy atoms whose mass is np.allclose (rtol 1e-5) to the default mass but outside mtol — the
    `_filter_defaults` class recorded as a known finding; the from_schema/from_arrays records must still be right."""
    pt = _pt()
    n = rng.randint(1, 3)
    zs = [rng.randint(72, 112) for _ in range(n)]
    elem = [pt.to_E(z) for z in zs]
    mass = [pt.to_mass(e) + rng.choice([1.5e-3, -1.6e-3, 1.2e-3]) for e in elem]
    kw = {"geom": gen_coords(rng, n), "elem": elem, "mass": mass}
    return {"entry": "MOL", "kw": kw, "st": dict(DEFAULT_ST, speclabel=False), "forms": {"geom": "flat"},
            "schema": {"schema_name": None, "schema_version": None, "nested": False}, "tag": "filter_defaults_leak"}


def acceptable_case(case):
    """exclusion zone: distances within 1e-9 of the threshold, iutau within 1e-9 of the window edge."""
    kw, st = case["kw"], case["st"]
    g = kw.get("geom") or []
    tc = st["tooclose"] if case["entry"] == "FA" else 0.1
    if len(g) >= 6:
        _, margin = min_dist_margin(g, tc)
        if margin < 1e-9:
            return False
    x = kw.get("input_units_to_au")
    if x is not None:
        base = 1.0 if kw.get("units", "Angstrom").lower() == "bohr" else ang_to_au()
        if abs(abs(x - base) - 0.05) < 1e-9:
            return False
    return True


def strip_case(case):
    c = {k: v for k, v in case.items() if not k.startswith("_")}
    return json.loads(json.dumps(c))


def gen_cases(ctx: Ctx):
    rng = ctx.rng
    nv, nm = ctx.scale(1500, 14000), ctx.scale(1000, 9000)
    plan = [("FA", nv, nm), ("FS", nv // 2, nm // 2), ("MOL", nv // 2, nm // 2)]
    cases = []
    for entry, a, b in plan:
        for _ in range(a):
            c = gen_valid(rng, entry)
            if acceptable_case(c):
                cases.append(strip_case(c))
        for _ in range(b):
            c = gen_malformed(rng, entry)
            if acceptable_case(c):
                cases.append(strip_case(c))
    for _ in range(ctx.scale(4, 20)):
        cases.append(strip_case(gen_leak_case(rng)))
    return cases


# ----------------------------------------------------------------------------------------
# running


def primary_line(case):
    if case["entry"] == "FA":
        return enc_line("FA", case["kw"], case["st"])
    st = dict(case["st"])
    st.update(speclabel=False, mtol=1.0e-3, tooclose=0.1, minimal=False, zgf=False)
    sc = dict(case["schema"])
    if case["entry"] == "MOL":  # Molecule.__init__ fills these in when absent (molecule.py:352-353)
        if sc.get("schema_name") is None:
            sc["schema_name"] = "qcschema_molecule"
        if sc.get("schema_version") is None:
            sc["schema_version"] = 2
    return enc_line("FS", case["kw"], st, schema=sc)


def impl_primary(case):
    if case["entry"] == "FA":
        return call_fa(case["kw"], case["st"], case["forms"])
    if case["entry"] == "FS":
        return call_fs(case)
    return call_mol(case)


def mol_compare(mol, m, kw):
    """Molecule fields against the model's from_schema record (behavioural; _filter_defaults re-stated)."""
    pt = _pt()
    bad = []
    n = len(m["elem"])

    def chk(name, a, b):
        if a != b:
            bad.append(f"{name}: {str(a)[:100]} vs model {str(b)[:100]}")

    chk("symbols", [str(x) for x in mol.symbols], m["elem"])
    geo = [float(x) for x in np.asarray(mol.geometry).ravel()]
    if len(geo) != 3 * n or any(abs(Fraction(a) - b) > Fraction(5000001, 10**15) for a, b in zip(geo, m["geom"])):
        bad.append("geometry differs from the record by more than the 8-decimal rounding")
    dm = [pt.to_mass(e) for e in m["elem"]]
    if np.array_equal(dm, [float(x) for x in m["mass"]]):
        # _filter_defaults drops validated masses / mass_numbers that equal the defaults; `{**kwargs, **schema}`
        # (molecule.py:363) then keeps whatever the caller passed (already validated above, but not normalised:
        # e.g. a mass number given as -1 stays -1)
        chk("masses(default)", [float(x) for x in mol.masses], [float(x) for x in kw["mass"]] if kw.get("mass") is not None else dm)
        chk("mass_numbers(default)", [int(x) for x in mol.mass_numbers],
            [int(x) for x in kw["elea"]] if kw.get("elea") is not None else [pt.to_A(e) for e in m["elem"]])
    else:
        chk("masses", [Fraction(float(x)) for x in mol.masses], m["mass"])
        chk("mass_numbers", [int(x) for x in mol.mass_numbers], m["elea"])
    chk("atomic_numbers", [int(x) for x in mol.atomic_numbers], m["elez"])
    chk("real", [bool(x) for x in mol.real], m["real"])
    chk("atom_labels", [str(x) for x in mol.atom_labels], m["elbl"])
    chk("fragments", [[int(i) for i in f] for f in mol.fragments], py_split_points(n, m["fragment_separators"]))
    chk("fragment_charges", [float(x) for x in mol.fragment_charges], [float(x) for x in m["fragment_charges"]])
    chk("fragment_multiplicities", [int(x) for x in mol.fragment_multiplicities], m["fragment_multiplicities"])
    chk("molecular_charge", float(mol.molecular_charge), float(m["molecular_charge"]))
    chk("molecular_multiplicity", int(mol.molecular_multiplicity), m["molecular_multiplicity"])
    chk("fix_com", bool(mol.fix_com), m["fix_com"])
    chk("fix_orientation", bool(mol.fix_orientation), m["fix_orientation"])
    chk("fix_symmetry", mol.fix_symmetry, m["fix_symmetry"])
    conn = mol.connectivity
    chk("connectivity", None if conn is None else [(int(a), int(b), Fraction(float(o))) for a, b, o in conn], m["connectivity"])
    if m["name"] is not None:
        chk("name", mol.name, m["name"])
    chk("comment", mol.comment, m["comment"])
    if mol.validated is not True:
        bad.append("validated flag not set")
    return bad


def mol_as_record(mol):
    """a Molecule seen as a record for the invariant oracle."""
    n = len(mol.symbols)
    seps = list(np.cumsum([len(f) for f in mol.fragments])[:-1])
    return {
        "units": "Bohr", "geom": np.asarray(mol.geometry).ravel(), "elea": mol.mass_numbers, "elez": mol.atomic_numbers,
        "elem": mol.symbols, "mass": mol.masses, "real": mol.real, "elbl": mol.atom_labels, "fragment_separators": seps,
        "molecular_charge": mol.molecular_charge, "fragment_charges": mol.fragment_charges,
        "molecular_multiplicity": mol.molecular_multiplicity, "fragment_multiplicities": mol.fragment_multiplicities,
        "fix_com": mol.fix_com, "fix_orientation": mol.fix_orientation,
        "provenance": {"creator": mol.provenance.creator, "routine": "qcelemental.molparse.from_schema"},
        "_contiguous": [int(i) for f in mol.fragments for i in f] == list(range(n)) and all(len(f) for f in mol.fragments),
    }


def filter_defaults_leak(case, mol):
    """the class repaired in /repo 1141b4a (kept as its own violation kind): the validated record (from_schema on
    the same input) says A == -1 for some atom, its masses are np.allclose to the default masses, and
    Molecule.mass_numbers shows the default A there."""
    pt = _pt()
    c2 = dict(case, schema=dict(case["schema"]))
    if c2["schema"].get("schema_name") is None:
        c2["schema"]["schema_name"] = "qcschema_molecule"
    if c2["schema"].get("schema_version") is None:
        c2["schema"]["schema_version"] = 2
    rec = call_fs(c2)
    if rec[0] != "ok":
        return False
    rec = rec[1]
    dm = [pt.to_mass(str(e)) for e in rec["elem"]]
    if not np.allclose(dm, [float(x) for x in rec["mass"]]):
        return False
    for at in range(len(dm)):
        if int(rec["elea"][at]) == -1 and int(mol.mass_numbers[at]) == pt.to_A(str(rec["elem"][at])):
            return True
    return False


def mol_equal(a, b):
    da, db = a.dict(), b.dict()
    if set(da) != set(db):
        return f"keys differ: {sorted(set(da) ^ set(db))}"
    for k in da:
        x, y = da[k], db[k]
        if k == "provenance":
            continue
        try:
            if isinstance(x, np.ndarray) or isinstance(y, np.ndarray):
                same = np.asarray(x).shape == np.asarray(y).shape and bool(np.all(np.asarray(x) == np.asarray(y)))
            elif k == "fragments":
                same = [list(map(int, f)) for f in x] == [list(map(int, f)) for f in y]
            else:
                same = x == y
        except Exception:  # noqa
            same = False
        if not same:
            return f"field {k}: {str(x)[:80]} vs {str(y)[:80]}"
    return ""


def case_key(case):
    return json.dumps(case, sort_keys=True, default=str)


def run_streams(ctx: Ctx, lines):
    """the same lines through both drivers, concurrently: (answers with the implementation's reconcile_nucleus table,
    answers with the per-atom reconciliation computed by the C06 model)"""
    from concurrent.futures import ThreadPoolExecutor

    if not lines:
        return [], []
    with ThreadPoolExecutor(max_workers=2) as ex:
        fa = ex.submit(ctx.run_model, DRIVER, lines)
        fb = ex.submit(ctx.run_model, DRIVER_C06, lines)
        return fa.result(), fb.result()


def idem_class(kw, st):
    """which theorem of Props/C04C06.lean covers the fixed point of this input (distribution only)"""
    def absent(k):
        v = kw.get(k)
        return v is None or all(x is None or (k == "elea" and x == -1) for x in v)

    if kw.get("mass") is not None and all(x is not None for x in kw["mass"]):
        return "all_masses_supplied(from_arrays_idempotent_c06_masses)"
    if absent("elea") and absent("mass") and (not st["speclabel"] or absent("elbl")) and st["mtol"] >= 0:
        return "plain(from_arrays_idempotent_c06_plain)"
    return "isotope_without_mass_or_mixed(from_arrays_idempotent_c06_partial: SelfConsistent hypothesis)"


def evaluate(ctx: Ctx, out: Outcome, cases):
    lines = [primary_line(c) for c in cases]
    model = [None] * len(cases)
    model6 = [None] * len(cases)
    if ctx.model_available:
        model, model6 = run_streams(ctx, lines)
    feedback = []  # (index, line, canon of the implementation's record)
    sc_lines = []  # (index, primary line with op FAq/FSq): is the hypothesis of from_arrays_idempotent_c06_partial met?
    not_fixed = set()  # indices where the implementation's record fed back did not come back unchanged
    results = []
    for idx, (case, line, ml, ml6) in enumerate(zip(cases, lines, model, model6)):
        entry, st = case["entry"], case["st"]
        res = impl_primary(case)
        results.append(res)
        out.evaluations += 1
        out.count("entry:" + entry)
        out.count("tag:" + case["tag"])
        n = len(case["kw"].get("geom") or []) // 3
        out.count(f"natoms:{n:02d}")
        nd = sum(1 for k in PER_ATOM if case["kw"].get(k) is not None)
        out.count(f"descriptor_arrays_supplied:{nd}")
        if res[0] == "ok":
            ci = canon_rec(res[1]) if entry != "MOL" else "ok(Molecule)"
            out.count(f"outcome:{entry}:ok")
        else:
            ci = "err " + res[1]
            out.count(f"outcome:{entry}:err:{res[1]}")
        if case["tag"] == "valid":
            out.count(f"valid_stream:{entry}:" + ("accepted" if res[0] == "ok" else "refused"))
        if ml is not None and ml.startswith("bad-op"):
            raise RuntimeError(f"driver could not parse the line for case {case_key(case)[:400]}")
        if ml is not None and "TABLE-MISS" in ml:
            raise RuntimeError(f"reconciler table incomplete for case {case_key(case)[:400]}")
        if ml6 is not None and ml6.startswith("bad-op"):
            raise RuntimeError(f"driver (C06 stream) could not parse the line for case {case_key(case)[:400]}")
        nfr = 1
        if res[0] == "ok" and entry != "MOL":
            nfr = len(res[1]["fragment_separators"]) + 1
            out.count(f"fragments:{nfr}")
        if res[0] == "err" or n >= 2 or nd < 6 or nfr > 1:
            out.nontrivial(line)
        if len(out.samples) < 6 and (idx % 97 == 0):
            out.sample({"entry": entry, "tag": case["tag"], "input": line[:400], "impl": ci[:300], "model": (ml or "")[:300]})

        # ---------------- oracle: refusal classes + error class
        demand = must_refuse(case)
        if demand is not None:
            out.count("refusal_class:" + demand)
            if res[0] == "ok":
                out.violations.append(Finding("oracle:not_refused:" + demand, case, observed=ci[:400], expected="ValidationError",
                                              detail=f"input of refusal class '{demand}' was accepted"))
            elif res[1] != "Validation" and not (demand == "contradictory_nuclear" and res[1] == "NotAnElement"):
                out.violations.append(Finding("oracle:refusal_error_class:" + demand, case, observed=ci, expected="ValidationError",
                                              detail=f"refused with {res[1]}: {res[2]}"))
        elif res[0] == "err" and res[1] not in ("Validation", "NotAnElement"):
            out.violations.append(Finding("oracle:error_class", case, observed=ci, expected="ValidationError (or NotAnElementError from the reconciler)",
                                          detail=res[2]))
        # ---------------- oracle: invariant on success + fixed point
        if res[0] == "ok" and entry != "MOL":
            rec = res[1]
            ist = dict(st)
            if entry == "FS":
                ist.update(tooclose=0.1, mtol=1.0e-3)
            for clause, msg in inv_complaints(rec, ist):
                out.violations.append(Finding("oracle:inv:" + clause, case, observed=ci[:600], detail=msg))
            from qcelemental.molparse import from_arrays

            fst = dict(ist)
            if entry == "FS":
                fst["minimal"] = False
            back = _quiet(lambda: from_arrays(**feed_back_args(rec, fst)))
            cb = canon_rec(back[1]) if back[0] == "ok" else "err " + back[1]
            if cb != ci:
                not_fixed.add(idx)
                out.violations.append(Finding("oracle:not_fixed_point", case, observed=cb[:600], expected=ci[:600],
                                              detail="from_arrays(speclabel=False, **rec) != rec: " + (first_diff(ci, cb) if back[0] == "ok" else back[2])))
            bst = dict(fst)
            bst.update(speclabel=False, zgf=False)
            feedback.append((idx, enc_line("FA", rec_as_kw(rec), bst), ci))
            sc_lines.append((idx, line[:2] + "q" + line[2:]))
            out.count("fixed_point_covered_by:" + idem_class(case["kw"], dict(st, speclabel=False) if entry == "FS" else st))
        if res[0] == "ok" and entry == "MOL":
            import qcelemental as qcel

            mol = res[1]
            mrec = mol_as_record(mol)
            if not mrec["_contiguous"]:
                out.violations.append(Finding("oracle:inv:fragments", case, observed=str(mol.fragments)[:300], detail="Molecule fragments do not partition the atoms in order"))
            else:
                leak = filter_defaults_leak(case, mol)
                for clause, msg in inv_complaints(mrec, dict(st, tooclose=0.1 - 2e-8, mtol=1.0e-3 + 1e-9)):
                    if clause == "nuclear" and "is not the mass of" in msg and leak:
                        out.violations.append(Finding("oracle:molecule_filter_defaults_mass_number", case, observed=f"mass_numbers={list(map(int, mol.mass_numbers))} masses={list(map(float, mol.masses))}",
                                                      expected="mass number -1 (as in the from_schema record) or the nuclide's own mass",
                                                      detail="Molecule: " + msg + " — _filter_defaults (np.allclose, rtol 1e-5) dropped the validated masses/mass_numbers; the caller's mass survives, mass_numbers falls back to the default isotope"))
                    else:
                        out.violations.append(Finding("oracle:inv:" + clause, case, observed=ci, detail="Molecule: " + msg))
            again = _quiet(lambda: qcel.models.Molecule(**mol.dict()))
            if again[0] != "ok":
                out.violations.append(Finding("oracle:not_fixed_point", case, observed="err " + again[1], detail="Molecule(**mol.dict()) refused: " + again[2]))
            else:
                d = mol_equal(mol, again[1])
                if d:
                    out.violations.append(Finding("oracle:not_fixed_point", case, observed=d, detail="Molecule(**mol.dict()) differs from mol"))
            extra = {"nonphysical": True} if st["nonphysical"] else {}
            again2 = _quiet(lambda: qcel.models.Molecule(**dict(mol.dict(), validated=False, **extra)))
            if again2[0] != "ok":
                out.violations.append(Finding("oracle:not_fixed_point", case, observed="err " + again2[1], detail="re-validating Molecule(**mol.dict(), validated=False) refused: " + again2[2]))
            else:
                d = mol_equal(mol, again2[1])
                if d:
                    out.violations.append(Finding("oracle:not_fixed_point", case, observed=d, detail="re-validated Molecule differs from mol"))
        # ---------------- correspondence
        if ml is not None:
            if entry != "MOL":
                if ml != ci:
                    out.mismatches.append(Finding("mismatch:" + entry, case, observed=ci[:600], expected=ml[:600],
                                                  detail="implementation vs Lean model: " + (first_diff(ci, ml) if ci.startswith("ok") and ml.startswith("ok") else "")))
            else:
                if ml.startswith("ok"):
                    if res[0] != "ok":
                        conn = case["kw"].get("connectivity")
                        if not (conn is not None and len(conn) == 0):
                            out.mismatches.append(Finding("mismatch:MOL", case, observed=ci, expected=ml[:300], detail="Molecule refused what the from_schema model accepts: " + res[2]))
                    else:
                        for msg in mol_compare(res[1], parse_model(ml), case["kw"]):
                            out.mismatches.append(Finding("mismatch:MOL", case, observed=msg, expected=ml[:300], detail="Molecule field vs from_schema model record"))
                else:
                    if res[0] == "ok":
                        out.mismatches.append(Finding("mismatch:MOL", case, observed=ci, expected=ml, detail="Molecule accepted what the from_schema model refuses"))
                    elif ml != ci:
                        out.mismatches.append(Finding("mismatch:MOL", case, observed=ci, expected=ml, detail="error class"))
        # ---------------- correspondence, second stream: the per-atom reconciliation computed by the C06 model
        if ml6 is not None:
            out.count("c06_stream:" + entry)
            if entry != "MOL":
                # (a disagreement shared with the first stream has been reported there)
                if ml6 != ci and not (ml is not None and ml6 == ml):
                    out.mismatches.append(Finding("mismatch:c06:" + entry, case, observed=ci[:600], expected=ml6[:600],
                                                  detail="implementation vs Lean from_arrays with the C06 model as reconciler (end to end): "
                                                  + (first_diff(ci, ml6) if ci.startswith("ok") and ml6.startswith("ok") else "")))
            elif ml is not None and ml6 != ml:
                out.mismatches.append(Finding("mismatch:c06:MOL", case, observed=ml[:600], expected=ml6[:600],
                                              detail="from_schema model with the implementation's reconcile_nucleus answers vs with the C06 model: "
                                              + (first_diff(ml, ml6) if ml.startswith("ok") and ml6.startswith("ok") else "")))
    # ---------------- the hypothesis of the partial fixed-point theorem, evaluated by Lean on every accepted record
    if ctx.model_available and sc_lines:
        for (idx, _l), a in zip(sc_lines, ctx.run_model(DRIVER_C06, [l for _, l in sc_lines])):
            if a.startswith("sc T "):
                out.count("SelfConsistent_hypothesis(from_arrays_idempotent_c06_partial):holds")
                if idx in not_fixed:
                    out.mismatches.append(Finding("mismatch:c06:selfconsistent_not_fixed", cases[idx], observed="implementation: record fed back differs", expected=a,
                                                  detail="every atom of the model's record is SelfConsistent (so the model's record IS a fixed point, by theorem) but the implementation's is not"))
            elif a.startswith("sc F "):
                out.count("SelfConsistent_hypothesis(from_arrays_idempotent_c06_partial):fails")
            elif a.startswith("bad-op"):
                raise RuntimeError(f"FAq/FSq line not understood by the driver: {case_key(cases[idx])[:300]}")
            else:
                out.count("SelfConsistent_hypothesis(from_arrays_idempotent_c06_partial):model_refuses")
    # ---------------- second pass: the accepted records through the model again (both streams)
    if ctx.model_available and feedback:
        ans, ans6 = run_streams(ctx, [l for _, l, _ in feedback])
        for (idx, _l, ci), ml, ml6 in zip(feedback, ans, ans6):
            out.count("fed_back")
            if "TABLE-MISS" in ml or ml.startswith("bad-op") or ml6.startswith("bad-op"):
                raise RuntimeError(f"feed-back line not understood by the driver: {ml} / {ml6} / {case_key(cases[idx])[:300]}")
            if ml != ci:
                out.mismatches.append(Finding("mismatch:feedback", cases[idx], observed=ci[:600], expected=ml[:600],
                                              detail="model on the implementation's record (fed back) does not return it: " + (first_diff(ci, ml) if ml.startswith("ok") else ml)))
            if ml6 != ci and ml6 != ml:
                out.mismatches.append(Finding("mismatch:c06:feedback", cases[idx], observed=ci[:600], expected=ml6[:600],
                                              detail="Lean from_arrays with the C06 model on the implementation's record (fed back) does not return it: "
                                              + (first_diff(ci, ml6) if ml6.startswith("ok") else ml6)))
    return results


def run(ctx: Ctx) -> Outcome:
    out = Outcome()
    cases = gen_cases(ctx)
    evaluate(ctx, out, cases)
    ok = sum(v for k, v in out.distribution.items() if k.startswith("outcome:") and k.endswith(":ok"))
    out.notes.append(f"accepted {ok} of {out.evaluations} generated cases ({100.0*ok/max(out.evaluations,1):.1f}%); valid-tagged stream: see tag:valid")
    n6 = sum(v for k, v in out.distribution.items() if k.startswith("c06_stream:"))
    out.notes.append(f"second stream: {n6} lines + {out.distribution.get('fed_back', 0)} fed-back records through Driver/C04b.lean (per-atom reconciliation computed by the C06 model, "
                     "the implementation's answers on the line ignored) and compared with the implementation")
    h = out.distribution.get("SelfConsistent_hypothesis(from_arrays_idempotent_c06_partial):holds", 0)
    f = out.distribution.get("SelfConsistent_hypothesis(from_arrays_idempotent_c06_partial):fails", 0)
    out.notes.append(f"hypothesis of the partial fixed-point theorem (every atom SelfConsistent), decided by Lean on each accepted from_arrays/from_schema record: holds on {h}, fails on {f}")
    out.notes.append("all cases sampled from VERIF_SEED; Molecule(...) compared field-by-field with the from_schema model record (geometry to 8 decimals, _filter_defaults re-stated) — behavioural, partial")
    out.exhaustive = False
    return out


def replay(ctx: Ctx, case) -> Outcome:
    out = Outcome()
    evaluate(ctx, out, [case])
    return out
