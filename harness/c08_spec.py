"""Translator for C08: regenerates lean/QcelVerif/Gen/ToStringSpec.lean from the *text* of
QCEL_REPO/qcelemental/molparse/to_string.py, by `ast` (nothing is imported).

`harness/consttie.py` (Gen/SrcConsts.lean, Props/ConstTieC08.lean) already ties the dtype set, `default_units`, the
atom/ghost format literals with their override policy and the width/prec defaults.  This translator reads what that
leaves out, branch by branch of the `if dtype in [...] / elif dtype == ...` chain, with a small symbolic executor of the
branch body:

  * `umap` (unit word per unit name) and HOW the branch reads it (`umap.get(u, u)` / `umap.get(u)` / `umap[u]`), the
    fixed-unit guard of the SDF branch, and the factor-selection chain at the top of the function;
  * the list `smol`, as a *line program*: literal text, f-string / `.format` holes (charge, multiplicity, spin, name,
    tagline, number of atom lines, unit word, fix_com, fix_symmetry ...), `.rstrip()`, the conditions lines are
    written under, where the atom block goes, the psi4/qchem fragment loop (separator literal and the per-fragment
    charge/multiplicity line), the molpro dummy card, the SDF counts / atom / bond line layouts;
  * `data.fields.extend([...])` and every key / value written into `data.keywords` (with the condition it is under);
  * `_atoms_formatter`: the three format-spec strings and the separator width, `xyze` handling;
  * `tagline` and the base `Data.fields`.

A statement, expression or condition the executor does not recognise is a SpecError (the run reports a broken
obligation and Gen/ToStringSpec.lean is replaced by a stub that cannot satisfy Props/C08Spec.lean) - never skipped.
Only the syntax tree is read: whitespace, comments, quote style and line breaks are immaterial.
"""
from __future__ import annotations

import ast
import re
from pathlib import Path


class SpecError(Exception):
    pass


def need(cond, msg):
    if not cond:
        raise SpecError(msg)


def U(node) -> str:
    return ast.unparse(node)


# dtype names the Lean model knows (Driver/C08.lean parseDtype?) -> constructor
LEAN_DTYPE = {
    "xyz": "xyz", "xyz+": "xyzp", "cfour": "cfour", "gamess": "gamess", "molpro": "molpro", "nwchem": "nwchem", "orca": "orca",
    "psi4": "psi4", "qchem": "qchem", "terachem": "terachem", "turbomole": "turbomole", "madness": "madness", "mrchem": "mrchem",
    "nglview-sdf": "sdf",
}

# value expressions (normalised by ast.unparse) that may fill a hole of a text line
HOLE_EXPR = {
    "int(molrec['molecular_charge'])": "chgInt",
    "molrec['molecular_charge']": "chgFloat",
    "molrec['molecular_multiplicity']": "mult",
    "molrec['molecular_multiplicity'] - 1": "multM1",
    "name": "name",
    "tagline": "tagline",
    "len(atoms)": "nat",
    "umap.get(units.lower(), units.lower())": "unitGetSelf",
    "umap.get(units.lower())": "unitGet",
    "umap[units.lower()]": "unitIdx",
    "molrec['fix_com']": "fixCom",
    "int(molrec['fragment_charges'][ifr])": "fragChg",
    "molrec['fragment_multiplicities'][ifr]": "fragMult",
}
UNIT_HOLES = {"unitGetSelf": "getSelf", "unitGet": "get", "unitIdx": "idx"}

KW_EXPR = {
    "int(molrec['molecular_charge'])": "chgInt",
    "molrec['molecular_multiplicity']": "mult",
    "molrec['molecular_multiplicity'] - 1": "multM1",
    "umap.get(units.lower())": "unitGet",
    "umap[units.lower()]": "unitIdx",
    "molrec['fix_com']": "fixCom",
    "molrec['fix_orientation'] or molrec['fix_com']": "fixOrientOrCom",
}

# pairs (if-condition, elif-condition) that can never hold together, so that `if A: .. elif B: ..` = `if A: ..; if B: ..`
EXCLUSIVE = {("symEq", "symAbsent")}


class Branch:
    def __init__(self, names, node):
        self.names = names
        self.node = node
        self.env = {}
        self.umap = None
        self.access = set()  # how umap is read
        self.silent_idx = False  # bare `umap[units.lower()]` statement
        self.items = None  # the line program
        self.fields = []
        self.kws = []  # (cond, key, expr)
        self.sdf = None
        self.guard = None  # (unit word, exception name) of a fixed-unit branch


class Tr:
    def __init__(self, path: Path):
        self.path = path
        self.rel = "qcelemental/molparse/to_string.py"
        try:
            self.text = path.read_text()
            self.tree = ast.parse(self.text)
        except (OSError, SyntaxError) as e:
            raise SpecError(f"{self.rel}: cannot read/parse ({e})")

    def where(self, node):
        return f"{self.rel}:{getattr(node, 'lineno', '?')}"

    def func(self, name):
        hits = [n for n in self.tree.body if isinstance(n, ast.FunctionDef) and n.name == name]
        need(len(hits) == 1, f"{self.rel}: expected one function `{name}`, found {len(hits)}")
        return hits[0]

    # ---------------------------------------------------------------- conditions
    def cond(self, node, b: Branch):
        u = U(node)
        if u == "molrec['fix_orientation'] or molrec['fix_com']":
            return ("fixOrientOrCom",)
        if u == "molrec['fix_com']":
            return ("fixCom",)
        if u == "molrec['fix_orientation']":
            return ("fixOrient",)
        if u == "False in molrec['real']":
            return ("hasGhost",)
        if u == "'fix_symmetry' not in molrec.keys()":
            return ("symAbsent",)
        if isinstance(node, ast.BoolOp) and isinstance(node.op, ast.And) and len(node.values) == 2 and U(node.values[0]) == "'fix_symmetry' in molrec.keys()":
            c = node.values[1]
            if isinstance(c, ast.Compare) and len(c.ops) == 1 and isinstance(c.ops[0], ast.Eq) and U(c.left) == "molrec['fix_symmetry']" \
                    and isinstance(c.comparators[0], ast.Constant) and isinstance(c.comparators[0].value, str):
                return ("symEq", c.comparators[0].value)
        if isinstance(node, ast.Compare) and len(node.ops) == 1 and isinstance(node.ops[0], ast.NotEq) and U(node.left) == "molrec['molecular_multiplicity']" \
                and isinstance(node.comparators[0], ast.Constant) and type(node.comparators[0].value) is int:
            return ("multNe", node.comparators[0].value)
        if isinstance(node, ast.Name) and isinstance(b.env.get(node.id), tuple) and b.env[node.id][0] == "symRaw":
            return ("symTruthy",)
        if isinstance(node, ast.Compare) and len(node.ops) == 1 and isinstance(node.ops[0], ast.NotEq) and isinstance(node.left, ast.Call) \
                and isinstance(node.left.func, ast.Attribute) and node.left.func.attr == "upper" and not node.left.args \
                and isinstance(node.left.func.value, ast.Name) and isinstance(b.env.get(node.left.func.value.id), tuple) \
                and b.env[node.left.func.value.id][0] == "symStrip" and isinstance(node.comparators[0], ast.Constant) and isinstance(node.comparators[0].value, str):
            return ("symStripUpperNe", b.env[node.left.func.value.id][1], node.comparators[0].value)
        raise SpecError(f"{self.where(node)}: condition `{u}` not recognised")

    # ---------------------------------------------------------------- string templates
    def hole(self, node, b: Branch):
        """segments for a value placed into a text line"""
        if isinstance(node, ast.Name) and node.id in b.env:
            v = b.env[node.id]
            if isinstance(v, list):
                return list(v)
            if isinstance(v, tuple) and v[0] == "symRaw":
                return [("hole", "fixSym")]
            if isinstance(v, tuple) and v[0] == "symStrip":
                return [("hole", "fixSymStripOr", v[1])]
            if v == "NAT":
                return [("hole", "nat")]
        u = U(node)
        if u == "str(nat)" and b.env.get("nat") == "NAT":
            return [("hole", "nat")]
        if u in HOLE_EXPR:
            h = HOLE_EXPR[u]
            if h in UNIT_HOLES:
                need(b.umap is not None, f"{self.where(node)}: `{u}` before `umap` is assigned")
                b.access.add(UNIT_HOLES[h])
                return [("hole", "unit")]
            return [("hole", h)]
        raise SpecError(f"{self.where(node)}: value `{u}` in a text line not recognised")

    def sx(self, node, b: Branch):
        """a string expression -> list of segments"""
        if isinstance(node, ast.Constant) and isinstance(node.value, str):
            return [("lit", node.value)] if node.value else []
        if isinstance(node, ast.JoinedStr):
            out = []
            for v in node.values:
                if isinstance(v, ast.Constant) and isinstance(v.value, str):
                    out.append(("lit", v.value))
                elif isinstance(v, ast.FormattedValue):
                    need(v.conversion == -1 and v.format_spec is None, f"{self.where(node)}: f-string field `{U(v)}` has a conversion / format spec")
                    out += self.hole(v.value, b)
                else:
                    raise SpecError(f"{self.where(node)}: f-string part `{U(v)}`")
            return out
        if isinstance(node, ast.Call) and isinstance(node.func, ast.Attribute) and node.func.attr == "format" and isinstance(node.func.value, ast.Constant) \
                and isinstance(node.func.value.value, str) and not node.keywords:
            tpl = node.func.value.value
            parts = tpl.split("{}")
            need("{" not in "".join(parts) and "}" not in "".join(parts), f"{self.where(node)}: `.format` template {tpl!r} has fields other than {{}}")
            need(len(parts) == len(node.args) + 1, f"{self.where(node)}: `.format` template {tpl!r} with {len(node.args)} arguments")
            out = []
            for i, p in enumerate(parts):
                if p:
                    out.append(("lit", p))
                if i < len(node.args):
                    out += self.hole(node.args[i], b)
            return out
        if isinstance(node, ast.Name):
            need(isinstance(b.env.get(node.id), list) or node.id in ("name", "tagline"), f"{self.where(node)}: `{node.id}` is not a text known here")
            return self.hole(node, b)
        if U(node) in HOLE_EXPR and HOLE_EXPR[U(node)] in UNIT_HOLES:
            return self.hole(node, b)  # the unit word itself is the line (orca)
        raise SpecError(f"{self.where(node)}: text expression `{U(node)}` not recognised")

    def line(self, node, b: Branch, cond):
        """one element appended to smol -> item"""
        if isinstance(node, ast.Call) and isinstance(node.func, ast.Attribute) and node.func.attr == "rstrip" and not node.args and not node.keywords:
            return ("line", cond, True, self.sx(node.func.value, b))
        return ("line", cond, False, self.sx(node, b))

    def seq(self, node, b: Branch, cond):
        """a list-valued expression making (part of) smol -> items"""
        if isinstance(node, ast.List):
            return [self.line(e, b, cond) for e in node.elts]
        if isinstance(node, ast.Name) and node.id == "atoms":
            need(b.env.get("atoms") in ("ATOMS", "ATOMS_LOWER"), f"{self.where(node)}: `atoms` is not the formatter's list here")
            need(cond == ("always",), f"{self.where(node)}: atom block under a condition")
            return [("atoms",) if b.env["atoms"] == "ATOMS" else ("atomsLower",)]
        if isinstance(node, ast.BinOp) and isinstance(node.op, ast.Add):
            return self.seq(node.left, b, cond) + self.seq(node.right, b, cond)
        raise SpecError(f"{self.where(node)}: list expression `{U(node)}` not recognised")

    # ---------------------------------------------------------------- keywords
    def kwexpr(self, node, b: Branch):
        if isinstance(node, ast.Constant):
            if isinstance(node.value, bool):
                return ("bool", node.value)
            if isinstance(node.value, str):
                return ("str", node.value)
        u = U(node)
        if u in KW_EXPR:
            k = KW_EXPR[u]
            if k in ("unitGet", "unitIdx"):
                need(b.umap is not None, f"{self.where(node)}: `{u}` before `umap`")
                b.access.add({"unitGet": "get", "unitIdx": "idx"}[k])
            return (k,)
        if isinstance(node, ast.Call) and isinstance(node.func, ast.Attribute) and node.func.attr == "join" and isinstance(node.func.value, ast.Constant) \
                and isinstance(node.func.value.value, str) and len(node.args) == 1 and U(node.args[0]) == "atoms" and b.env.get("atoms") == "ATOMS":
            return ("coords", node.func.value.value)
        raise SpecError(f"{self.where(node)}: keyword value `{u}` not recognised")

    def add_kw(self, b: Branch, cond, key, expr, node):
        need(all(k != key for _, k, _ in b.kws), f"{self.where(node)}: keyword `{key}` written twice in one branch")
        b.kws.append((cond, key, expr))

    # ---------------------------------------------------------------- statements
    def stmt(self, st, b: Branch, cond=("always",)):
        top = cond == ("always",)
        # --- assignments to names
        if isinstance(st, ast.Assign) and len(st.targets) == 1 and isinstance(st.targets[0], ast.Name):
            nm, v = st.targets[0].id, st.value
            if nm in ("atom_format", "ghost_format"):
                need(top, f"{self.where(st)}: {nm} assigned under a condition")
                return  # tied by consttie (formats_match_source)
            if nm == "umap":
                need(top and isinstance(v, ast.Dict) and b.umap is None, f"{self.where(st)}: `umap` must be one dict literal")
                ks, vs = [], []
                for k, x in zip(v.keys, v.values):
                    need(isinstance(k, ast.Constant) and isinstance(k.value, str) and isinstance(x, ast.Constant) and isinstance(x.value, str),
                         f"{self.where(st)}: `umap` entries must be string literals")
                    ks.append(k.value)
                    vs.append(x.value)
                need(len(set(ks)) == len(ks), f"{self.where(st)}: `umap` repeats a key")
                b.umap = list(zip(ks, vs))
                return
            if nm == "atoms":
                need(top, f"{self.where(st)}: atoms assigned under a condition")
                if isinstance(v, ast.Call) and U(v.func) == "_atoms_formatter":
                    need(b.env.get("atoms") is None, f"{self.where(st)}: atoms formatted twice")
                    b.env["atoms"] = "ATOMS"
                    return
                if U(v) == "[at.lower() for at in atoms]" and b.env.get("atoms") == "ATOMS":
                    b.env["atoms"] = "ATOMS_LOWER"
                    return
                raise SpecError(f"{self.where(st)}: `atoms = {U(v)}` not recognised")
            if nm == "nat":
                need(top and U(v) == "len(atoms)" and b.env.get("atoms") == "ATOMS", f"{self.where(st)}: `nat = {U(v)}`")
                b.env["nat"] = "NAT"
                return
            if nm == "split_atoms":
                need(top and U(v) == "np.split(atoms, molrec['fragment_separators'])" and b.env.get("atoms") == "ATOMS", f"{self.where(st)}: `split_atoms = {U(v)}`")
                b.env["split_atoms"] = "SPLIT"
                return
            if nm == "fix_symm":
                need(top, f"{self.where(st)}: fix_symm under a condition")
                if U(v) == "molrec.get('fix_symmetry', None)":
                    b.env[nm] = ("symRaw",)
                    return
                if isinstance(v, ast.Call) and isinstance(v.func, ast.Attribute) and v.func.attr == "strip" and not v.args and isinstance(v.func.value, ast.Call) \
                        and U(v.func.value.func) == "molrec.get" and len(v.func.value.args) == 2 and U(v.func.value.args[0]) == "'fix_symmetry'" \
                        and isinstance(v.func.value.args[1], ast.Constant) and isinstance(v.func.value.args[1].value, str):
                    b.env[nm] = ("symStrip", v.func.value.args[1].value)
                    return
                raise SpecError(f"{self.where(st)}: `fix_symm = {U(v)}` not recognised")
            if nm == "smol":
                need(top and b.items is None, f"{self.where(st)}: smol assigned twice / under a condition")
                b.items = self.seq(v, b, cond)
                return
            # a text variable
            segs = self.sx(v, b)
            if top:
                b.env[nm] = segs
            else:
                # `x = ""` before, `if c: x = <text>`  ->  the text, present only under c
                need(b.env.get(nm) == [], f"{self.where(st)}: conditional assignment to `{nm}` whose earlier value is not the empty string")
                b.env[nm] = [self.opt(cond, s, st) for s in segs]
            return
        if isinstance(st, ast.AugAssign) and isinstance(st.op, ast.Add) and isinstance(st.target, ast.Name) and isinstance(b.env.get(st.target.id), list):
            segs = self.sx(st.value, b)
            b.env[st.target.id] = b.env[st.target.id] + (segs if top else [self.opt(cond, s, st) for s in segs])
            return
        # --- data.keywords
        if isinstance(st, ast.Assign) and len(st.targets) == 1 and U(st.targets[0]) == "data.keywords":
            need(top and isinstance(st.value, ast.Dict) and not b.kws, f"{self.where(st)}: `data.keywords = …` must be one dict literal, once")
            for k, x in zip(st.value.keys, st.value.values):
                need(isinstance(k, ast.Constant) and isinstance(k.value, str), f"{self.where(st)}: keyword key `{U(k)}`")
                self.add_kw(b, cond, k.value, self.kwexpr(x, b), st)
            return
        if isinstance(st, ast.Assign) and len(st.targets) == 1 and isinstance(st.targets[0], ast.Subscript) and U(st.targets[0].value) == "data.keywords":
            k = st.targets[0].slice
            need(isinstance(k, ast.Constant) and isinstance(k.value, str), f"{self.where(st)}: keyword key `{U(k)}`")
            self.add_kw(b, cond, k.value, self.kwexpr(st.value, b), st)
            return
        # --- expression statements
        if isinstance(st, ast.Expr):
            e = st.value
            if isinstance(e, ast.Constant) and isinstance(e.value, str):
                return  # a docstring-like bare string
            if U(e) == "umap[units.lower()]":
                need(top and b.umap is not None, f"{self.where(st)}: bare umap lookup")
                b.access.add("idx")
                b.silent_idx = True
                return
            if isinstance(e, ast.Call) and isinstance(e.func, ast.Attribute) and len(e.args) == 1 and not e.keywords:
                tgt, meth, arg = U(e.func.value), e.func.attr, e.args[0]
                if tgt == "smol" and meth == "append":
                    need(b.items is not None, f"{self.where(st)}: smol.append before smol exists")
                    b.items.append(self.line(arg, b, cond))
                    return
                if tgt == "smol" and meth == "extend":
                    need(b.items is not None, f"{self.where(st)}: smol.extend before smol exists")
                    b.items += self.seq(arg, b, cond)
                    return
                if tgt == "data.fields" and meth == "extend":
                    need(top and isinstance(arg, ast.List) and all(isinstance(x, ast.Constant) and isinstance(x.value, str) for x in arg.elts) and not b.fields,
                         f"{self.where(st)}: data.fields.extend must be given one list of string literals, once")
                    b.fields = [x.value for x in arg.elts]
                    return
            raise SpecError(f"{self.where(st)}: statement `{U(st)}` not recognised")
        # --- conditionals
        if isinstance(st, ast.If):
            need(top, f"{self.where(st)}: nested condition")
            c = self.cond(st.test, b)
            if c == ("hasGhost",):
                self.molpro_dummy(st, b, c)
                return
            for s in st.body:
                self.stmt(s, b, c)
            if st.orelse:
                need(len(st.orelse) == 1 and isinstance(st.orelse[0], ast.If) and not st.orelse[0].orelse, f"{self.where(st)}: `else` branch not recognised")
                c2 = self.cond(st.orelse[0].test, b)
                need((c[0], c2[0]) in EXCLUSIVE, f"{self.where(st)}: if/elif conditions {c} / {c2} are not known to exclude each other")
                for s in st.orelse[0].body:
                    self.stmt(s, b, c2)
            return
        # --- the fragment loop
        if isinstance(st, ast.For):
            need(top, f"{self.where(st)}: loop under a condition")
            self.frag_loop(st, b)
            return
        raise SpecError(f"{self.where(st)}: statement `{U(st)}` not recognised")

    def opt(self, cond, seg, st):
        if seg[0] == "lit":
            return ("optlit", cond, seg[1])
        if seg[0] == "hole":
            return ("opthole", cond) + tuple(seg[1:])
        raise SpecError(f"{self.where(st)}: a conditional text inside a conditional text")

    def molpro_dummy(self, st, b, c):
        """if False in molrec["real"]: ghost_line = PRE + SEP.join([str(idx + 1) for idx, real in enumerate(molrec["real"]) if not real]); smol.append(ghost_line)"""
        need(len(st.body) == 2 and not st.orelse, f"{self.where(st)}: ghost-card block shape")
        a, ap = st.body
        ok = isinstance(a, ast.Assign) and len(a.targets) == 1 and isinstance(a.targets[0], ast.Name) and isinstance(a.value, ast.BinOp) and isinstance(a.value.op, ast.Add) \
            and isinstance(a.value.left, ast.Constant) and isinstance(a.value.left.value, str) and isinstance(a.value.right, ast.Call) \
            and isinstance(a.value.right.func, ast.Attribute) and a.value.right.func.attr == "join" and isinstance(a.value.right.func.value, ast.Constant) \
            and isinstance(a.value.right.func.value.value, str) and len(a.value.right.args) == 1 \
            and U(a.value.right.args[0]) == "[str(idx + 1) for idx, real in enumerate(molrec['real']) if not real]"
        need(ok, f"{self.where(a)}: ghost card `{U(a)}` not recognised")
        need(U(ap) == f"smol.append({a.targets[0].id})" and b.items is not None, f"{self.where(ap)}: ghost card must be appended to smol")
        b.items.append(("dummy", c, a.value.left.value, a.value.right.func.value.value))

    def frag_loop(self, st, b):
        need(U(st.target) in ("(ifr, fr)", "ifr, fr") and U(st.iter) == "enumerate(split_atoms)" and b.env.get("split_atoms") == "SPLIT" and not st.orelse
             and len(st.body) == 2, f"{self.where(st)}: loop `{U(st).splitlines()[0]}` not recognised")
        i, ex = st.body
        need(isinstance(i, ast.If) and U(i.test) == "len(split_atoms) > 1" and not i.orelse and len(i.body) == 1, f"{self.where(i)}: fragment-header condition")
        e = i.body[0]
        need(isinstance(e, ast.Expr) and isinstance(e.value, ast.Call) and U(e.value.func) == "smol.extend" and len(e.value.args) == 1
             and isinstance(e.value.args[0], ast.List) and len(e.value.args[0].elts) == 2, f"{self.where(e)}: fragment header must be smol.extend([sep, line])")
        sep, ln = e.value.args[0].elts
        need(isinstance(sep, ast.Constant) and isinstance(sep.value, str), f"{self.where(e)}: fragment separator must be a string literal")
        need(U(ex) == "smol.extend(fr.tolist())", f"{self.where(ex)}: fragment body must be smol.extend(fr.tolist())")
        need(b.items is not None, f"{self.where(st)}: fragment loop before smol exists")
        b.items.append(("frags", sep.value, self.sx(ln, b)))

    # ---------------------------------------------------------------- the SDF branch (formats its own lines)
    def fparts(self, node):
        need(isinstance(node, ast.JoinedStr), f"{self.where(node)}: expected an f-string, found `{U(node)}`")
        out = []
        for v in node.values:
            if isinstance(v, ast.Constant):
                out.append(("lit", v.value))
            else:
                need(isinstance(v, ast.FormattedValue) and v.conversion == -1, f"{self.where(node)}: f-string field")
                spec = ""
                if v.format_spec is not None:
                    need(all(isinstance(x, ast.Constant) for x in v.format_spec.values), f"{self.where(node)}: computed format spec")
                    spec = "".join(x.value for x in v.format_spec.values)
                out.append(("fmt", U(v.value), spec))
        return out

    def sdf_branch(self, b: Branch):
        body = list(b.node.body)
        need(len(body) == 10, f"{self.where(b.node)}: the nglview-sdf branch has {len(body)} statements, expected 10")
        g, gf, c0, c1, s0, s1, s2, s3, fa, fb = body
        ok = isinstance(g, ast.If) and isinstance(g.test, ast.Compare) and U(g.test.left) == "units.capitalize()" and isinstance(g.test.ops[0], ast.NotEq) \
            and isinstance(g.test.comparators[0], ast.Constant) and len(g.body) == 1 and isinstance(g.body[0], ast.Raise) and not g.orelse \
            and isinstance(g.body[0].exc, ast.Call) and isinstance(g.body[0].exc.func, ast.Name)
        need(ok, f"{self.where(g)}: SDF unit guard not recognised")
        b.guard = (g.test.comparators[0].value, g.body[0].exc.func.id)
        need(U(gf).startswith("ghost_format = ghost_format or "), f"{self.where(gf)}: SDF ghost word")
        need(U(c0) == "connectivity = molrec.get('connectivity', None)", f"{self.where(c0)}: SDF connectivity")
        need(isinstance(c1, ast.If) and U(c1.test) == "connectivity is None" and not c1.orelse and len(c1.body) == 2
             and U(c1.body[1]) == "connectivity = guess_connectivity(molrec['elem'], bohr_geom, default_connectivity=1)"
             and U(c1.body[0]) == "bohr_geom = geom * constants.conversion_factor('Angstrom', 'Bohr')", f"{self.where(c1)}: SDF guessed bonds")
        need(U(s0) == "smol = []", f"{self.where(s0)}: SDF smol")
        heads = []
        for s in (s1, s2):
            need(isinstance(s, ast.Expr) and isinstance(s.value, ast.Call) and U(s.value.func) == "smol.append" and isinstance(s.value.args[0], ast.Constant)
                 and isinstance(s.value.args[0].value, str), f"{self.where(s)}: SDF header line")
            heads.append(s.value.args[0].value)
        need(isinstance(s3, ast.Expr) and isinstance(s3.value, ast.Call) and U(s3.value.func) == "smol.append", f"{self.where(s3)}: SDF counts line")
        cp = self.fparts(s3.value.args[0])
        need(len(cp) == 4 and cp[0][:2] == ("fmt", "len(molrec['real'])") and cp[1][0] == "lit" and cp[2][:2] == ("fmt", "len(connectivity)") and cp[3][0] == "lit",
             f"{self.where(s3)}: SDF counts line `{U(s3)}`")

        def dspec(s, what):
            m = re.fullmatch(r"(\d+)d", s)
            need(m is not None, f"{self.rel}: SDF {what}: format spec {s!r} is not <width>d")
            return int(m.group(1))

        need(isinstance(fa, ast.For) and U(fa.target) == "(real, sym, xyz)" and U(fa.iter) == "zip(molrec['real'], molrec['elem'], geom)" and len(fa.body) == 2
             and U(fa.body[0]) == "if bool(real) is False:\n    sym = ghost_format", f"{self.where(fa)}: SDF atom loop")
        ap = fa.body[1]
        need(isinstance(ap, ast.Expr) and isinstance(ap.value, ast.Call) and U(ap.value.func) == "smol.append", f"{self.where(ap)}: SDF atom line")
        a = self.fparts(ap.value.args[0])
        need(len(a) == 5 and [x[1] for x in a[:4]] == ["xyz[0]", "xyz[1]", "xyz[2]", "sym"] and a[4][0] == "lit" and len({x[2] for x in a[:3]}) == 1,
             f"{self.where(ap)}: SDF atom line `{U(ap)}`")
        m = re.fullmatch(r"(\d+)\.(\d+)f", a[0][2])
        need(m is not None, f"{self.where(ap)}: SDF coordinate spec {a[0][2]!r}")
        ms = re.fullmatch(r">(\d+)s", a[3][2])
        need(ms is not None, f"{self.where(ap)}: SDF symbol spec {a[3][2]!r}")
        need(isinstance(fb, ast.For) and U(fb.target) == "(a1, a2, b)" and U(fb.iter) == "connectivity" and len(fb.body) == 1, f"{self.where(fb)}: SDF bond loop")
        bp = fb.body[0]
        need(isinstance(bp, ast.Expr) and isinstance(bp.value, ast.Call) and U(bp.value.func) == "smol.append", f"{self.where(bp)}: SDF bond line")
        q = self.fparts(bp.value.args[0])
        need(len(q) == 7 and [x[0] for x in q] == ["lit", "fmt", "lit", "fmt", "lit", "fmt", "lit"] and [q[1][1], q[3][1], q[5][1]] == ["a1 + 1", "a2 + 1", "int(b)"],
             f"{self.where(bp)}: SDF bond line `{U(bp)}`")
        b.sdf = {
            "head": heads,
            "cntW1": dspec(cp[0][2], "atom count"), "cntSep": cp[1][1], "cntW2": dspec(cp[2][2], "bond count"), "cntTail": cp[3][1],
            "coordW": int(m.group(1)), "coordPrec": int(m.group(2)), "symW": int(ms.group(1)), "atomTail": a[4][1],
            "bondPre": q[0][1], "bondW1": dspec(q[1][2], "bond a1"), "bondSep1": q[2][1], "bondW2": dspec(q[3][2], "bond a2"), "bondSep2": q[4][1],
            "bondW3": dspec(q[5][2], "bond order"), "bondTail": q[6][1],
        }
        b.items = [("line", ("always",), False, [("lit", h)] if h else []) for h in heads] + [("sdfCounts",), ("atoms",), ("sdfBonds",)]

    # ---------------------------------------------------------------- whole function
    def factor_chain(self, fn):
        """the `if molrec["units"] == … and units.capitalize() == …: factor = …` chain -> rows (stored, target, expr), else-expr"""
        chains = [s for s in fn.body if isinstance(s, ast.If) and U(s.test).startswith("molrec['units'] ==")]
        need(len(chains) == 1, f"{self.rel}: expected one factor-selection chain, found {len(chains)}")
        node = chains[0]
        rows = []

        def fexpr(body, where):
            need(len(body) == 1, f"{where}: factor branch has {len(body)} statements")
            s = body[0]
            if isinstance(s, ast.Assign) and U(s.targets[0]) == "factor":
                u = U(s.value)
                tbl = {"1.0": "one", "constants.bohr2angstroms": "b2a", "1.0 / constants.bohr2angstroms": "invB2A", "molrec['input_units_to_au']": "pinned",
                       "constants.conversion_factor(molrec['units'], units)": "conv"}
                need(u in tbl, f"{where}: factor expression `{u}` not recognised")
                return (tbl[u],)
            if isinstance(s, ast.If) and U(s.test) == "'input_units_to_au' in molrec" and len(s.orelse) >= 1:
                a, c = fexpr(s.body, where), fexpr(s.orelse, where)
                need(len(a) == 1 and len(c) == 1, f"{where}: nested pinned test")
                return ("ifPinned", a[0], c[0])
            raise SpecError(f"{where}: factor branch `{U(s)}` not recognised")

        while True:
            t = node.test
            ok = isinstance(t, ast.BoolOp) and isinstance(t.op, ast.And) and len(t.values) == 2 and all(isinstance(x, ast.Compare) and len(x.ops) == 1 and isinstance(x.ops[0], ast.Eq)
                                                                                                            and isinstance(x.comparators[0], ast.Constant) for x in t.values) \
                and U(t.values[0].left) == "molrec['units']" and U(t.values[1].left) == "units.capitalize()"
            need(ok, f"{self.where(node)}: factor test `{U(t)}` not recognised")
            rows.append((t.values[0].comparators[0].value, t.values[1].comparators[0].value, fexpr(node.body, self.where(node))))
            if len(node.orelse) == 1 and isinstance(node.orelse[0], ast.If):
                node = node.orelse[0]
            else:
                els = fexpr(node.orelse, self.where(node))
                break
        return rows, els

    def run(self):
        fn = self.func("to_string")
        spec = {}
        # tagline, base fields
        tl = [s for s in fn.body if isinstance(s, ast.Assign) and U(s.targets[0]) == "tagline"]
        need(len(tl) == 1 and isinstance(tl[0].value, ast.Call) and U(tl[0].value.func).endswith(".format") and isinstance(tl[0].value.func.value, ast.Constant)
             and [U(a) for a in tl[0].value.args] == ["name"] and tl[0].value.func.value.value.endswith("{}") and tl[0].value.func.value.value.count("{") == 1,
             f"{self.rel}: `tagline = \"…{{}}\".format(name)` not found")
        spec["tagline"] = tl[0].value.func.value.value[:-2]
        nm = [s for s in fn.body if isinstance(s, ast.Assign) and U(s.targets[0]) == "name"]
        need(len(nm) == 1 and U(nm[0].value) == "molrec.get('name', formula_generator(molrec['elem']))", f"{self.rel}: `name = molrec.get('name', formula_generator(...))` not found")
        dc = [s for s in fn.body if isinstance(s, ast.ClassDef) and s.name == "Data"]
        need(len(dc) == 1, f"{self.rel}: class Data not found")
        base = None
        for s in dc[0].body:
            if isinstance(s, ast.AnnAssign) and U(s.target) == "fields":
                need(isinstance(s.value, ast.List) and all(isinstance(x, ast.Constant) and isinstance(x.value, str) for x in s.value.elts), f"{self.where(s)}: Data.fields")
                base = [x.value for x in s.value.elts]
            if isinstance(s, ast.AnnAssign) and U(s.target) == "keywords":
                need(U(s.value) == "{}", f"{self.where(s)}: Data.keywords must start empty")
        need(base is not None, f"{self.rel}: Data.fields not found")
        spec["baseFields"] = base
        need(any(U(s) == "dtype = dtype.lower()" for s in fn.body), f"{self.rel}: `dtype = dtype.lower()` not found")
        ret = [s for s in fn.body if isinstance(s, ast.Assign) and U(s.targets[0]) == "smol_ret"]
        need(len(ret) == 1 and isinstance(ret[0].value, ast.BinOp) and isinstance(ret[0].value.right, ast.Constant) and isinstance(ret[0].value.left, ast.Call)
             and isinstance(ret[0].value.left.func, ast.Attribute) and ret[0].value.left.func.attr == "join" and isinstance(ret[0].value.left.func.value, ast.Constant)
             and U(ret[0].value.left.args[0]) == "smol", f"{self.rel}: `smol_ret = SEP.join(smol) + END` not found")
        spec["join"] = (ret[0].value.left.func.value.value, ret[0].value.right.value)
        spec["factorRows"], spec["factorElse"] = self.factor_chain(fn)
        # the dtype chain
        top = [s for s in fn.body if isinstance(s, ast.If) and isinstance(s.test, ast.Compare) and U(s.test.left) == "dtype" and isinstance(s.test.ops[0], (ast.In, ast.Eq))]
        need(len(top) == 1, f"{self.rel}: expected one `if dtype in […] / elif dtype == …` chain, found {len(top)}")
        node = top[0]
        branches = []
        while True:
            t = node.test
            need(isinstance(t, ast.Compare) and U(t.left) == "dtype" and len(t.ops) == 1, f"{self.where(node)}: branch test `{U(t)}`")
            r = t.comparators[0]
            if isinstance(t.ops[0], ast.In):
                need(isinstance(r, ast.List) and all(isinstance(x, ast.Constant) and isinstance(x.value, str) for x in r.elts), f"{self.where(node)}: branch test `{U(t)}`")
                names = [x.value for x in r.elts]
            else:
                need(isinstance(t.ops[0], ast.Eq) and isinstance(r, ast.Constant) and isinstance(r.value, str), f"{self.where(node)}: branch test `{U(t)}`")
                names = [r.value]
            for n in names:
                need(n in LEAN_DTYPE, f"{self.where(node)}: dtype `{n}` is in the source but not in the model (Model/ToString.lean Dtype) - a program was added")
            b = Branch(names, node)
            if names == ["nglview-sdf"]:
                self.sdf_branch(b)
            else:
                for st in node.body:
                    self.stmt(st, b)
                need(b.items is not None, f"{self.where(node)}: branch {names} never builds smol")
                need(sum(1 for i in b.items if i[0] in ("atoms", "atomsLower", "frags")) == 1, f"{self.where(node)}: branch {names}: the atom block must be written exactly once")
                need(len(b.access) <= 1 or (b.access == {"idx"}), f"{self.where(node)}: branch {names} reads umap in more than one way: {sorted(b.access)}")
                need((b.umap is None) == (not b.access), f"{self.where(node)}: branch {names}: umap defined but never read, or read but never defined")
            branches.append(b)
            if len(node.orelse) == 1 and isinstance(node.orelse[0], ast.If):
                node = node.orelse[0]
            else:
                need(len(node.orelse) == 1 and isinstance(node.orelse[0], ast.Raise), f"{self.where(node)}: the chain must end in `else: raise`")
                break
        seen = [n for b in branches for n in b.names]
        need(len(seen) == len(set(seen)), f"{self.rel}: a dtype has two branches")
        need(set(seen) == set(LEAN_DTYPE), f"{self.rel}: dtypes of the model without a branch in the source: {sorted(set(LEAN_DTYPE) - set(seen))}")
        spec["branches"] = branches
        # _atoms_formatter
        af = self.func("_atoms_formatter")
        need([a.arg for a in af.args.args] == ["molrec", "geom", "atom_format", "ghost_format", "width", "prec", "sp", "xyze"], f"{self.rel}: _atoms_formatter signature")
        lits = {}
        for s in ast.walk(af):
            if isinstance(s, ast.Assign) and len(s.targets) == 1 and isinstance(s.targets[0], ast.Name):
                if s.targets[0].id == "fxyz":
                    need(isinstance(s.value, ast.Constant) and isinstance(s.value.value, str), f"{self.where(s)}: fxyz must be a string literal")
                    lits["fxyz"] = s.value.value
                if s.targets[0].id == "sp":
                    need(isinstance(s.value, ast.Call) and isinstance(s.value.func, ast.Attribute) and s.value.func.attr == "format" and isinstance(s.value.func.value, ast.Constant)
                         and U(s.value.args[0]) == "''" and [k.arg for k in s.value.keywords] == ["sp"] and U(s.value.keywords[0].value) == "sp", f"{self.where(s)}: `sp = \"{{:{{sp}}}}\".format(\"\", sp=sp)`")
                    lits["sp"] = s.value.func.value.value
                if s.targets[0].id == "nuc":
                    need(isinstance(s.value, ast.Call) and isinstance(s.value.func, ast.Attribute) and s.value.func.attr == "format" and isinstance(s.value.func.value, ast.Constant)
                         and [k.arg for k in s.value.keywords] == ["width"] and U(s.value.keywords[0].value) == "width"
                         and U(s.value.args[0]) in ("atom_format.format(**atominfo)", "ghost_format.format(**atominfo)"), f"{self.where(s)}: nuc = … not recognised")
                    need(lits.setdefault("nuc", s.value.func.value.value) == s.value.func.value.value, f"{self.where(s)}: real and ghost labels are padded differently")
        need(set(lits) == {"fxyz", "sp", "nuc"}, f"{self.rel}: _atoms_formatter: format-spec literals found: {sorted(lits)}")
        src = U(af)
        need("atom.extend([fxyz.format(x, width=width, prec=prec) for x in geom[iat]])" in src, f"{self.rel}: _atoms_formatter: coordinate formatting call not recognised")
        need(any(isinstance(s, ast.If) and U(s.test) == "xyze" and not s.orelse and [U(x) for x in s.body] == ["atom.append(atom.pop(0).rstrip())"] for s in ast.walk(af)),
             f"{self.rel}: _atoms_formatter: xyze handling not recognised")
        need("atoms.append(sp.join(atom))" in src, f"{self.rel}: _atoms_formatter: join not recognised")
        ai = [s for s in ast.walk(af) if isinstance(s, ast.Assign) and U(s.targets[0]) == "atominfo"]
        need(len(ai) == 1 and isinstance(ai[0].value, ast.Dict), f"{self.rel}: atominfo dict")
        spec["atominfo"] = [k.value for k in ai[0].value.keys]
        need(U(ai[0].value.values[0]) == "'' if molrec['elea'][iat] == -1 else molrec['elea'][iat]", f"{self.rel}: atominfo['elea']")
        # the separator width each branch passes is checked by consttie (argument list … '2')
        spec["fmt"] = lits
        spec["fnDefaults"] = self.defaults(fn, skip=1)
        return spec

    def defaults(self, fn, skip):
        """(argument, default as source text) of every argument after the first `skip`, '' = no default"""
        a = fn.args
        pos = a.posonlyargs + a.args
        d = {}
        for arg, dv in zip(pos[len(pos) - len(a.defaults):], a.defaults):
            d[arg.arg] = U(dv)
        for arg, dv in zip(a.kwonlyargs, a.kw_defaults):
            if dv is not None:
                d[arg.arg] = U(dv)
        need(a.vararg is None and a.kwarg is None, f"{self.rel}: `{fn.name}` takes *args/**kwargs")
        return [(x.arg, d.get(x.arg, "")) for x in (pos + a.kwonlyargs)[skip:]]


def molecule_route(path: Path):
    """`Molecule.to_string`: argument defaults, the molrec it builds and how the options are forwarded"""
    rel = "qcelemental/models/molecule.py"
    try:
        tree = ast.parse(path.read_text())
    except (OSError, SyntaxError) as e:
        raise SpecError(f"{rel}: cannot read/parse ({e})")
    cls = [n for n in tree.body if isinstance(n, ast.ClassDef) and n.name == "Molecule"]
    need(len(cls) == 1, f"{rel}: class Molecule not found")
    fns = [n for n in cls[0].body if isinstance(n, ast.FunctionDef) and n.name == "to_string"]
    need(len(fns) == 1, f"{rel}: Molecule.to_string not found")
    fn = fns[0]
    body = [s for s in fn.body if not (isinstance(s, ast.Expr) and isinstance(s.value, ast.Constant))]
    need(len(body) == 2 and isinstance(body[0], ast.Assign) and U(body[0].targets[0]) == "molrec" and isinstance(body[1], ast.Return)
         and isinstance(body[1].value, ast.Call) and U(body[1].value.func) == "to_string" and [U(a) for a in body[1].value.args] == ["molrec"],
         f"{rel}: Molecule.to_string is not `molrec = …; return to_string(molrec, …)`")
    t = Tr.__new__(Tr)
    t.rel = rel
    return {"molrec": U(body[0].value), "forward": [(k.arg, U(k.value)) for k in body[1].value.keywords], "defaults": t.defaults(fn, skip=1)}


# ----------------------------------------------------------------------------------------------------
# rendering


def ls(s: str) -> str:
    out = ['"']
    for ch in s:
        if ch == "\\":
            out.append("\\\\")
        elif ch == '"':
            out.append('\\"')
        elif ch == "\n":
            out.append("\\n")
        elif ch == "\t":
            out.append("\\t")
        elif 32 <= ord(ch) < 127:
            out.append(ch)
        else:
            raise SpecError(f"non-ASCII / control character {ch!r} in a source literal")
    return "".join(out) + '"'


def lcond(c) -> str:
    if c[0] in ("always", "fixOrientOrCom", "fixCom", "fixOrient", "hasGhost", "symAbsent", "symTruthy"):
        return "." + c[0]
    if c[0] == "symEq":
        return f"(.symEq {ls(c[1])})"
    if c[0] == "multNe":
        return f"(.multNe {c[1]})" if c[1] >= 0 else f"(.multNe ({c[1]}))"
    if c[0] == "symStripUpperNe":
        return f"(.symStripUpperNe {ls(c[1])} {ls(c[2])})"
    raise SpecError(f"condition {c}")


def lhole(h) -> str:
    if h[0] == "fixSymStripOr":
        return f"(.fixSymStripOr {ls(h[1])})"
    return "." + h[0]


def lseg(s) -> str:
    if s[0] == "lit":
        return f".lit {ls(s[1])}"
    if s[0] == "hole":
        return f".hole {lhole(s[1:])}"
    if s[0] == "optlit":
        return f".optLit {lcond(s[1])} {ls(s[2])}"
    if s[0] == "opthole":
        return f".optHole {lcond(s[1])} {lhole(s[2:])}"
    raise SpecError(f"segment {s}")


def lsegs(segs) -> str:
    return "[" + ", ".join(lseg(s) for s in segs) + "]"


def litem(i) -> str:
    if i[0] == "line":
        return f".line {lcond(i[1])} {'true' if i[2] else 'false'} {lsegs(i[3])}"
    if i[0] in ("atoms", "atomsLower", "sdfCounts", "sdfBonds"):
        return "." + i[0]
    if i[0] == "frags":
        return f".frags {ls(i[1])} {lsegs(i[2])}"
    if i[0] == "dummy":
        return f".dummy {lcond(i[1])} {ls(i[2])} {ls(i[3])}"
    raise SpecError(f"item {i}")


def lkw(k) -> str:
    cond, key, e = k
    if e[0] == "bool":
        v = f"(.bool {'true' if e[1] else 'false'})"
    elif e[0] == "str":
        v = f"(.str {ls(e[1])})"
    elif e[0] == "coords":
        v = f"(.coords {ls(e[1])})"
    else:
        v = "." + e[0]
    return f"⟨{lcond(cond)}, {ls(key)}, {v}⟩"


def lfactor(e) -> str:
    if e[0] == "ifPinned":
        return f"(.ifPinned .{e[1]} .{e[2]})"
    return "." + e[0]


def render(spec) -> str:
    L = [
        "import QcelVerif.Model.ToStringSrc",
        "/-! GENERATED by harness/c08_spec.py from qcelemental/molparse/to_string.py (read by `ast`) — do not edit -/",
        "namespace QcelVerif.ToString.Gen",
        "open QcelVerif.ToString.Src",
        "",
        f"def tagline : String := {ls(spec['tagline'])}",
        "def baseFields : List String := [" + ", ".join(ls(x) for x in spec["baseFields"]) + "]",
        f"def joinSep : String := {ls(spec['join'][0])}",
        f"def joinEnd : String := {ls(spec['join'][1])}",
        f"def fxyz : String := {ls(spec['fmt']['fxyz'])}",
        f"def nucSpec : String := {ls(spec['fmt']['nuc'])}",
        f"def spSpec : String := {ls(spec['fmt']['sp'])}",
        "def atominfo : List String := [" + ", ".join(ls(x) for x in spec["atominfo"]) + "]",
        "",
        "/-- `to_string(molrec, dtype, units=None, *, …)`: (argument, default as written) after `molrec` -/",
        "def fnDefaults : List (String × String) := [" + ", ".join(f"({ls(a)}, {ls(b)})" for a, b in spec["fnDefaults"]) + "]",
        "/-- `Molecule.to_string(self, dtype, …)`: the same list after `self` -/",
        "def molDefaults : List (String × String) := [" + ", ".join(f"({ls(a)}, {ls(b)})" for a, b in spec["mol"]["defaults"]) + "]",
        "/-- the molrec `Molecule.to_string` builds -/",
        f"def molRec : String := {ls(spec['mol']['molrec'])}",
        "/-- the keywords of its `to_string(molrec, …)` call: (keyword, value) -/",
        "def molForward : List (String × String) := [" + ", ".join(f"({ls(a)}, {ls(b)})" for a, b in spec["mol"]["forward"]) + "]",
        "",
        "/-- the factor-selection chain: (molrec[\"units\"], units.capitalize(), factor expression), in source order -/",
        "def factorRows : List (String × String × FactorExpr) :=",
        "  [ " + ",\n    ".join(f"({ls(a)}, {ls(b)}, {lfactor(e)})" for a, b, e in spec["factorRows"]) + " ]",
        f"def factorElse : FactorExpr := {lfactor(spec['factorElse'])}",
        "",
    ]
    rows = []
    for b in spec["branches"]:
        for n in b.names:
            acc = ".none"
            if b.guard is not None:
                acc = f"(.fixed {ls(b.guard[0])} {ls(b.guard[1])})"
            elif b.access:
                a = sorted(b.access)[0]
                acc = {"getSelf": ".getSelf", "get": ".get", "idx": ".idx"}[a]
            umap = "[" + ", ".join(f"({ls(k)}, {ls(v)})" for k, v in (b.umap or [])) + "]"
            rows.append(
                f"  {{ name := {ls(n)}\n"
                f"    umap := {umap}\n"
                f"    access := {acc}\n"
                f"    unitWritten := {'true' if any(_has_unit(i) for i in b.items) or any(e[0] in ('unitGet', 'unitIdx') for _, _, e in b.kws) else 'false'}\n"
                f"    items := [" + ",\n              ".join(litem(i) for i in b.items) + "]\n"
                f"    fieldsExt := [" + ", ".join(ls(x) for x in b.fields) + "]\n"
                f"    kws := [" + ",\n            ".join(lkw(k) for k in b.kws) + "] }"
            )
    L.append("/-- one row per dtype name, in the order of the source's if/elif chain -/")
    L.append("def branches : List Branch :=\n  [\n" + ",\n".join(rows) + "\n  ]")
    L.append("")
    s = [b for b in spec["branches"] if b.sdf is not None]
    need(len(s) == 1, "exactly one SDF branch expected")
    d = s[0].sdf
    L.append("def sdf : SdfSpec :=")
    L.append("  { " + ", ".join(f"{k} := {ls(v) if isinstance(v, str) else v}" for k, v in d.items() if k != "head") + " }")
    L.append("")
    L.append("end QcelVerif.ToString.Gen")
    return "\n".join(L) + "\n"


def _has_unit(item) -> bool:
    segs = item[3] if item[0] == "line" else item[2] if item[0] == "frags" else []
    return any((s[0] == "hole" and s[1] == "unit") or (s[0] == "opthole" and s[2] == "unit") for s in segs)


STUB = ("import QcelVerif.Model.ToStringSrc\n/-! GENERATED by harness/c08_spec.py - the source could NOT be translated:\n{msg}\n-/\n"
        "namespace QcelVerif.ToString.Gen\nend QcelVerif.ToString.Gen\n")


def gen_tostring_spec(ctx=None) -> None:
    import common

    gen = common.LEAN / "QcelVerif" / "Gen"
    gen.mkdir(exist_ok=True)
    f = gen / "ToStringSpec.lean"
    try:
        spec = Tr(common.REPO / "qcelemental" / "molparse" / "to_string.py").run()
        spec["mol"] = molecule_route(common.REPO / "qcelemental" / "models" / "molecule.py")
        body = render(spec)
    except Exception as e:
        # never leave a stale table behind that could still satisfy Props/C08Spec.lean
        f.write_text(STUB.format(msg=str(e).replace("-/", "- /")))
        raise
    if not f.exists() or f.read_text() != body:
        f.write_text(body)


gen_tostring_spec.__name__ = "c08_spec.gen_tostring_spec"

if __name__ == "__main__":
    import sys

    sys.path.insert(0, str(Path(__file__).resolve().parent))
    import common

    _s = Tr(common.REPO / "qcelemental" / "molparse" / "to_string.py").run()
    _s["mol"] = molecule_route(common.REPO / "qcelemental" / "models" / "molecule.py")
    print(render(_s))
